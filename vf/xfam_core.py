"""X-layer families: string literal escapes, loop control inside nested constructs, cond / match sizes.
Every expected output is computed here in plain Python."""
import itertools


def _show_bool(b):
    return "true" if b else "false"


# ------------------------------------------------------------------------------------------ string escapes
ESC = [("\\n", "\n"), ("\\t", "\t"), ("\\\\", "\\"), ('\\"', '"'), ("\\r", "\r"), ("\\'", "'")]


def esc_units(tier):
    n = 0
    frames = [("", ""), ("a", ""), ("", "b"), ("a", "b")]
    combos = [(e,) for e in ESC] + ([(a, b) for a in ESC[:4] for b in ESC[:4]] if tier != "quick" else [(ESC[0], ESC[1]), (ESC[2], ESC[3]), (ESC[3], ESC[2]), (ESC[2], ESC[0])])
    for combo in combos:
        for pre, post in frames:
            src = pre + "".join(c[0] for c in combo) + post
            val = pre + "".join(c[1] for c in combo) + post
            body = '    let s: string = "%s"\n' % src
            body += "    (println (str_length s))\n"
            exp = "%d\n" % len(val)
            body += '    (println (== s "%s"))\n' % src
            exp += "true\n"
            body += '    (println (str_length (+ s "%s")))\n' % src
            exp += "%d\n" % (2 * len(val))
            if "\r" not in val:
                body += '    (print "[")\n    (print s)\n    (println "]")\n'
                exp += "[" + val + "]\n"
            for k, ch in enumerate(val[:3]):
                body += "    (println (char_at s %d))\n" % k
                exp += "%d\n" % ord(ch)
            body += "    return (str_length s)\n"
            yield {"name": "esc_%d" % n, "body": body, "expected": exp, "ret": len(val),
                   "what": "string literal %r: length, equality, concatenation, printing, char_at" % src}
            n += 1


# ------------------------------------------------------------------------------------------ loop control
WRAPS = {
    # construct around the control statement; @C is "if (== i K) { <ctl> } else {}"
    "plain": "@C",
    "if-true": "        if true {\n    @C        } else {}\n",
    "nested-if-else": "        if (< i 0) { (println -1) } else {\n    @C        }\n",
    "unsafe": "        unsafe {\n    @C        }\n",
    "match-arm": "        match u {\n            A(a) => {\n        @C            }\n            B(b) => { (println b.s) }\n        }\n",
    "match-arm-in-if": "        if true {\n            match u {\n                A(a) => {\n            @C                }\n                B(b) => { (println b.s) }\n            }\n        } else {}\n",
    "if-in-match-arm-in-unsafe": "        unsafe {\n            match u {\n                A(a) => {\n                    if true {\n                @C                    } else {}\n                }\n                B(b) => { (println b.s) }\n            }\n        }\n",
}


def loop_units(tier):
    n = 0
    for loop in ("while", "for"):
        for wname, wrap in WRAPS.items():
            for ctl in ("break", "continue", "return"):
                for k in (0, 2, 4, 9):
                    uname = "lp_%d" % n
                    n += 1
                    decls = "union %s { A { v: int }, B { s: string } }\n" % ("Lpu%d" % (n - 1))
                    un = "Lpu%d" % (n - 1)
                    ctl_stmt = {"break": "break", "continue": "continue", "return": "return (+ 100 i)"}[ctl]
                    c = "        if (== i %d) { %s } else {}\n" % (k, ctl_stmt)
                    inner = c if wname == "plain" else wrap.replace("@C", c)
                    body = "    let u: %s = %s.A { v: 1 }\n    let mut seen: int = 0\n" % (un, un)
                    if loop == "while":
                        # the increment comes first so that 'continue' cannot loop forever
                        body += "    let mut j: int = 0\n    while (< j 5) {\n        let i: int = j\n        set j (+ j 1)\n"
                    else:
                        body += "    for i in (range 0 5) {\n"
                    body += inner
                    body += "        (println i)\n        set seen (+ seen 1)\n    }\n    (println \"done\")\n    return seen\n"
                    # reference
                    out = []
                    seen = 0
                    ret = None
                    for i in range(5):
                        if i == k:
                            if ctl == "break":
                                break
                            if ctl == "continue":
                                continue
                            ret = 100 + i
                            break
                        out.append("%d\n" % i)
                        seen += 1
                    if ret is None:
                        out.append("done\n")
                        ret = seen
                    yield {"name": uname, "decls": decls, "body": body, "expected": "".join(out), "ret": ret,
                           "what": "%s at i==%d inside [%s] inside a %s loop" % (ctl, k, wname, loop)}


# ------------------------------------------------------------------------------------------ cond / match sizes
def size_units(tier):
    sizes = (1, 2, 3, 63, 64, 65, 66) + ((127, 128, 129, 200) if tier != "quick" else (130,))
    n = 0
    for sz in sizes:
        uname = "cs_%d" % n
        n += 1
        decls = "fn %s_pick(a: int) -> int {\n    return (cond\n%s        (else -1))\n}\nshadow %s_pick { assert true }\n" % (
            uname, "".join("        ((== a %d) %d)\n" % (i, 1000 + i) for i in range(sz)), uname)
        probes = sorted(set([0, sz // 2, sz - 1, sz, sz + 5]))
        body = "".join("    (println (%s_pick %d))\n" % (uname, p) for p in probes) + "    return %d\n" % sz
        exp = "".join("%d\n" % (1000 + p if p < sz else -1) for p in probes)
        yield {"name": uname, "decls": decls, "body": body, "expected": exp, "ret": sz, "what": "cond with %d clauses, first / middle / last / no clause taken" % sz}
    for sz in (1, 2, 3, 63, 64, 65, 66) + ((100,) if tier != "quick" else ()):
        uname = "ms_%d" % n
        n += 1
        un = "Msu%d" % (n - 1)
        decls = "union %s { %s }\n" % (un, ", ".join("V%d { x: int }" % i for i in range(sz)))
        decls += "fn %s_pick(u: %s) -> int {\n    match u {\n%s    }\n}\nshadow %s_pick { assert true }\n" % (
            uname, un, "".join("        V%d(b) => { return (+ b.x %d) }\n" % (i, 1000 * i) for i in range(sz)), uname)
        probes = sorted(set([0, sz // 2, sz - 1]))
        body = "".join("    (println (%s_pick %s.V%d { x: 7 }))\n" % (uname, un, p) for p in probes) + "    return %d\n" % sz
        exp = "".join("%d\n" % (7 + 1000 * p) for p in probes)
        yield {"name": uname, "decls": decls, "body": body, "expected": exp, "ret": sz, "what": "match statement over a union with %d variants, first / middle / last arm taken" % sz}


# ------------------------------------------------------------------------------------------ evaluation order with state
def evo_units(tier):
    """strict left-to-right evaluation where one operand is a plain variable read and the other a call that assigns that
    variable (reading a variable IS its evaluation): every binary operator, both spellings; and the same for call
    arguments.  The C back end leaves operand order to the C compiler (open finding native-unsequenced-effects), so
    these units run on the VM and the evaluator only."""
    ops = [("+", lambda a, b: a + b), ("-", lambda a, b: a - b), ("*", lambda a, b: a * b), ("==", lambda a, b: a == b), ("!=", lambda a, b: a != b),
           ("<", lambda a, b: a < b), ("<=", lambda a, b: a <= b), (">", lambda a, b: a > b), (">=", lambda a, b: a >= b)]
    n = 0
    for op, f in ops:
        for spelling in ("prefix", "infix"):
            for shape in ("var-call", "call-var", "call-call"):
                uname = "evo_%d" % n
                n += 1
                g = uname + "_g"
                decls = "let mut %s: int = 10\n" % g
                decls += "fn %s_bump(d: int) -> int {\n    set %s (+ %s d)\n    return %s\n}\nshadow %s_bump { assert true }\n" % (uname, g, g, g, uname)
                lhs, rhs = {"var-call": (g, "(%s_bump 5)" % uname), "call-var": ("(%s_bump 5)" % uname, g), "call-call": ("(%s_bump 5)" % uname, "(%s_bump 7)" % uname)}[shape]
                expr = "(%s %s %s)" % (op, lhs, rhs) if spelling == "prefix" else "(%s %s %s)" % (lhs, op, rhs)
                body = "    set %s 10\n    (println %s)\n    (println %s)\n    return 0\n" % (g, expr, g)
                gv = 10
                if shape == "var-call":
                    a = gv
                    gv += 5
                    b = gv
                elif shape == "call-var":
                    gv += 5
                    a = gv
                    b = gv
                else:
                    gv += 5
                    a = gv
                    gv += 7
                    b = gv
                r = f(a, b)
                exp = ("%s\n" % (_show_bool(r) if isinstance(r, bool) else r)) + "%d\n" % gv
                yield {"name": uname, "decls": decls, "body": body, "expected": exp, "ret": 0, "engines": ("vm", "eval"),
                       "what": "operand order of %s (%s spelling), operands %s where the call assigns the variable" % (op, spelling, shape)}
    for shape in ("var,call", "call,var", "var,call,var"):
        uname = "evo_%d" % n
        n += 1
        g = uname + "_g"
        decls = "let mut %s: int = 1\n" % g
        decls += "fn %s_bump(d: int) -> int {\n    set %s (+ %s d)\n    return %s\n}\nshadow %s_bump { assert true }\n" % (uname, g, g, g, uname)
        nargs = len(shape.split(","))
        decls += "fn %s_show(%s) -> int {\n%s    return 0\n}\nshadow %s_show { assert true }\n" % (
            uname, ", ".join("p%d: int" % i for i in range(nargs)), "".join("    (println p%d)\n" % i for i in range(nargs)), uname)
        args = []
        vals = []
        gv = 1
        for part in shape.split(","):
            if part == "var":
                args.append(g)
                vals.append(gv)
            else:
                gv += 5
                args.append("(%s_bump 5)" % uname)
                vals.append(gv)
        body = "    set %s 1\n    (%s_show %s)\n    return 0\n" % (g, uname, " ".join(args))
        yield {"name": uname, "decls": decls, "body": body, "expected": "".join("%d\n" % v for v in vals), "ret": 0, "engines": ("vm", "eval"),
               "what": "argument order: (%s) where the call assigns the variable" % shape}


# ------------------------------------------------------------------------------------------ match expression / statement histories
def mhist_units(tier):
    """every sequence (length <= 3) of: a match EXPRESSION whose arm is a block consisting of one 'return e' (the arm's
    value), a match STATEMENT whose arm prints and falls through, a call of a function that does either - executed in one
    function; what comes after each must still run.  Block arms in expression position are only defined consistently by
    the evaluator and the C back end (the VM treats the arm's return as the function's), hence engines native + eval."""
    import itertools as it
    alphabet = ("E", "S", "cE", "cS", "Sc", "SE")
    n = 0
    for ln in (1, 2, 3):
        for seq in it.product(alphabet, repeat=ln):
            uname = "mh_%d" % n
            n += 1
            un = "Mhu%d" % (n - 1)
            decls = "union %s { A { v: int }, B { s: string } }\n" % un
            decls += ("fn %s_ce(u: %s) -> int {\n    let r: int = match u {\n        A(a) => { return (+ a.v 1000) }\n        B(b) => { return 2 }\n    }\n"
                      "    (println \"ce-after\")\n    return (+ r 1)\n}\nshadow %s_ce { assert true }\n" % (uname, un, uname))
            decls += ("fn %s_cs(u: %s) -> int {\n    match u {\n        A(a) => { (println a.v) }\n        B(b) => { (println b.s) }\n    }\n"
                      "    (println \"cs-after\")\n    return 5\n}\nshadow %s_cs { assert true }\n" % (uname, un, uname))
            body = "    let u: %s = %s.A { v: 7 }\n    let mut acc: int = 0\n" % (un, un)
            out = []
            acc = 0
            for k, op in enumerate(seq):
                if op == "E":
                    body += "    let r%d: int = match u {\n        A(a) => { return (+ a.v %d) }\n        B(b) => { return 0 }\n    }\n    (println r%d)\n    set acc (+ acc r%d)\n" % (k, 10 * (k + 1), k, k)
                    out.append("%d\n" % (7 + 10 * (k + 1)))
                    acc += 7 + 10 * (k + 1)
                elif op == "S":
                    body += "    match u {\n        A(a) => { (println (+ a.v %d)) }\n        B(b) => { (println b.s) }\n    }\n    (println \"after-s%d\")\n    set acc (+ acc 1)\n" % (100 * (k + 1), k)
                    out.append("%d\nafter-s%d\n" % (7 + 100 * (k + 1), k))
                    acc += 1
                elif op == "Sc":      # a match statement whose arm CALLS a function that runs a returning match expression
                    body += ("    match u {\n        A(a) => { (println (%s_ce u)) }\n        B(b) => { (println b.s) }\n    }\n    (println \"after-sc%d\")\n    set acc (+ acc 2)\n" % (uname, k))
                    out.append("ce-after\n1008\nafter-sc%d\n" % k)
                    acc += 2
                elif op == "SE":      # a match statement whose arm CONTAINS a match expression with a return-block arm
                    body += ("    match u {\n        A(a) => {\n            let q%d: int = match u {\n                A(c) => { return (+ c.v 1) }\n                B(c) => { return 0 }\n            }\n"
                             "            (println q%d)\n        }\n        B(b) => { (println b.s) }\n    }\n    (println \"after-se%d\")\n    set acc (+ acc 3)\n" % (k, k, k))
                    out.append("8\nafter-se%d\n" % k)
                    acc += 3
                elif op == "cE":
                    body += "    set acc (+ acc (%s_ce u))\n    (println \"after-ce%d\")\n" % (uname, k)
                    out.append("ce-after\nafter-ce%d\n" % k)
                    acc += 1008
                else:
                    body += "    set acc (+ acc (%s_cs u))\n    (println \"after-cs%d\")\n" % (uname, k)
                    out.append("7\ncs-after\nafter-cs%d\n" % k)
                    acc += 5
            body += "    (println acc)\n    return acc\n"
            out.append("%d\n" % acc)
            yield {"name": uname, "decls": decls, "body": body, "expected": "".join(out), "ret": acc, "engines": ("native", "eval"),
                   "what": "match history %s (E = match expression with a return-block arm, S = match statement, cX = X inside a called function, Sc = statement arm calling cE, SE = statement arm containing E)" % " ".join(seq)}


# ------------------------------------------------------------------------------------------ printing floats
def flt_units(tier):
    """println / print of float values: literals, variables, results of arithmetic, elements read from an array; the engines
    print the shortest %g form (6 significant digits)."""
    vals = [0.0, 1.0, 4.0, 2.5, -0.25, 100.0, 0.1, 123456.0, 1234567.0, 0.0001, 0.00001, 1e15, -3.0, 65536.5]
    if tier != "quick":
        vals += [1e16, 123456789.0, 0.5, 7.25, 1e-7, 99999.5, 999999.5, 33.333]
    n = 0
    for v in vals:
        lit = repr(v) if "e" not in repr(v) else ("%.1f" % v if v >= 1 else "%.7f" % v)
        val = float(lit)
        g = "%g" % val
        body = "    (println %s)\n" % lit
        exp = g + "\n"
        body += "    let f: float = %s\n    (println f)\n" % lit
        exp += g + "\n"
        body += "    (println (* f 1.0))\n"
        exp += g + "\n"
        body += "    let fs: array<float> = [f, 1.5]\n    (println (at fs 0))\n"
        exp += g + "\n"
        body += "    (print f)\n    (println \"\")\n"
        exp += g + "\n"
        body += "    return 0\n"
        yield {"name": "flt_%d" % n, "body": body, "expected": exp, "ret": 0, "what": "printing the float %s" % lit}
        n += 1


# ------------------------------------------------------------------------------------------ loops across table growth
def grow_units(tier):
    """a for / while loop whose body makes the engines' variable tables grow while the loop is running: the loop variable,
    the accumulator and the bound must survive every reallocation.  The body recurses `depth` levels (three bindings per
    level); the number of bindings declared BEFORE the loop sweeps a window, so every capacity 2^k up to 8192 is crossed
    at some point of some unit (three bindings x 950 levels = 2850 bindings on top of the program's own).  Each unit is its own program (the tables' sizes are the point)."""
    n = 0
    for depth in ((40, 400, 950) if tier == "quick" else (10, 40, 150, 400, 700, 950)):      # below every engine's call-depth limit (1024)
        for pad in ((0, 3, 7) if tier == "quick" else (0, 1, 2, 3, 5, 7, 11, 15)):
            for loop in ("for", "while"):
                uname = "grow_%d" % n
                n += 1
                decls = ("fn %s_rec(d: int, x: int) -> int {\n    let a: int = (+ x 1)\n    if (<= d 0) { return a } else {\n        let b: int = (%s_rec (- d 1) a)\n        return (- b 1)\n    }\n}\n"
                         "shadow %s_rec { assert (== (%s_rec 3 5) 6) }\n" % (uname, uname, uname, uname))
                body = "".join("    let pad%d: int = %d\n" % (i, i) for i in range(pad))
                body += "    let mut acc: int = 0\n"
                if loop == "for":
                    body += "    for i in (range 0 4) {\n        let r: int = (%s_rec %d i)\n        set acc (+ acc (+ r (* i 1000)))\n        (println i)\n    }\n" % (uname, depth)
                else:
                    body += "    let mut i: int = 0\n    while (< i 4) {\n        let r: int = (%s_rec %d i)\n        set acc (+ acc (+ r (* i 1000)))\n        (println i)\n        set i (+ i 1)\n    }\n" % (uname, depth)
                body += "    (println acc)\n    return (% acc 250)\n"
                # rec(d, x) = x + 1 whatever d (every level adds one going down and takes one off coming back)
                acc = sum((i + 1) + 1000 * i for i in range(4))
                exp = "".join("%d\n" % i for i in range(4)) + "%d\n" % acc
                yield {"name": uname, "decls": decls, "body": body, "expected": exp, "ret": acc % 250, "own_program": True,
                       "what": "%s loop around a recursion %d deep, %d bindings before the loop" % (loop, depth, pad)}


# ------------------------------------------------------------------------------------------ leaving a scope early
def lsh_units(tier):
    """a block that declares a local shadowing an outer variable and is then left EARLY (break / continue / return from a
    nested block): the outer variable must be the one seen afterwards - in the next iteration, after the loop, and in
    the caller."""
    n = 0
    for loop in ("while", "for"):
        for ctl in ("break", "continue", "none"):
            for where in ("if-in-loop", "nested-if-in-loop", "match-arm-in-loop"):
                for k in (0, 1, 3):
                    uname = "lsh_%d" % n
                    n += 1
                    un = "Lshu%d" % (n - 1)
                    decls = "union %s { A { v: int }, B { s: string } }\n" % un
                    c = {"break": "if (== i %d) { break } else {}" % k, "continue": "if (== i %d) { continue } else {}" % k, "none": "(println 0)"}[ctl]
                    inner = "let x: int = (+ (* i 10) 5)\n            (println x)\n            %s\n            (println (+ x 1))" % c
                    if where == "loop-body":
                        blk = "        " + inner.replace("\n            ", "\n        ") + "\n"
                    elif where == "if-in-loop":
                        blk = "        if true {\n            %s\n        } else {}\n" % inner
                    elif where == "nested-if-in-loop":
                        blk = "        if true {\n            if (>= i 0) {\n            %s\n            } else {}\n        } else {}\n" % inner
                    else:
                        blk = "        match u {\n            A(a) => {\n            %s\n            }\n            B(b) => { (println b.s) }\n        }\n" % inner
                    body = "    let u: %s = %s.A { v: 1 }\n    let mut x: int = 1000\n" % (un, un)
                    if loop == "while":
                        body += "    let mut j: int = 0\n    while (< j 4) {\n        let i: int = j\n        set j (+ j 1)\n        (println x)\n" + blk + "        set x (+ x 1)\n    }\n"
                    else:
                        body += "    for i in (range 0 4) {\n        (println x)\n" + blk + "        set x (+ x 1)\n    }\n"
                    body += "    (println x)\n    return (%s x 7)\n" % "%"
                    out = []
                    x = 1000
                    for i in range(4):
                        out.append("%d\n" % x)
                        ix = i * 10 + 5
                        out.append("%d\n" % ix)
                        if ctl == "break" and i == k:
                            break
                        if ctl == "continue" and i == k:
                            continue
                        if ctl == "none":
                            out.append("0\n")
                        out.append("%d\n" % (ix + 1))
                        x += 1
                    out.append("%d\n" % x)
                    yield {"name": uname, "decls": decls, "body": body, "expected": "".join(out), "ret": x % 7,
                           "what": "inner 'let x' shadowing an outer mutable x in [%s] of a %s loop, left by %s at i==%d" % (where, loop, ctl, k)}


# ------------------------------------------------------------------------------------------ loop after loop
def lseq_units(tier):
    """every ordered pair of loops (kind x control statement) at the same nesting depth: one after the other in one function,
    the first in a function compiled earlier, and the second nested one level deeper - whatever a compiler keeps per
    loop (jump patch lists, 'continue goes forward' flags) must not leak from the first loop into the second."""
    kinds = [(l, c) for l in ("for", "while") for c in ("break", "continue", "none")]

    def loop_src(tag, l, c, ind):
        ctl = {"break": "if (== %s 2) { break } else {}" % tag, "continue": "if (== %s 1) { continue } else {}" % tag, "none": "(println 77)"}[c]
        if l == "for":
            return ("%sfor %s in (range 0 4) {\n%s    %s\n%s    (println %s)\n%s}\n" % (ind, tag, ind, ctl, ind, tag, ind))
        return ("%slet mut %sw: int = 0\n%swhile (< %sw 4) {\n%s    let %s: int = %sw\n%s    set %sw (+ %sw 1)\n%s    %s\n%s    (println %s)\n%s}\n"
                % (ind, tag, ind, tag, ind, tag, tag, ind, tag, tag, ind, ctl, ind, tag, ind))

    def loop_out(c):
        out = []
        for i in range(4):
            if c == "break" and i == 2:
                break
            if c == "continue" and i == 1:
                continue
            if c == "none":
                out.append("77\n")
            out.append("%d\n" % i)
        return "".join(out)
    n = 0
    for (l1, c1) in kinds:
        for (l2, c2) in kinds:
            for shape in ("same-function", "earlier-function", "second-nested-in-if"):
                uname = "lseq_%d" % n
                n += 1
                decls = ""
                if shape == "earlier-function":
                    decls = "fn %s_first() -> int {\n%s    return 1\n}\nshadow %s_first { assert true }\n" % (uname, loop_src("p", l1, c1, "    "), uname)
                    body = "    (println (%s_first))\n" % uname + loop_src("q", l2, c2, "    ")
                    exp = loop_out(c1) + "1\n" + loop_out(c2)
                elif shape == "same-function":
                    body = loop_src("p", l1, c1, "    ") + loop_src("q", l2, c2, "    ")
                    exp = loop_out(c1) + loop_out(c2)
                else:
                    body = loop_src("p", l1, c1, "    ") + "    if true {\n" + loop_src("q", l2, c2, "        ") + "    } else {}\n"
                    exp = loop_out(c1) + loop_out(c2)
                body += "    (println \"end\")\n    return 0\n"
                yield {"name": uname, "decls": decls, "body": body, "expected": exp + "end\n", "ret": 0,
                       "what": "%s loop with %s, then %s loop with %s (%s)" % (l1, c1, l2, c2, shape)}


# ------------------------------------------------------------------------------------------ for bounds, printing arrays
def misc_units(tier):
    """(a) the bounds of a for loop are evaluated once, before the loop: bounds that are calls with a visible effect, a bound
    variable that the body changes, a start bound with an effect; (b) println / print of whole arrays of int, bool and
    string (empty, one element, several; built by literal and by push)."""
    n = 0
    for lo_kind in ("literal", "call"):
        for hi_kind in ("call", "variable-changed-in-body", "arithmetic-on-call"):
            uname = "misc_%d" % n
            n += 1
            g = uname + "_calls"
            decls = "let mut %s: int = 0\nfn %s_b(v: int) -> int {\n    set %s (+ %s 1)\n    (println \"bound\")\n    return v\n}\nshadow %s_b { assert true }\n" % (g, uname, g, g, uname)
            lo = "0" if lo_kind == "literal" else "(%s_b 1)" % uname
            body = "    set %s 0\n    let mut lim: int = 3\n" % g
            hi = {"call": "(%s_b 3)" % uname, "variable-changed-in-body": "lim", "arithmetic-on-call": "(+ (%s_b 2) 1)" % uname}[hi_kind]
            body += "    for i in (range %s %s) {\n        (println i)\n        set lim (+ lim 1)\n    }\n    (println %s)\n    (println lim)\n    return 0\n" % (lo, hi, g)
            start = 0 if lo_kind == "literal" else 1
            calls = (1 if lo_kind == "call" else 0) + (0 if hi_kind == "variable-changed-in-body" else 1)
            its = list(range(start, 3))
            exp = "bound\n" * calls + "".join("%d\n" % i for i in its) + "%d\n%d\n" % (calls, 3 + len(its))
            yield {"name": uname, "decls": decls, "body": body, "expected": exp, "ret": 0,
                   "what": "for loop with a %s start bound and a %s end bound: evaluated once, before the loop" % (lo_kind, hi_kind)}
    arrays = [("int", [], "[]"), ("int", [7], "[7]"), ("int", [1, -2, 3], "[1, -2, 3]"), ("bool", [True, False], "[true, false]"),
              ("string", [], "[]"), ("string", ["a"], '["a"]'), ("string", ["a", "", "b c"], '["a", "", "b c"]')]
    for ty, vals, shown in arrays:
        for how in ("literal", "pushed"):
            uname = "misc_%d" % n
            n += 1
            lit = lambda v: ('"%s"' % v) if ty == "string" else (("true" if v else "false") if ty == "bool" else str(v))
            if how == "literal":
                body = "    let xs: array<%s> = [%s]\n" % (ty, ", ".join(lit(v) for v in vals))
            else:
                body = "    let mut xs: array<%s> = []\n" % ty + "".join("    set xs (array_push xs %s)\n" % lit(v) for v in vals)
            body += "    (println xs)\n    (print xs)\n    (println \"\")\n    return %d\n" % len(vals)
            yield {"name": uname, "body": body, "expected": shown + "\n" + shown + "\n", "ret": len(vals),
                   "what": "printing the array<%s> %s (%s)" % (ty, shown, how)}


def units(tier):
    for u in itertools.chain(esc_units(tier), loop_units(tier), size_units(tier), evo_units(tier), mhist_units(tier), flt_units(tier), grow_units(tier), lsh_units(tier),
                             lseq_units(tier), misc_units(tier)):
        yield u
