"""X-layer family `bi`: the BUILT-IN FUNCTION MATRIX.

src/builtins_registry.c of the tree under test (common.REPO) is parsed at import time (name, arity, parameter types,
return type, flags).  Every registered built-in is in exactly one of three classes:

  * described (SPECS / CUSTOM below) -> enumerated over the product of small boundary pools, one unit per
        (built-in x way the arguments reach it x argument-pool slice).  The expected text comes from the plain Python
        model next to the description (docs/STDLIB.md, docs/DYNAMIC_ARRAYS.md, docs/SPECIFICATION.md); argument tuples
        the documents leave open (UNDEF) go to units of their own with expected None: the engines are compared with
        each other; tuples that must abort or are C undefined behaviour (OMIT) are not generated;
  * listed in EXCLUDED  -> not enumerated, with the reason;
  * neither (a built-in added to the registry later) -> enumerated generically from its registry signature when it is
        pure and all its parameters are int / float / bool / string (expected None), otherwise named in UNCOVERED.

Sub-families (unit name prefixes):
  bi_<name>[_<variant>][_let|_mut|_fn]_[u]<k>   the matrix proper; variants: i/f/b/s = argument type of a polymorphic
                          built-in, wide = ints that are no character, big = values beyond 32 bits; let / mut / fn = the
                          arguments are immutable locals / mutable locals / parameters of a wrapper function; u = result
                          not documented
  bi_range_*              for i in (range a b): iterations and sum, around 0, 2^31, 2^32 and the int64 ends
  bi_array_push_* bi_array_pop_* bi_array_remove_at_* bi_array_set_* bi_string_from_bytes_*
                          the built-ins that change their array argument ('set xs (array_push xs v)' and statement form)
  bi_law_*                built-ins fed with the results of built-ins (round trips, split/join, signedness of int results)
  bi_loop_*               a loop variable as the argument, results accumulated over the loop
  bi_churn_*              thousands of strings / array elements made by built-ins inside loops

Floats are never printed (the properties say "floats compared, never printed"; the VM prints 4.0 where the compiled
program prints 4): a float result r is observed as (cast_int (* r 1000.0)) - three decimals, independent of long float
literals - and as (== r <literal>) for the exactly rounded functions / |r - literal| < eps for the transcendental ones.

EXCLUDED built-ins
  print println                                   the observation channel itself (every unit uses println)
  file_read file_read_bytes file_write file_append file_remove file_rename file_exists file_size tmp_dir mktemp
  mktemp_dir dir_create dir_remove dir_list dir_exists getcwd chdir fs_walkdir path_isfile path_isdir system exit
  getenv setenv process_run                       flagged BUILTIN_IO: files, directories, environment, processes
  null_opaque hashmap_* map_* result_*            take / return opaque handles, HashMap or Result values
  filter map reduce                               function-valued parameter (known finding c04-higher-order-signature)
  bstr_utf8_length bstr_utf8_char_at bstr_validate_utf8
                                                  the parameter is a bstring handle made by bstr_new (not in the registry);
                                                  with a plain string the call is accepted and runs on the VM, but the C
                                                  program does not compile and the evaluator has no such function
  array_concat float_to_string bool_to_string string_to_float is_space asin acos atan log log2 log10 exp fmod
  path_join path_basename path_dirname path_normalize
                                                  registered, but the type checker does not know them ("I cannot find a
                                                  function named"): no accepted program calls them without extern

Argument tuples left out or only compared between engines (and why)
  abs INT64_MIN                                   -INT64_MIN: C undefined behaviour natively (OMIT)
  sqrt / pow / tan / atan2 outside the real domain, overflowing results: not described (OMIT)
  round x.5 where "half away from zero" (C round) and "half to even" (remark in STDLIB.md) differ: UNDEF
  cast_int of a float beyond int64, cast_string / to_string of a float whose text is not the same under %g and
  shortest-round-trip printing (integral values: 4 vs 4.0): OMIT;  cast_* of a string: known finding c04-native-cast-of-string
  string_to_int of " 42", "+5", "12abc", "3.9", overflowing digits ...: strtoll-like or all-or-nothing is not said: UNDEF
  str_substring with a negative length: UNDEF;  char_at / at / array_get / array_set / array_remove_at out of range and
  array_pop of an empty array: must abort - another property (OMIT);  array_slice reaching outside the array: the
  clamping is not documented (OMIT);  is_whitespace 11 / 12 (VT, FF): C isspace says yes, the documented list no: UNDEF
  string_from_char outside 1..127 (and 13: a bare CR in captured text): "ASCII value" only
"""
import decimal
import math
import os
import re

from . import common

I64_MIN = -(1 << 63)
I64_MAX = (1 << 63) - 1

UNDEF = ("undef",)      # the documents do not define the result: engines are only compared with each other
OMIT = ("omit",)        # outside the domain altogether (must abort, or C undefined behaviour): not generated


# ------------------------------------------------------------------------------------------ the registry
def parse_registry(path=None):
    """-> [{"name", "c_name", "arity", "params": "IIUU"[:arity], "ret", "flags": set}] in table order"""
    path = path or os.path.join(common.REPO, "src", "builtins_registry.c")
    with open(path) as f:
        src = f.read()
    rows = []
    for m in re.finditer(r'^\s*\{"(\w+)",\s*"(\w+)",\s*(\d+),\s*\{([A-Z]),([A-Z]),([A-Z]),([A-Z])\},\s*([A-Z]),\s*(\w+),\s*([^}]*)\},', src, re.M):
        flags = set(x.strip() for x in m.group(10).split("|") if x.strip() not in ("", "0"))
        ar = int(m.group(3))
        rows.append({"name": m.group(1), "c_name": m.group(2), "arity": ar, "params": "".join(m.group(4, 5, 6, 7))[:min(ar, 4)],
                     "ret": m.group(8), "opcode": m.group(9), "flags": flags})
    if len(rows) < 40:
        raise common.HarnessError("builtins_registry.c: only %d rows parsed" % len(rows))
    return rows


EXCLUDED = {}


def _ex(names, why):
    for n in names.split():
        EXCLUDED[n] = why


_ex("print println", "the observation channel itself")
_ex("null_opaque", "returns an opaque handle")
_ex("hashmap_new hashmap_get hashmap_set hashmap_has hashmap_delete hashmap_keys hashmap_values hashmap_length "
    "map_new map_get map_set map_has map_delete map_keys map_values map_length", "HashMap handle parameter (documented as interpreter-only)")
_ex("filter map reduce", "function-valued parameter")
_ex("result_is_ok result_is_err result_unwrap result_unwrap_err result_unwrap_or result_map result_and_then", "Result<T,E> parameter")
_ex("array_concat float_to_string bool_to_string string_to_float is_space asin acos atan log log2 log10 exp fmod "
    "path_join path_basename path_dirname path_normalize",
    "registered but unknown to the front end: not callable in an accepted program without an extern declaration")
_ex("bstr_utf8_length bstr_utf8_char_at bstr_validate_utf8",
    "the parameter is a bstring (a handle made by bstr_new, which the registry does not list), not a string")
_ex("range", "not a function: only legal as the range of a for loop - enumerated by range_units() below")
_ex("array_push array_pop array_set array_remove_at", "statements with an effect on their array argument - enumerated by mutator_units() below")
_ex("string_from_bytes", "array<u8> parameter - enumerated by bytes_units() below")
# everything flagged BUILTIN_IO is excluded by its flag (files, directories, environment, processes, exit)


# ------------------------------------------------------------------------------------------ literals
def wrap(v):
    return ((v + (1 << 63)) & ((1 << 64) - 1)) - (1 << 63)


def slit(s):
    return '"' + s.replace("\\", "\\\\").replace('"', '\\"').replace("\n", "\\n").replace("\t", "\\t") + '"'


def flit(x):
    """decimal literal that reads back as exactly this double, never in exponent notation (the lexer has none)"""
    t = repr(float(x))
    if "e" not in t and "n" not in t:
        return t
    d = decimal.Decimal(x)
    t = format(d, "f")
    if "." not in t:
        t += ".0"
    return t


def lit(v):
    if isinstance(v, bool):
        return "true" if v else "false"
    if isinstance(v, int):
        return str(v)
    if isinstance(v, float):
        return flit(v)
    if isinstance(v, str):
        return slit(v)
    raise ValueError(v)


def show(v):
    """what println prints for a non-float value"""
    if isinstance(v, bool):
        return "true" if v else "false"
    if isinstance(v, int):
        return "%d" % v
    return v


class Arr(object):
    """an array argument: bound to a local by a let before the calls of the unit"""
    def __init__(self, elem, items):
        self.elem, self.items = elem, list(items)

    def __repr__(self):
        return "[" + ", ".join(lit(x) for x in self.items) + "]"


# ------------------------------------------------------------------------------------------ pools
def ints(tier):
    p = [0, 1, -1, 2, 7, 65, 97, 255, -128, 2147483648, I64_MAX, I64_MIN]
    if tier != "quick":
        p += [10, 48, 57, 127, 128, 256, -2147483649, 4294967296, 1000000007, I64_MAX - 1, I64_MIN + 1]
    return p


def floats(tier):
    p = [0.0, 1.5, -2.5, 100.0, 0.25, 2.0, -1.0, 3.7]
    if tier != "quick":
        p += [-0.25, 0.5, 16.0, 1000000.0, -100.0, 0.1, 2.5, 3.5]
    return p


def strs(tier):
    p = ["", "a", "Hello, World", "abc123", " pad ", "UPPER lower", "100%d %s%n"]
    if tier != "quick":
        p += ["0", "tab\there", 'say "hi"', "back\\slash", "line\nbreak", "x" * 300, "aaa", "World", "%", "y" * 5000]
    return p


def int_arrays(tier):
    p = [[], [5], [1, 2, 3], [10, -20, 30, -40, 50]]
    if tier != "quick":
        p += [[I64_MIN, 0, I64_MAX], list(range(40))]
    return [Arr("int", x) for x in p]


def str_arrays(tier):
    p = [[], ["a"], ["x", "", "Hello, World"]]
    if tier != "quick":
        p += [["p", "q", "r", "s", " pad "]]
    return [Arr("string", x) for x in p]


# ------------------------------------------------------------------------------------------ descriptions
SPECS = []      # one entry per (built-in, argument-type variant): see spec()


def spec(name, ret, gen, model, variant="", eps=None, engines=None, note=""):
    SPECS.append({"name": name, "variant": variant, "ret": ret, "gen": gen, "model": model, "eps": eps, "engines": engines, "note": note})


def prod(*pools):
    def g(tier):
        def rec(i, acc):
            if i == len(pools):
                yield tuple(acc)
                return
            for v in pools[i](tier):
                for t in rec(i + 1, acc + [v]):
                    yield t
        return rec(0, [])
    return g


# ---- math on ints
def m_abs(a):
    if a == I64_MIN:
        return OMIT          # -INT64_MIN overflows in C: undefined behaviour natively
    return abs(a)


spec("abs", "I", prod(ints), m_abs)
spec("min", "I", prod(ints, ints), lambda a, b: min(a, b))
spec("max", "I", prod(ints, ints), lambda a, b: max(a, b))
# documented polymorphism: abs / min / max keep the argument type
spec("abs", "F", prod(floats), lambda a: abs(a), variant="f")
spec("min", "F", prod(floats, floats), lambda a, b: min(a, b), variant="f")
spec("max", "F", prod(floats, floats), lambda a, b: max(a, b), variant="f")


# ---- math on floats.  exact: IEEE correctly rounded / exact operations; the others within eps
def _guard(fn):
    def g(*a):
        try:
            r = fn(*a)
        except (ValueError, ZeroDivisionError, OverflowError):
            return OMIT          # outside the mathematical domain: the documents say nothing
        if isinstance(r, float) and (math.isnan(r) or math.isinf(r)):
            return OMIT
        return r
    return g


def m_round(x):
    away = math.copysign(math.floor(abs(x) + 0.5), x)        # C round(): halves away from zero
    if abs(x - math.trunc(x)) == 0.5 and away != float(round(x)):
        return UNDEF         # STDLIB.md also says "rounds half to even": 2.5 and -2.5 are open, 3.5 and 1.5 are not
    return away


def small_ints_as_float_args(tier):
    return [0, 1, 2, 7, 16, 100, -1] if tier == "quick" else [0, 1, 2, 7, 9, 16, 100, -1, -8, 1000000]


spec("sqrt", "F", prod(floats), _guard(math.sqrt))
spec("floor", "F", prod(floats), lambda x: float(math.floor(x)))
spec("ceil", "F", prod(floats), lambda x: float(math.ceil(x)))
spec("round", "F", prod(floats), m_round)
spec("pow", "F", prod(floats, floats), _guard(math.pow), eps=True)
spec("sin", "F", prod(floats), _guard(math.sin), eps=True)
spec("cos", "F", prod(floats), _guard(math.cos), eps=True)
spec("tan", "F", prod(floats), _guard(math.tan), eps=True)
spec("atan2", "F", prod(floats, floats), _guard(math.atan2), eps=True)
# documented: these accept an int as well and always return a float
spec("sqrt", "F", prod(small_ints_as_float_args), _guard(lambda a: math.sqrt(a)), variant="i")
spec("floor", "F", prod(small_ints_as_float_args), lambda a: float(a), variant="i")
spec("ceil", "F", prod(small_ints_as_float_args), lambda a: float(a), variant="i")
spec("round", "F", prod(small_ints_as_float_args), lambda a: float(a), variant="i")
spec("pow", "F", prod(small_ints_as_float_args, lambda t: [0, 1, 2, 3, -1]), _guard(lambda a, b: math.pow(a, b)), variant="i", eps=True)
spec("sin", "F", prod(small_ints_as_float_args), _guard(lambda a: math.sin(a)), variant="i", eps=True)
spec("cos", "F", prod(small_ints_as_float_args), _guard(lambda a: math.cos(a)), variant="i", eps=True)
spec("tan", "F", prod(small_ints_as_float_args), _guard(lambda a: math.tan(a)), variant="i", eps=True)


# ---- casts
def m_cast_int_f(x):
    if not (-9.2e18 < x < 9.2e18):
        return OMIT
    return int(x)            # truncation toward zero


def big_floats(tier):
    return floats(tier) + [-3.7, 2147483648.5, -2147483649.5, 9007199254740993.0, 4611686018427387904.0] + ([0.999999, -0.999999, 1e15] if tier != "quick" else [])


def bools(tier):
    return [False, True]


spec("cast_int", "I", prod(ints), lambda a: a, variant="i")
spec("cast_int", "I", prod(big_floats), m_cast_int_f, variant="f")
spec("cast_int", "I", prod(bools), lambda b: 1 if b else 0, variant="b")
spec("cast_float", "F", prod(ints), lambda a: float(a), variant="i")
spec("cast_float", "F", prod(floats), lambda a: a, variant="f")
spec("cast_float", "F", prod(bools), lambda b: 1.0 if b else 0.0, variant="b")
spec("cast_bool", "B", prod(ints), lambda a: a != 0, variant="i")
spec("cast_bool", "B", prod(floats), lambda a: a != 0.0, variant="f")
spec("cast_bool", "B", prod(bools), lambda b: b, variant="b")


def m_str_of_float(x):
    # only values whose %g form, shortest round-trip form and the documents' examples coincide: non-integral, few digits
    if x == math.floor(x) or len(repr(x)) > 7:
        return OMIT
    return repr(x)


for _n in ("cast_string", "to_string"):
    spec(_n, "S", prod(ints), lambda a: "%d" % a, variant="i")
    spec(_n, "S", prod(bools), lambda b: "true" if b else "false", variant="b")
    spec(_n, "S", prod(strs), lambda s: s, variant="s")
    spec(_n, "S", prod(floats), m_str_of_float, variant="f")


def conv_ints(tier):
    p = ints(tier) + [s * (10 ** k) + d for k in ((1, 2, 9, 18) if tier == "quick" else (1, 2, 3, 9, 10, 17, 18)) for s in (1, -1) for d in (-1, 0, 1)]
    out = []
    for v in p:
        if I64_MIN <= v <= I64_MAX and v not in out:
            out.append(v)
    return out


spec("int_to_string", "S", prod(conv_ints), lambda a: "%d" % a)


def m_string_to_int(s):
    if re.match(r"^-?[0-9]+$", s):
        v = int(s)
        return v if I64_MIN <= v <= I64_MAX else UNDEF
    if re.match(r"^[^0-9+\-\s]", s) or s == "":
        return 0             # cannot be parsed, under every reading of the documents
    return UNDEF             # leading blanks / sign / trailing garbage: strtoll-like or all-or-nothing, the documents do not say


def num_strs(tier):
    p = strs(tier) + ["0", "42", "-100", "12345", "007", "9223372036854775807", "-9223372036854775808", "-0",
                      "12abc", " 42", "+5", "99999999999999999999", "4 2", "-", "--5", "3.9"]
    if tier != "quick":
        p += ["2147483648", "-2147483649", "1000000000000", "0x10", "1e3", "42 ", "\t7", "-9223372036854775809"]
    out = []
    for v in p:
        if v not in out:
            out.append(v)
    return out


spec("string_to_int", "I", prod(num_strs), m_string_to_int)


# ---- strings
spec("str_length", "I", prod(strs), lambda s: len(s))
spec("str_concat", "S", prod(strs, strs), lambda a, b: a + b)
spec("str_contains", "B", prod(strs, strs), lambda a, b: b in a)
spec("str_equals", "B", prod(strs, strs), lambda a, b: a == b)


def sub_args(tier):
    """start and length around the ends of the string (and -1)"""
    for s in (strs(tier) if tier != "quick" else ["", "a", "Hello, World", " pad "]):
        n = len(s)
        if n > 20:
            continue
        starts, lens = [], []
        for v in (0, 1, n - 1, n, n + 1, -1):
            if v not in starts:
                starts.append(v)
        for v in (0, 1, n, n + 1, -1):
            if v not in lens:
                lens.append(v)
        for a in starts:
            for b in lens:
                yield (s, a, b)


def sub_args_big(tier):
    """start / length beyond 32 bits: 'start out of bounds -> empty', 'start + length exceeds the length -> until the end'"""
    big = [2147483648, 4294967297, I64_MAX, I64_MIN]
    for s in ["a", "Hello, World"] + (["", " pad "] if tier != "quick" else []):
        for a in [0, 1] + big:
            for b in [1, -1] + big:
                if a in big or b in big:
                    yield (s, a, b)


def m_substring(s, start, length):
    if length < 0:
        return UNDEF         # a negative length is not described
    if start < 0 or start >= len(s):
        return ""            # "an empty string if start is out of bounds"
    return s[start:start + length]     # "if start + length exceeds the string length, until the end of the string"


spec("str_substring", "S", sub_args, m_substring)
spec("str_substring", "S", sub_args_big, m_substring, variant="big")


def charat_args(tier):
    for s in strs(tier):
        n = len(s)
        for i in sorted(set([0, 1, n // 2, n - 2, n - 1])):
            if 0 <= i < n:
                yield (s, i)         # an out-of-range index must abort: another property


spec("char_at", "I", charat_args, lambda s, i: ord(s[i]))


def m_string_from_char(c):
    return chr(c)


spec("string_from_char", "S", prod(lambda t: [c for c in range(1, 128) if c != 13]), m_string_from_char, note="ASCII 1..127 (13 left out: a bare CR in the captured text)")


def char_codes(tier):
    return list(range(0, 128))


def wide_codes(tier):
    """integers that are no ASCII character at all; the documents define the answer for them too: 'true if the character
    is a digit' is false, 'leaves non-letters unchanged', '-1 if it is not a digit'"""
    return [-1, 128, 255, 256, 48 + 256, 65 + 256, 97 + 256, 32 + 256, -128, -208, 65536 + 65, 2147483648, 2147483648 + 48, 4294967296 + 97,
            4294967296 + 48, 4294967296 + 32, I64_MAX, I64_MIN]


def _is(pred):
    return lambda c: bool(0 <= c < 128 and pred(chr(c)))


spec("is_digit", "B", prod(char_codes), _is(lambda ch: ch in "0123456789"))
spec("is_digit", "B", prod(wide_codes), _is(lambda ch: ch in "0123456789"), variant="wide")
spec("is_alpha", "B", prod(char_codes), _is(lambda ch: ch.isalpha()))
spec("is_alpha", "B", prod(wide_codes), _is(lambda ch: ch.isalpha()), variant="wide")
spec("is_alnum", "B", prod(char_codes), _is(lambda ch: ch.isalnum()))
spec("is_alnum", "B", prod(wide_codes), _is(lambda ch: ch.isalnum()), variant="wide")
spec("is_upper", "B", prod(char_codes), _is(lambda ch: ch.isupper()))
spec("is_upper", "B", prod(wide_codes), _is(lambda ch: ch.isupper()), variant="wide")
spec("is_lower", "B", prod(char_codes), _is(lambda ch: ch.islower()))
spec("is_lower", "B", prod(wide_codes), _is(lambda ch: ch.islower()), variant="wide")


def m_is_whitespace(c):
    if c in (11, 12):
        return UNDEF         # VT / FF: C isspace says yes, the documented list (space, tab, newline, CR) says no
    return c in (32, 9, 10, 13)


spec("is_whitespace", "B", prod(char_codes), m_is_whitespace)
spec("is_whitespace", "B", prod(wide_codes), m_is_whitespace, variant="wide")
spec("digit_value", "I", prod(char_codes), lambda c: c - 48 if 48 <= c <= 57 else -1)
spec("digit_value", "I", prod(wide_codes), lambda c: c - 48 if 48 <= c <= 57 else -1, variant="wide")
spec("char_to_lower", "I", prod(char_codes), lambda c: c + 32 if 65 <= c <= 90 else c)
spec("char_to_lower", "I", prod(wide_codes), lambda c: c + 32 if 65 <= c <= 90 else c, variant="wide")
spec("char_to_upper", "I", prod(char_codes), lambda c: c - 32 if 97 <= c <= 122 else c)
spec("char_to_upper", "I", prod(wide_codes), lambda c: c - 32 if 97 <= c <= 122 else c, variant="wide")


# ---- arrays
def arr_len_args(tier):
    for a in int_arrays(tier) + str_arrays(tier):
        yield (a,)


spec("array_length", "I", arr_len_args, lambda a: len(a.items))


def at_args(tier):
    for a in int_arrays(tier) + str_arrays(tier):
        n = len(a.items)
        for i in sorted(set([0, 1, n // 2, n - 1])):
            if 0 <= i < n:
                yield (a, i)


spec("at", "E", at_args, lambda a, i: a.items[i])
spec("array_get", "E", at_args, lambda a, i: a.items[i], note="registered synonym of at")


def slice_args(tier):
    for a in int_arrays(tier) + str_arrays(tier):
        n = len(a.items)
        for s in sorted(set([0, 1, n // 2, n - 1, n])):
            for l in sorted(set([0, 1, 2, n - s, n])):
                if 0 <= s <= n and 0 <= l and s + l <= n:
                    yield (a, s, l)          # only slices inside the array: clamping is not documented


spec("array_slice", "A", slice_args, lambda a, s, l: Arr(a.elem, a.items[s:s + l]))


def new_args(tier):
    for n in (0, 1, 3) + ((17,) if tier != "quick" else ()):
        for v in (0, -7, I64_MAX, "", "q", "Hello, World", True, False):
            yield (n, v)


def m_array_new(n, v):
    return Arr("string" if isinstance(v, str) else "bool" if isinstance(v, bool) else "int", [v] * n)


spec("array_new", "A", new_args, m_array_new)


def bytes_args(tier):
    for s in strs(tier):
        if len(s) <= 20:
            yield (s,)


spec("bytes_from_string", "A", bytes_args, lambda s: Arr("u8", [ord(c) for c in s]))


# ------------------------------------------------------------------------------------------ units
CHUNK = {"quick": 24, "thorough": 16}


def _call_text(name, args, binds):
    parts = []
    for a in args:
        if isinstance(a, Arr):
            key = repr(a) + a.elem
            if key not in binds:
                binds[key] = ("a%d" % len(binds), a)
            parts.append(binds[key][0])
        else:
            parts.append(lit(a))
    return "(%s%s)" % (name, "".join(" " + p for p in parts))


def _elem_type(a):
    return {"int": "int", "string": "string", "bool": "bool", "u8": "u8"}[a.elem]


def _observe_lines(k, call, ret, val, eps):
    """-> (statements, expected text or None) observing one call whose modelled value is `val` (UNDEF: not modelled)"""
    modelled = val is not UNDEF
    if ret == "E":
        ret = "S" if (modelled and isinstance(val, str)) else "I"
    if ret in ("I", "B"):
        return "    (println %s)\n" % call, (show(val) + "\n") if modelled else None
    if ret == "S":
        return '    (println (+ "[" (+ %s "]")))\n' % call, ("[" + val + "]\n") if modelled else None
    if ret == "F":
        st = "    let r%d: float = %s\n" % (k, call)
        if not modelled:
            # no value to compare with: the engines are compared on three decimals of r
            st += "    (println (cast_int (* r%d 1000.0)))\n    (println (== r%d r%d))\n" % (k, k, k)
            return st, None
        exp = ""
        m = val * 1000.0
        if abs(m) < 9e15 and (not eps or abs(m - round(m)) > 1e-6):
            # three decimals of the value as an int: says what the engine computed when the comparison below fails,
            # and does not depend on a long float literal
            st += "    (println (cast_int (* r%d 1000.0)))\n" % k
            exp += "%d\n" % int(m)
        if eps:
            e = max(1e-9, abs(val) * 1e-12)
            st += "    (println (and (< (- r%d %s) %s) (> (- r%d %s) %s)))\n" % (k, flit(val), flit(e), k, flit(val), flit(-e))
        else:
            st += "    (println (== r%d %s))\n" % (k, flit(val))
        return st, exp + "true\n"
    if ret == "A":
        if not modelled:
            return "    let r%d: array<int> = %s\n    (println (array_length r%d))\n" % (k, call, k), None
        st = "    let r%d: array<%s> = %s\n    (println (array_length r%d))\n" % (k, _elem_type(val), call, k)
        exp = "%d\n" % len(val.items)
        n = len(val.items)
        for i in sorted(set([0, 1, n // 2, n - 1])):
            if 0 <= i < n:
                if val.elem == "string":
                    st += '    (println (+ "[" (+ (at r%d %d) "]")))\n' % (k, i)
                    exp += "[" + val.items[i] + "]\n"
                else:
                    st += "    (println (at r%d %d))\n" % (k, i)
                    exp += show(val.items[i]) + "\n"
        return st, exp
    raise ValueError(ret)


FORMS = {"quick": ("lit", "fn"), "thorough": ("lit", "let", "mut", "fn")}
# how the arguments reach the built-in:
#   lit  literals in the call                      (constant folding, literal emission)
#   let  immutable locals                          (the C back end inlines immutable constants)
#   mut  mutable locals
#   fn   parameters of a wrapper function          (values only known at run time; the call is the wrapper's return value)
NANO_TYPE = {"I": "int", "B": "bool", "S": "string", "F": "float"}


def _ptype(v):
    return "bool" if isinstance(v, bool) else "int" if isinstance(v, int) else "float" if isinstance(v, float) else "string"


def _units_of(sp, tier, counter):
    name = sp["name"]
    modelled, open_ = [], []
    for args in sp["gen"](tier):
        v = sp["model"](*args)
        if v is OMIT:
            continue
        (open_ if v is UNDEF else modelled).append((args, v))
    scalar = sp["ret"] in NANO_TYPE and all(not isinstance(x, Arr) for c in (modelled + open_)[:1] for x in c[0])
    forms = FORMS[tier] if scalar else ("lit",)
    if tier == "quick" and scalar and any(isinstance(x, float) for c in (modelled + open_)[:1] for x in c[0]):
        forms = forms + ("let",)         # float constants have a code path of their own in the C back end
    for form in forms:
        tag = name + ("_" + sp["variant"] if sp["variant"] else "") + ("" if form == "lit" else "_" + form)
        for kind, calls in (("", modelled), ("u", open_)):
            ch = CHUNK[tier]
            for c0 in range(0, len(calls), ch):
                part = calls[c0:c0 + ch]
                uname = "bi_%s_%s%d" % (tag, kind, c0 // ch)
                binds = {}
                stmts, exp, detail = [], [], []
                decls = ""
                callee = name
                if form == "fn":
                    callee = uname + "_w"
                    ptypes = [_ptype(x) for x in part[0][0]]
                    decls = "fn %s(%s) -> %s {\n    return (%s%s)\n}\nshadow %s { assert true }\n" % (
                        callee, ", ".join("p%d: %s" % (i, t) for i, t in enumerate(ptypes)), NANO_TYPE[sp["ret"]],
                        name, "".join(" p%d" % i for i in range(len(ptypes))), callee)
                for k, (args, v) in enumerate(part):
                    pre = ""
                    if form in ("let", "mut"):
                        pre = "".join("    let %sv%d_%d: %s = %s\n" % ("mut " if form == "mut" else "", k, i, _ptype(x), lit(x)) for i, x in enumerate(args))
                        call = "(%s%s)" % (name, "".join(" v%d_%d" % (k, i) for i in range(len(args))))
                    else:
                        call = _call_text(callee, args, binds)
                    st, ex = _observe_lines(k, call, sp["ret"], v, sp["eps"])
                    stmts.append(pre + st)
                    exp.append(ex)
                    detail.append((_call_text(name, args, {}), st.count("(println"), ex))
                lets = "".join("    let %s: array<%s> = %s\n" % (nm, _elem_type(a), repr(a)) for nm, a in binds.values())
                body = lets + "".join(stmts) + "    return %d\n" % len(part)
                texts = [d[0] for d in detail]
                u = {"name": uname, "decls": decls, "body": body,
                     "expected": None if kind == "u" else "".join(exp), "ret": len(part),
                     "what": "%s%s, arguments as %s: %d calls %s .. %s%s" % (
                         name, "" if kind == "" else " (result not documented, engines compared)",
                         {"lit": "literals", "let": "immutable locals", "mut": "mutable locals", "fn": "parameters of a wrapper function"}[form], len(part),
                         texts[0][:60].replace("\n", " "), texts[-1][:60].replace("\n", " "), (" [" + sp["note"] + "]") if sp["note"] else "")}
                if sp["engines"]:
                    u["engines"] = sp["engines"]
                u["calls"] = detail      # (call text, number of lines it prints, expected lines or None): for diagnosis tools
                counter[0] += 1
                yield u


# ------------------------------------------------------------------------------------------ range / mutators / bytes
def _pack(tag, items, tier, what, engines=None, chunk=None):
    """items: [(statements, expected text, description)] -> units of CHUNK items"""
    ch = chunk or CHUNK[tier]
    for c0 in range(0, len(items), ch):
        part = items[c0:c0 + ch]
        body = "".join(x[0].replace("@K", str(k)) for k, x in enumerate(part)) + "    return %d\n" % len(part)
        exp = None if any(x[1] is None for x in part) else "".join(x[1] for x in part)
        u = {"name": "bi_%s_%d" % (tag, c0 // ch), "body": body, "expected": exp, "ret": len(part),
             "what": "%s: %d cases %s .. %s" % (what, len(part), part[0][2], part[-1][2]),
             "calls": [(x[2], x[0].count("(println"), x[1]) for x in part]}
        if engines:
            u["engines"] = engines
        yield u


def range_units(tier):
    """for i in (range a b): number of iterations and wrapped sum of i (specification 5.4: i from a while (< i b))"""
    small = [-1, 0, 1, 2, 7]
    pairs = [(a, b) for a in small for b in small]
    pairs += [(I64_MAX - 2, I64_MAX), (I64_MAX, I64_MAX), (I64_MAX, I64_MIN), (I64_MIN, I64_MIN + 3), (2147483646, 2147483650),
              (-2147483650, -2147483646), (4294967295, 4294967298), (-3, 3), (0, 100)]
    if tier != "quick":
        pairs += [(I64_MAX - 1, I64_MAX), (I64_MIN, I64_MIN), (I64_MIN + 1, I64_MIN), (0, 1000), (-128, 128), (65, 97), (255, 256), (9223372036854775000, 9223372036854775007)]
    items = []
    for a, b in pairs:
        st = ("    let mut c@K: int = 0\n    let mut s@K: int = 0\n    for i@K in (range %d %d) {\n        set c@K (+ c@K 1)\n        set s@K (+ s@K i@K)\n    }\n"
              "    (println c@K)\n    (println s@K)\n" % (a, b))
        n = max(0, b - a)
        items.append((st, "%d\n%d\n" % (n, wrap(sum(range(a, b)))), "(range %d %d)" % (a, b)))
    return _pack("range", items, tier, "for loop over range: iterations and sum", chunk=12)


def _dyn(name, a):
    """an array built from [] by array_push (the representation every engine's mutators accept)"""
    st = "    let mut %s: array<%s> = []\n" % (name, _elem_type(a))
    for x in a.items:
        st += "    set %s (array_push %s %s)\n" % (name, name, lit(x))
    return st


def _dump(name, items):
    """statements printing the length and every element; expected text"""
    st = "    (println (array_length %s))\n" % name
    exp = "%d\n" % len(items)
    for i, x in enumerate(items):
        if isinstance(x, str):
            st += '    (println (+ "[" (+ (at %s %d) "]")))\n' % (name, i)
            exp += "[" + x + "]\n"
        else:
            st += "    (println (at %s %d))\n" % (name, i)
            exp += show(x) + "\n"
    return st, exp


def mutator_units(tier):
    arrays = [a for a in int_arrays(tier) + str_arrays(tier) if len(a.items) <= 6]
    # array_push onto an array built by pushes, in both documented forms: 'set m (array_push m v)' (DYNAMIC_ARRAYS.md)
    # and the statement '(array_push m v)' (STDLIB.md); the contents afterwards are dumped
    for form in ("set", "stmt"):
        items = []
        for a in arrays:
            vals = [0, -1, I64_MAX] if a.elem == "int" else ["", "z", "Hello, World"]
            for v in vals:
                op = "    set m@K (array_push m@K %s)\n" if form == "set" else "    (array_push m@K %s)\n"
                st = _dyn("m@K", a) + op % lit(v)
                d, e = _dump("m@K", a.items + [v])
                items.append((st + d, e, "(array_push %r %s)" % (a, lit(v))))
        # a fresh [] as the target gets units of its own (a different representation in the evaluator)
        for sub, sel in (("", [x for x in items if not x[2].startswith("(array_push []")]), ("_empty", [x for x in items if x[2].startswith("(array_push []")])):
            for u in _pack("array_push_" + form + sub, sel, tier, "array_push (%s form) onto %s, then length and every element" % (form, "a fresh []" if sub else "an array built by pushes"), chunk=8):
                yield u
    # array_pop: the value returned and what is left
    items = []
    for a in arrays:
        if not a.items:
            continue         # pop of an empty array: STDLIB says 0, the engines abort or not - an undefined partial operation for C01
        st = _dyn("m@K", a)
        if a.elem == "string":
            st += '    (println (+ "[" (+ (array_pop m@K) "]")))\n'
            e0 = "[" + a.items[-1] + "]\n"
        else:
            st += "    (println (array_pop m@K))\n"
            e0 = show(a.items[-1]) + "\n"
        d, e = _dump("m@K", a.items[:-1])
        items.append((st + d, e0 + e, "(array_pop %r)" % a))
    for u in _pack("array_pop", items, tier, "array_pop: value returned, then length and every element left", chunk=8):
        yield u
    # array_remove_at at every index in range, both documented forms
    for form in ("set", "stmt"):
        items = []
        for a in arrays:
            for i in range(len(a.items)):
                op = "    set m@K (array_remove_at m@K %d)\n" if form == "set" else "    (array_remove_at m@K %d)\n"
                st = _dyn("m@K", a) + op % i
                d, e = _dump("m@K", a.items[:i] + a.items[i + 1:])
                items.append((st + d, e, "(array_remove_at %r %d)" % (a, i)))
        for u in _pack("array_remove_at_" + form, items, tier, "array_remove_at (%s form) every valid index, then length and every element" % form, chunk=8):
            yield u
    # array_set at every index in range, on a literal array and on an array made by array_new
    items = []
    for a in arrays:
        for i in range(len(a.items)):
            v = -99 if a.elem == "int" else "set"
            st = "    let mut m@K: array<%s> = %r\n    (array_set m@K %d %s)\n" % (_elem_type(a), a, i, lit(v))
            d, e = _dump("m@K", a.items[:i] + [v] + a.items[i + 1:])
            items.append((st + d, e, "(array_set %r %d %s)" % (a, i, lit(v))))
    for n in (1, 3):
        for i in range(n):
            st = "    let mut m@K: array<int> = (array_new %d 7)\n    (array_set m@K %d -99)\n" % (n, i)
            d, e = _dump("m@K", [7] * i + [-99] + [7] * (n - i - 1))
            items.append((st + d, e, "(array_set (array_new %d 7) %d -99)" % (n, i)))
    for u in _pack("array_set", items, tier, "array_set every valid index (literal array / array_new), then length and every element", chunk=8):
        yield u


def bytes_units(tier):
    items = []
    for s in strs(tier):
        if len(s) > 20:
            continue
        st = "    let b@K: array<u8> = (bytes_from_string %s)\n" % slit(s)
        st += '    (println (array_length b@K))\n    (println (+ "[" (+ (string_from_bytes b@K) "]")))\n'
        items.append((st, "%d\n[%s]\n" % (len(s), s), "(string_from_bytes (bytes_from_string %s))" % slit(s)))
    for codes in ([72, 105], [65], [97, 32, 98, 126]):
        st = "    let b@K: array<u8> = [%s]\n" % ", ".join(str(c) for c in codes)
        st += '    (println (+ "[" (+ (string_from_bytes b@K) "]")))\n'
        items.append((st, "[%s]\n" % "".join(chr(c) for c in codes), "(string_from_bytes [%s])" % ", ".join(str(c) for c in codes)))
    return _pack("string_from_bytes", items, tier, "string_from_bytes of bytes_from_string / of an array<u8> literal", chunk=12)


CUSTOM = {"range": range_units, "array_push": mutator_units, "string_from_bytes": bytes_units}      # keyed by a built-in that must be registered

# ------------------------------------------------------------------------------------------ compositions, loops, churn
def _py(name):
    """the plain Python meaning of a built-in, chosen by the types of the arguments (the models of SPECS)"""
    def f(*a):
        for sp in SPECS:
            if sp["name"] != name:
                continue
            try:
                first = next(iter(sp["gen"]("quick")))
            except StopIteration:
                continue
            if len(first) == len(a) and all(_ptype(x) == _ptype(y) for x, y in zip(first, a) if not isinstance(x, Arr)) and \
                    all(isinstance(x, Arr) == isinstance(y, Arr) for x, y in zip(first, a)):
                return sp["model"](*a)
        raise KeyError((name, a))
    return f


def _ev(e):
    """e: a Python value, or (name, e1, ..) a call, or ("+", a, b) string concatenation / int addition"""
    if not isinstance(e, tuple):
        return e
    args = [_ev(x) for x in e[1:]]
    if any(x is UNDEF or x is OMIT for x in args):
        return OMIT
    if e[0] == "+":
        return args[0] + args[1] if isinstance(args[0], str) else wrap(args[0] + args[1])
    if e[0] == "-":
        return wrap(args[0] - args[1])
    if e[0] == "/":          # truncating division, divisor never 0 here
        q = abs(args[0]) // abs(args[1])
        return wrap(q if (args[0] < 0) == (args[1] < 0) else -q)
    if e[0] == "<":
        return args[0] < args[1]
    return _py(e[0])(*args)


def _tx(e):
    if isinstance(e, Arr):
        return repr(e)
    if not isinstance(e, tuple):
        return lit(e)
    return "(%s%s)" % (e[0], "".join(" " + _tx(x) for x in e[1:]))


def law_units(tier):
    """built-ins fed with the results of built-ins: the value printed is the composition of the Python models"""
    groups = []
    S, N = strs(tier), conv_ints(tier)
    short = [x for x in S if len(x) <= 20]
    groups.append(("roundtrip_int", [("string_to_int", ("int_to_string", n)) for n in N]))
    groups.append(("len_of_int", [("str_length", ("int_to_string", n)) for n in N]))
    groups.append(("roundtrip_char", [("char_at", ("string_from_char", c), 0) for c in range(1, 128) if c != 13]))
    groups.append(("len_of_char", [("str_length", ("string_from_char", c)) for c in (1, 9, 10, 32, 48, 65, 97, 126, 127)]))
    groups.append(("split_join", [("str_concat", ("str_substring", x, 0, k), ("str_substring", x, k, len(x) - k)) for x in short for k in range(len(x) + 1)]))
    groups.append(("len_of_concat", [("str_length", ("str_concat", a, b)) for a in short for b in short]))
    groups.append(("concat_contains", [("str_contains", ("str_concat", a, b), b) for a in short for b in short]))
    groups.append(("concat_equals_plus", [("str_equals", ("str_concat", a, b), ("+", a, b)) for a in short for b in short]))
    groups.append(("case_roundtrip", [("char_to_upper", ("char_to_lower", c)) for c in range(32, 128)]))
    groups.append(("upper_of_upper", [("is_upper", ("char_to_upper", c)) for c in range(32, 128)]))
    groups.append(("digit_of_decimal", [("digit_value", ("char_at", ("int_to_string", d), 0)) for d in range(10)]))
    groups.append(("alnum_of_char_at", [("is_alnum", ("char_at", x, i)) for x in short for i in range(len(x))]))
    groups.append(("int_float_int", [("cast_int", ("cast_float", n)) for n in ints(tier) if abs(n) < (1 << 53)]))
    groups.append(("abs_of_min_max", [(o, ("abs", (i, a, b)), 7) for o in ("min", "max") for i in ("min", "max") for a in ints(tier)[:9] for b in ints(tier)[:9]]))
    groups.append(("string_of_length", [("int_to_string", ("str_length", x)) for x in S]))
    groups.append(("substring_of_substring", [("str_substring", ("str_substring", x, 1, len(x)), 1, 3) for x in S]))
    groups.append(("concat3", [("str_concat", ("str_concat", a, b), a) for a in short[:5] for b in short[:5]]))
    groups.append(("length_of_slice", [("array_length", ("array_slice", a, s0, l0)) for a, s0, l0 in slice_args(tier)]))
    groups.append(("at_of_slice", [("at", ("array_slice", a, s0, l0), l0 - 1) for a, s0, l0 in slice_args(tier) if l0 >= 1 and a.elem == "int"]))
    groups.append(("bool_of_cast", [("cast_bool", ("cast_int", b)) for b in (False, True)] + [("cast_int", ("cast_bool", n)) for n in ints(tier)]))
    # an int result is a signed 64-bit int in arithmetic and comparisons (C's strlen / size_t results are not)
    int_results = [("str_length", x) for x in short[:4]] + [("array_length", a) for a in int_arrays(tier)[:3]] + \
        [("char_at", "Hello", 1), ("digit_value", 55), ("digit_value", 65), ("string_to_int", "42"), ("abs", -5), ("min", 3, 4), ("max", 3, 4),
         ("cast_int", 2.5), ("cast_int", True), ("char_to_lower", 65), ("char_to_upper", 97), ("at", Arr("int", [4, 5, 6]), 1)]
    groups.append(("signed_arith", [("/", ("-", r, 1000), 2) for r in int_results]))
    groups.append(("signed_compare", [x for r in int_results for x in (("<", -1, r), ("<", ("-", r, 1000), 0))]))
    for gname, exprs in groups:
        items = []
        for e in exprs:
            v = _ev(e)
            if v is OMIT or v is UNDEF:
                continue
            binds = {}

            def tx(x):
                if isinstance(x, Arr):
                    key = repr(x) + x.elem
                    if key not in binds:
                        binds[key] = "w@K_%d" % len(binds)
                    return binds[key]
                if not isinstance(x, tuple):
                    return lit(x)
                return "(%s%s)" % (x[0], "".join(" " + tx(y) for y in x[1:]))
            t = tx(e)
            pre = "".join("    let %s: array<%s> = %s\n" % (nm, "int" if key.endswith("int") else "string", key[:-3] if key.endswith("int") else key[:-6]) for key, nm in binds.items())
            if isinstance(v, str):
                items.append((pre + '    (println (+ "[" (+ %s "]")))\n' % t, "[" + v + "]\n", _tx(e)[:80].replace("\n", " ")))
            else:
                items.append((pre + "    (println %s)\n" % t, show(v) + "\n", _tx(e)[:80].replace("\n", " ")))
        for u in _pack("law_" + gname, items, tier, "composition " + gname, chunk=32):
            yield u


def loop_units(tier):
    """the loop variable of a for / while loop as the argument; results accumulated over the whole loop"""
    items = []
    hi = 256 if tier == "quick" else 1024
    for name in ("is_digit", "is_alpha", "is_alnum", "is_whitespace", "is_upper", "is_lower"):
        f = _py(name)
        for lo in (0, -64):
            n = sum(1 for i in range(lo, hi) if f(i) is True)
            st = "    let mut n@K: int = 0\n    for i@K in (range %d %d) {\n        if (%s i@K) { set n@K (+ n@K 1) } else {}\n    }\n    (println n@K)\n" % (lo, hi, name)
            items.append((st, "%d\n" % n, "count of (%s i) for i in %d..%d" % (name, lo, hi)))
    for name in ("digit_value", "char_to_lower", "char_to_upper", "abs"):
        f = _py(name)
        tot = wrap(sum(f(i) for i in range(-64, hi)))
        st = "    let mut n@K: int = 0\n    let mut j@K: int = -64\n    while (< j@K %d) {\n        set n@K (+ n@K (%s j@K))\n        set j@K (+ j@K 1)\n    }\n    (println n@K)\n" % (hi, name)
        items.append((st, "%d\n" % tot, "sum of (%s j) for j in -64..%d (while loop)" % (name, hi)))
    # alphabet built from character codes; its characters read back
    st = '    let mut s@K: string = ""\n    for i@K in (range 65 91) {\n        set s@K (str_concat s@K (string_from_char i@K))\n    }\n    (println s@K)\n    (println (str_length s@K))\n'
    items.append((st, "ABCDEFGHIJKLMNOPQRSTUVWXYZ\n26\n", "str_concat of (string_from_char i) for i in 65..91"))
    text = "Hello, World"
    st = "    let t@K: string = %s\n    let mut n@K: int = 0\n    for i@K in (range 0 (str_length t@K)) {\n        set n@K (+ (* n@K 31) (char_at t@K i@K))\n    }\n    (println n@K)\n" % slit(text)
    h = 0
    for ch in text:
        h = wrap(h * 31 + ord(ch))
    items.append((st, "%d\n" % h, "polynomial hash over (char_at t i)"))
    st = "    let mut n@K: int = 0\n    for i@K in (range -1000 1000) {\n        set n@K (+ n@K (str_length (int_to_string i@K)))\n    }\n    (println n@K)\n"
    items.append((st, "%d\n" % sum(len(str(i)) for i in range(-1000, 1000)), "sum of (str_length (int_to_string i)) for i in -1000..1000"))
    st = "    let mut n@K: int = 0\n    for i@K in (range -50 50) {\n        set n@K (+ n@K (+ (min i@K 7) (max i@K -7)))\n    }\n    (println n@K)\n"
    items.append((st, "%d\n" % sum(min(i, 7) + max(i, -7) for i in range(-50, 50)), "sum of (min i 7) + (max i -7) for i in -50..50"))
    st = "    let mut n@K: int = 0\n    for i@K in (range 0 200) {\n        set n@K (+ n@K (string_to_int (int_to_string (* i@K i@K))))\n    }\n    (println n@K)\n"
    items.append((st, "%d\n" % sum(i * i for i in range(200)), "sum of (string_to_int (int_to_string (* i i)))"))
    st = "    let mut n@K: int = 0\n    for i@K in (range 0 100) {\n        set n@K (+ n@K (cast_int (sqrt (cast_float (* i@K i@K)))))\n    }\n    (println n@K)\n"
    items.append((st, "%d\n" % sum(range(100)), "sum of (cast_int (sqrt (cast_float (* i i))))"))
    st = "    let mut n@K: int = 0\n    for i@K in (range 0 64) {\n        set n@K (+ n@K (cast_int (floor (/ (cast_float i@K) 4.0))))\n        set n@K (+ n@K (cast_int (ceil (/ (cast_float i@K) 4.0))))\n    }\n    (println n@K)\n"
    items.append((st, "%d\n" % sum(i // 4 + -(-i // 4) for i in range(64)), "sum of floor(i/4) + ceil(i/4)"))
    return _pack("loop", items, tier, "built-in applied to a loop variable", chunk=6)


def churn_units(tier):
    """many results alive or dropped: strings and arrays made by built-ins inside loops (heap growth, release)"""
    items = []
    for n in ((2000,) if tier == "quick" else (2000, 20000)):
        st = ('    let mut s@K: string = ""\n    for i@K in (range 0 %d) {\n        set s@K (str_concat s@K "ab")\n    }\n    (println (str_length s@K))\n'
              '    (println (str_substring s@K %d 5))\n    (println (char_at s@K %d))\n    (println (str_contains s@K "ba"))\n    (println (str_contains s@K "aa"))\n' % (n, n - 1, 2 * n - 1))
        items.append((st, "%d\n%s\n98\ntrue\nfalse\n" % (2 * n, ("ab" * n)[n - 1:n + 4]), "str_concat %d times, then substring / char_at / contains" % n))
    n = 3000 if tier == "quick" else 30000
    st = ('    let t@K: string = "Hello, World"\n    let mut c@K: int = 0\n    for i@K in (range 0 %d) {\n        let p@K: string = (str_substring t@K (%% i@K 12) 3)\n'
          '        set c@K (+ c@K (str_length p@K))\n    }\n    (println c@K)\n' % n)
    items.append((st, "%d\n" % sum(len("Hello, World"[i % 12:i % 12 + 3]) for i in range(n)), "%d short-lived substrings" % n))
    st = ('    let mut a@K: array<int> = []\n    for i@K in (range 0 %d) {\n        set a@K (array_push a@K (* i@K 3))\n    }\n    (println (array_length a@K))\n    (println (at a@K %d))\n'
          '    let b@K: array<int> = (array_slice a@K 10 %d)\n    (println (array_length b@K))\n    (println (at b@K 0))\n    (println (at b@K %d))\n' % (n, n - 1, n - 20, n - 21))
    items.append((st, "%d\n%d\n%d\n30\n%d\n" % (n, 3 * (n - 1), n - 20, 3 * (n - 11)), "array_push %d times, array_slice of almost all" % n))
    st = ('    let mut a@K: array<string> = []\n    for i@K in (range 0 %d) {\n        set a@K (array_push a@K (int_to_string i@K))\n    }\n    let mut c@K: int = 0\n'
          '    for j@K in (range 0 (array_length a@K)) {\n        set c@K (+ c@K (str_length (at a@K j@K)))\n    }\n    (println c@K)\n    (println (at a@K %d))\n' % (n // 3, n // 3 - 1))
    items.append((st, "%d\n%d\n" % (sum(len(str(i)) for i in range(n // 3)), n // 3 - 1), "%d strings from int_to_string kept in an array" % (n // 3)))
    st = ('    let mut a@K: array<int> = (array_new 100 1)\n    let mut c@K: int = 0\n    for i@K in (range 0 %d) {\n        (array_set a@K (%% i@K 100) i@K)\n        set c@K (+ c@K (at a@K (%% (* i@K 7) 100)))\n    }\n    (println c@K)\n' % n)
    arr = [1] * 100
    c = 0
    for i in range(n):
        arr[i % 100] = i
        c += arr[(i * 7) % 100]
    items.append((st, "%d\n" % c, "array_new 100, then %d array_set / at" % n))
    return _pack("churn", items, tier, "built-in results inside loops", chunk=2)


CUSTOM["law"] = law_units
CUSTOM["loop"] = loop_units
CUSTOM["churn"] = churn_units

# ------------------------------------------------------------------------------------------ generic fallback
UNCOVERED = []


def _generic(row, tier):
    pools = {"I": ints, "F": floats, "B": bools, "S": strs}
    sp = {"name": row["name"], "variant": "", "ret": row["ret"], "gen": prod(*[pools[t] for t in row["params"]]),
          "model": lambda *a: UNDEF, "eps": None, "engines": None, "note": "not described: generic pools from the registry signature"}
    return sp


def units(tier):
    rows = parse_registry()
    known = dict((r["name"], r) for r in rows)
    described = set(sp["name"] for sp in SPECS)
    del UNCOVERED[:]
    counter = [0]
    for sp in SPECS:
        if sp["name"] not in known:
            continue             # the tree under test does not register it
        for u in _units_of(sp, tier, counter):
            yield u
    for key, needs in (("range", "range"), ("array_push", "array_push"), ("string_from_bytes", "string_from_bytes"),
                       ("law", "str_concat"), ("loop", "is_digit"), ("churn", "array_push")):
        if needs in known:
            for u in CUSTOM[key](tier):
                counter[0] += 1
                yield u
    for r in rows:
        if r["name"] in described or r["name"] in EXCLUDED or "BUILTIN_IO" in r["flags"]:
            continue
        if "BUILTIN_PURE" in r["flags"] and r["arity"] >= 1 and all(t in "IFBS" for t in r["params"]) and r["ret"] in "IFBS":
            for u in _units_of(_generic(r, tier), tier, counter):
                yield u
        else:
            UNCOVERED.append(r["name"])
    if counter[0] < 100:
        raise common.HarnessError("built-in matrix: only %d units" % counter[0])
