/*
 * fe_probe - runs the front end (tokenize -> parse_program -> process_imports -> type_check, and
 * optionally codegen) on many in-memory inputs, one forked child per input.
 *
 *   fe_probe <records.bin> <lo> <hi> <timeout_s> [codegen]
 * records.bin: sequence of { u32 length; bytes } records.
 * Output: one line per case that is NOT (exit 0) or (exit 1 with a diagnostic):
 *   "BAD idx=<i> class=<signal N|timeout|exit N|silent-reject> "
 * and a final STAT line.  With 'verdicts' as 6th argument prints "V <i> <A|R>" for every case.
 */
#ifndef _GNU_SOURCE
#define _GNU_SOURCE
#endif
#include <stdio.h>
#include <stdlib.h>
#include <string.h>
#include <stdint.h>
#include <unistd.h>
#include <signal.h>
#include <sys/wait.h>
#include <sys/stat.h>
#include <fcntl.h>
#include "nanolang.h"
#include "codegen.h"
#include "nvm_format.h"
#include "verifier.h"
#include "vm.h"

int g_argc = 0;
char **g_argv = NULL;

static uint8_t *g_data; static size_t g_size;
static size_t *g_off; static uint32_t *g_len; static uint64_t g_n;

static void load(const char *path) {
    FILE *f = fopen(path, "rb"); if (!f) { perror(path); exit(3); }
    fseek(f, 0, SEEK_END); g_size = (size_t)ftell(f); fseek(f, 0, SEEK_SET);
    g_data = malloc(g_size + 1);
    if (fread(g_data, 1, g_size, f) != g_size) exit(3);
    fclose(f);
    size_t cap = 1024; g_off = malloc(cap * sizeof *g_off); g_len = malloc(cap * sizeof *g_len);
    size_t pos = 0;
    while (pos + 4 <= g_size) {
        uint32_t l; memcpy(&l, g_data + pos, 4); pos += 4;
        if (pos + l > g_size) break;
        if (g_n == cap) { cap *= 2; g_off = realloc(g_off, cap * sizeof *g_off); g_len = realloc(g_len, cap * sizeof *g_len); }
        g_off[g_n] = pos; g_len[g_n] = l; g_n++;
        pos += l;
    }
}

#ifdef NANOLANG_VERIF
static long g_fuel_left = 0;
static int fuel_step(VmState *vm) { (void)vm; return --g_fuel_left >= 0; }
#endif

/* exit codes of the child: 0 accepted, 1 rejected, 2 codegen/verify refused an accepted program,
 * 20+r: (do_codegen == 2) the VM ended with VmResult r != VM_OK ("runtime error: <msg>" is the last stderr line) */
static int front_end(const char *src, int do_codegen) {
    int token_count = 0;
    Token *tokens = tokenize(src, &token_count);
    if (!tokens) { fprintf(stderr, "error: lexer failed\n"); return 1; }
    ASTNode *program = parse_program(tokens, token_count);
    if (!program) { fprintf(stderr, "error: parser failed\n"); return 1; }
    clear_module_cache();
    Environment *env = create_environment();
    ModuleList *modules = create_module_list();
    if (!process_imports(program, env, modules, "case.nano")) { fprintf(stderr, "error: module loading failed\n"); return 1; }
    typecheck_set_current_file("case.nano");
    if (!type_check(program, env)) { fprintf(stderr, "error: type check failed\n"); return 1; }
    if (do_codegen) {
        CodegenResult cg = codegen_compile(program, env, modules, "case.nano");
        if (!cg.ok) { fprintf(stderr, "error: codegen failed at line %d: %s\n", cg.error_line, cg.error_msg); return 2; }
        NvmVerifyResult vr = nvm_verify(cg.module);
        if (!vr.ok) { fprintf(stderr, "error: bytecode verification failed: %s\n", vr.error_msg); return 2; }
        if (do_codegen == 2) {
            VmState *vm = calloc(1, sizeof *vm);
            vm_init(vm, cg.module);
            vm->output = fopen("/dev/null", "w");
#ifdef NANOLANG_VERIF
            g_fuel_left = 200000; nl_verif_vm_step = fuel_step;
#endif
            VmResult r = vm_execute(vm);
            if (r != VM_OK) {
                fprintf(stderr, "\nruntime error: %s\n", vm->error_msg[0] ? vm->error_msg : vm_error_string(r));
                return 20 + (int)r;
            }
        }
    }
    return 0;
}

int main(int argc, char **argv) {
    if (argc < 5) { fprintf(stderr, "usage: fe_probe records lo hi timeout [codegen] [verdicts]\n"); return 3; }
    load(argv[1]);
    uint64_t lo = strtoull(argv[2], NULL, 10), hi = strtoull(argv[3], NULL, 10);
    unsigned tmo = (unsigned)atoi(argv[4]);
    int do_codegen = argc > 5 && !strcmp(argv[5], "codegen");
    if (argc > 5 && !strcmp(argv[5], "run")) do_codegen = 2;
    int verdicts = argc > 6 && !strcmp(argv[6], "verdicts");
    if (hi == 0 || hi > g_n) hi = g_n;
    setvbuf(stdout, NULL, _IOLBF, 0);
    const char *td = getenv("TMPDIR");
    char path[4096]; snprintf(path, sizeof path, "%s/feprobe.XXXXXX", td && *td ? td : "/tmp");
    int efd = mkstemp(path); if (efd < 0) { perror("mkstemp"); return 3; }
    unlink(path);
    int devnull = open("/dev/null", O_WRONLY);
    unsigned long acc = 0, rej = 0, bad = 0, cgref = 0;
    for (uint64_t i = lo; i < hi; i++) {
        if (ftruncate(efd, 0) != 0) {}
        lseek(efd, 0, SEEK_SET);
        fflush(stdout);
        pid_t p = fork();
        if (p < 0) { perror("fork"); return 3; }
        if (p == 0) {
            alarm(tmo);
            dup2(efd, 2); dup2(devnull, 1);
            char *src = malloc((size_t)g_len[i] + 1);          /* exact-size heap copy: asan sees overreads */
            memcpy(src, g_data + g_off[i], g_len[i]); src[g_len[i]] = 0;
            int rc = front_end(src, do_codegen);
            fflush(stderr);
            _exit(rc);
        }
        int st = 0; while (waitpid(p, &st, 0) < 0) {}
        struct stat sb; fstat(efd, &sb);
        if (WIFEXITED(st) && WEXITSTATUS(st) == 0) { acc++; if (verdicts) printf("V %llu A\n", (unsigned long long)i); }
        else if (WIFEXITED(st) && WEXITSTATUS(st) == 1 && sb.st_size > 0) { rej++; if (verdicts) printf("V %llu R\n", (unsigned long long)i); }
        else if (WIFEXITED(st) && WEXITSTATUS(st) == 2) {
            cgref++;
            char tail[400] = {0}; off_t sz = sb.st_size, from = sz > 399 ? sz - 399 : 0;
            if (pread(efd, tail, (size_t)(sz - from), from) < 0) tail[0] = 0;
            char *ln = strstr(tail, "error: codegen"); if (!ln) ln = strstr(tail, "error: bytecode"); if (!ln) ln = tail;
            for (char *c = ln; *c; c++) if (*c == '\n') *c = ' ';
            printf("CGREF idx=%llu %s\n", (unsigned long long)i, ln);
        }
        else if (do_codegen == 2 && WIFEXITED(st) && WEXITSTATUS(st) >= 20 && WEXITSTATUS(st) <= 20 + 13) {
            acc++;
            char tail[400] = {0}; off_t sz = sb.st_size, from = sz > 399 ? sz - 399 : 0;
            if (pread(efd, tail, (size_t)(sz - from), from) < 0) tail[0] = 0;
            char *ln = NULL, *q = tail;
            while ((q = strstr(q, "runtime error: ")) != NULL) { ln = q; q++; }
            if (!ln) ln = tail;
            for (char *c = ln; *c; c++) if (*c == '\n') *c = ' ';
            printf("VMERR idx=%llu result=%d msg=%s\n", (unsigned long long)i, WEXITSTATUS(st) - 20, ln);
        }
        else {
            bad++;
            if (WIFSIGNALED(st)) printf("BAD idx=%llu class=%s%d\n", (unsigned long long)i, WTERMSIG(st) == SIGALRM ? "timeout-signal" : "signal", WTERMSIG(st));
            else if (WEXITSTATUS(st) == 1) printf("BAD idx=%llu class=silent-reject\n", (unsigned long long)i);
            else {
                /* a sanitizer abort carries its own exit status (ASAN_OPTIONS exitcode): report what it found */
                char *txt = malloc((size_t)sb.st_size + 1); const char *sum = "";
                if (txt && pread(efd, txt, (size_t)sb.st_size, 0) == (ssize_t)sb.st_size) {
                    txt[sb.st_size] = 0;
                    char *q = strstr(txt, "SUMMARY: ");
                    if (!q) q = strstr(txt, "runtime error: ");
                    if (q) { char *nl = strchr(q, '\n'); if (nl) *nl = 0; sum = q; }
                }
                printf("BAD idx=%llu class=exit%d %s\n", (unsigned long long)i, WEXITSTATUS(st), sum);
                free(txt);
            }
        }
    }
    printf("STAT cases=%llu accepted=%lu rejected=%lu codegen_refused=%lu bad=%lu\n", (unsigned long long)(hi - lo), acc, rej, cgref, bad);
    return 0;
}
