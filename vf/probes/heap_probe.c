/*
 * heap_probe - runs compiled modules on the real NanoVM with the per-instruction verification
 * seam (hook H1) installed and audits the heap at EVERY instruction boundary (property C14):
 *
 *   roots      = operand stack [0, stack_size), globals [0, global_count), every frame's closure
 *   containers = array elements [0,length), struct fields + field-name strings, union fields,
 *                tuple elements, closure captures, hashmap keys/values
 *   for every object o reached from the roots through containers:
 *      (i)   o's memory is still allocated (AddressSanitizer: not poisoned) and its header type
 *            matches the tag of the value that points at it
 *      (ii)  ref_count(o) >= number of strong references found by the walk (the intern table is
 *            weak and not counted)
 *   a double release reads a freed header inside vm_release: AddressSanitizer aborts the run.
 *
 * usage: heap_probe audit|auditout|live <fuel> <file.nvm>...
 *   audit     audit at every instruction boundary, program output discarded
 *   auditout  same, and everything the program prints is written to <file.nvm>.out (the check compares
 *             it with the values the program must print: a dangling value shows as other data); the first
 *             audit failures are also written into that stream ("!!FAIL ..."), i.e. at the place of the
 *             output where they happened
 *   live      no audits, only live-object counts (churn families)
 *   live:<k>  same, and prints  LIVE <file> n=<samples> <c1>,<c2>,...  = the number of live objects at every
 *             k-th return into main (leak family: main calls each case k times in a loop of its own)
 *   one forked child per module; prints per module
 *     RES <file> rc=<VmResult> steps=<n> audits=<n> maxreach=<n> peak_live=<n> final_live=<n> fuel_out=<0|1>
 *     FAIL <file> step=<n> fn=<name> ip=<n> kind=<dangling|undercount|typeconf> <detail>     (first 5 per module)
 *     CRASH <file> status=<wait status>   (signal / sanitizer abort; stderr carries the report)
 */
#ifndef _GNU_SOURCE
#define _GNU_SOURCE
#endif
#include <stdio.h>
#include <stdlib.h>
#include <string.h>
#include <stdint.h>
#include <stdbool.h>
#include <unistd.h>
#include <sys/wait.h>
#include "isa.h"
#include "nvm_format.h"
#include "vm.h"

int g_argc = 0;
char **g_argv = NULL;

#if defined(__has_feature)
#if __has_feature(address_sanitizer)
#define HAVE_ASAN 1
#endif
#endif
#ifdef __SANITIZE_ADDRESS__
#define HAVE_ASAN 1
#endif
#ifdef HAVE_ASAN
void *__asan_region_is_poisoned(void *beg, size_t size);
static int poisoned(const void *p, size_t n) { return __asan_region_is_poisoned((void *)p, n) != NULL; }
#else
static int poisoned(const void *p, size_t n) { (void)p; (void)n; return 0; }
#endif

/* ------------------------------------------------------------------ pointer table */
typedef struct { void *ptr; uint32_t indeg; uint8_t tag; } Ent;
static Ent *tab = NULL;
static uint32_t tab_cap = 0, tab_n = 0;
static void **work = NULL;
static uint32_t work_n = 0, work_cap = 0;

static void tab_reset(void) {
    if (!tab) { tab_cap = 1024; tab = calloc(tab_cap, sizeof(Ent)); }
    else memset(tab, 0, tab_cap * sizeof(Ent));
    tab_n = 0; work_n = 0;
}
static Ent *tab_find(void *p, bool *isnew);
static void tab_grow(void) {
    Ent *old = tab; uint32_t oc = tab_cap;
    tab_cap *= 2; tab = calloc(tab_cap, sizeof(Ent)); tab_n = 0;
    for (uint32_t i = 0; i < oc; i++) if (old[i].ptr) { bool nw; Ent *e = tab_find(old[i].ptr, &nw); *e = old[i]; }
    free(old);
}
static Ent *tab_find(void *p, bool *isnew) {
    uint64_t h = ((uint64_t)(uintptr_t)p >> 4) * 0x9E3779B97F4A7C15ull;
    uint32_t i = (uint32_t)(h >> 32) & (tab_cap - 1);
    while (tab[i].ptr && tab[i].ptr != p) i = (i + 1) & (tab_cap - 1);
    *isnew = tab[i].ptr == NULL;
    if (*isnew) { tab[i].ptr = p; tab_n++; }
    return &tab[i];
}
static void work_push(void *p) {
    if (work_n == work_cap) { work_cap = work_cap ? work_cap * 2 : 256; work = realloc(work, work_cap * sizeof(void *)); }
    work[work_n++] = p;
}

/* ------------------------------------------------------------------ audit */
static const char *g_file = "";
static unsigned long g_step = 0, g_audits = 0, g_maxreach = 0, g_fails = 0, g_peak = 0;
static long g_fuel = 0;
static int g_fuel_out = 0;
static VmState *g_vm = NULL;
static int g_audit_every = 1;
static int g_keep_output = 0;
static FILE *g_out = NULL;      /* auditout: the program's output stream; audit failures are noted in it as well */

static const char *fn_name(VmState *vm) {
    const NvmModule *m = vm->module;
    if (vm->current_fn < m->function_count) {
        uint32_t ni = m->functions[vm->current_fn].name_idx;
        if (ni < m->string_count) return m->strings[ni];
    }
    return "?";
}
static void fail(VmState *vm, const char *kind, const char *fmt, ...) __attribute__((format(printf, 3, 4)));
#include <stdarg.h>
static void fail(VmState *vm, const char *kind, const char *fmt, ...) {
    g_fails++;
    if (g_fails > 5 && !(g_out && g_fails <= 20000)) return;
    char buf[400];
    va_list ap; va_start(ap, fmt); vsnprintf(buf, sizeof buf, fmt, ap); va_end(ap);
    if (g_fails <= 5)
        printf("FAIL %s step=%lu fn=%s ip=%u kind=%s %s\n", g_file, g_step, fn_name(vm), vm->ip, kind, buf);
    /* in the output stream too: there it sits between the lines the program printed before and after */
    if (g_out) fprintf(g_out, "\n!!FAIL fn=%s kind=%s %s\n", fn_name(vm), kind, buf);
}

static bool is_ref(NanoValue v) {
    return (val_is_heap_obj(v) || v.tag == TAG_FUNCTION) && v.as.obj != NULL;
}
static const char *tagname(uint8_t t) {
    switch (t) { case TAG_STRING: return "string"; case TAG_ARRAY: return "array"; case TAG_STRUCT: return "struct";
                 case TAG_UNION: return "union"; case TAG_TUPLE: return "tuple"; case TAG_HASHMAP: return "hashmap";
                 case TAG_FUNCTION: return "closure"; default: return "?"; }
}
/* one strong reference `v` found at `where` */
static void see(VmState *vm, NanoValue v, const char *where, long idx) {
    if (!is_ref(v)) return;
    void *p = v.as.obj;
    if (poisoned(p, sizeof(VmHeapHeader))) {
        fail(vm, "dangling", "%s[%ld] holds a %s at freed memory", where, idx, tagname(v.tag));
        return;
    }
    VmHeapHeader *h = (VmHeapHeader *)p;
    if (h->obj_type != v.tag) {
        fail(vm, "typeconf", "%s[%ld] has tag %s but the object header says type %u (rc=%u)", where, idx, tagname(v.tag), h->obj_type, h->ref_count);
        return;
    }
    bool nw; Ent *e = tab_find(p, &nw);
    if (nw) { e->indeg = 0; e->tag = v.tag; }
    e->indeg++;
    if (nw) {
        work_push(p);
        if (tab_n * 2 > tab_cap) tab_grow();
    }
}
static void scan_children(VmState *vm, void *p, uint8_t tag) {
    switch (tag) {
    case TAG_ARRAY: {
        VmArray *a = p;
        if (a->length > a->capacity) { fail(vm, "typeconf", "array length %u > capacity %u", a->length, a->capacity); return; }
        if (a->length && poisoned(a->elements, (size_t)a->length * sizeof(NanoValue))) { fail(vm, "dangling", "array element store freed"); return; }
        for (uint32_t i = 0; i < a->length; i++) see(vm, a->elements[i], "array", i);
        break; }
    case TAG_STRUCT: {
        VmStruct *s = p;
        if (s->field_count && poisoned(s->fields, (size_t)s->field_count * sizeof(NanoValue))) { fail(vm, "dangling", "struct field store freed"); return; }
        for (uint32_t i = 0; i < s->field_count; i++) see(vm, s->fields[i], "struct.field", i);
        if (s->field_names) for (uint32_t i = 0; i < s->field_count; i++) if (s->field_names[i]) see(vm, val_string(s->field_names[i]), "struct.field_name", i);
        break; }
    case TAG_UNION: {
        VmUnion *u = p;
        if (u->field_count && poisoned(u->fields, (size_t)u->field_count * sizeof(NanoValue))) { fail(vm, "dangling", "union field store freed"); return; }
        for (uint32_t i = 0; i < u->field_count; i++) see(vm, u->fields[i], "union.field", i);
        break; }
    case TAG_TUPLE: {
        VmTuple *t = p;
        for (uint32_t i = 0; i < t->count; i++) see(vm, t->elements[i], "tuple", i);
        break; }
    case TAG_FUNCTION: {
        VmClosure *c = p;
        for (uint32_t i = 0; i < c->capture_count; i++) see(vm, c->captures[i], "closure.capture", i);
        break; }
    case TAG_HASHMAP: {
        VmHashMap *m = p;
        for (uint32_t b = 0; b < m->bucket_count; b++)
            for (VmHMEntry *e = m->buckets[b]; e; e = e->next) {
                if (poisoned(e, sizeof *e)) { fail(vm, "dangling", "hashmap entry freed"); break; }
                see(vm, e->key, "hashmap.key", b); see(vm, e->value, "hashmap.value", b);
            }
        break; }
    default: break;
    }
}

static void audit(VmState *vm) {
    tab_reset();
    for (uint32_t i = 0; i < vm->stack_size; i++) see(vm, vm->stack[i], "stack", i);
    for (uint32_t i = 0; i < vm->global_count && i < VM_MAX_GLOBALS; i++) see(vm, vm->globals[i], "global", i);
    for (uint32_t i = 0; i < vm->frame_count; i++)
        if (vm->frames[i].closure) { NanoValue v = {0}; v.tag = TAG_FUNCTION; v.as.closure = vm->frames[i].closure; see(vm, v, "frame.closure", i); }
    while (work_n) {
        void *p = work[--work_n];
        bool nw; Ent *e = tab_find(p, &nw);
        scan_children(vm, p, e->tag);
    }
    for (uint32_t i = 0; i < tab_cap; i++) {
        if (!tab[i].ptr) continue;
        VmHeapHeader *h = tab[i].ptr;
        if (h->ref_count < tab[i].indeg)
            fail(vm, "undercount", "%s object has ref_count=%u but %u live references point at it", tagname(tab[i].tag), h->ref_count, tab[i].indeg);
    }
    if (tab_n > g_maxreach) g_maxreach = tab_n;
    g_audits++;
}

/* live:<k> mode: number of live objects at every k-th return into main (main runs one loop of k calls per case:
 * the sample after the last call of a loop is what that case left behind) */
static unsigned long g_ret_every = 0, g_rets = 0;
static uint32_t g_main_fn = UINT32_MAX, g_prev_fn = UINT32_MAX;
static int g_seen_main = 0;
static unsigned long *g_samples = NULL;
static size_t g_nsamples = 0, g_cap_samples = 0;

static int step_hook(VmState *vm) {
    g_step++;
    if (vm->heap.stats.num_objects > g_peak) g_peak = vm->heap.stats.num_objects;
    if (g_ret_every) {
        uint32_t cf = vm->current_fn;
        if (cf == g_main_fn && g_prev_fn != g_main_fn) {
            if (g_seen_main && ++g_rets % g_ret_every == 0) {
                if (g_nsamples == g_cap_samples) { g_cap_samples = g_cap_samples ? g_cap_samples * 2 : 256; g_samples = realloc(g_samples, g_cap_samples * sizeof *g_samples); }
                g_samples[g_nsamples++] = vm->heap.stats.num_objects;
            }
            g_seen_main = 1;
        }
        g_prev_fn = cf;
    }
    if (g_fuel > 0 && (long)g_step > g_fuel) { g_fuel_out = 1; return 0; }
    if (g_audit_every && (g_step % (unsigned long)g_audit_every) == 0) audit(vm);
    return 1;
}

static uint8_t *read_file(const char *p, uint32_t *sz) {
    FILE *f = fopen(p, "rb");
    if (!f) { fprintf(stderr, "cannot open %s\n", p); exit(3); }
    fseek(f, 0, SEEK_END); long n = ftell(f); fseek(f, 0, SEEK_SET);
    uint8_t *b = malloc(n ? n : 1);
    if (fread(b, 1, n, f) != (size_t)n) exit(3);
    fclose(f); *sz = (uint32_t)n; return b;
}

static int run_one(const char *file) {
    uint32_t sz; uint8_t *buf = read_file(file, &sz);
    NvmModule *m = nvm_deserialize(buf, sz);
    if (!m) { printf("LOADFAIL %s\n", file); return 0; }
    g_file = file;
    VmState *vm = calloc(1, sizeof *vm);
    vm_init(vm, m);
    char outpath[4096];
    snprintf(outpath, sizeof outpath, "%s.out", file);
    FILE *devnull = fopen(g_keep_output ? outpath : "/dev/null", "w");
    if (!devnull) { fprintf(stderr, "cannot open output file for %s\n", file); exit(3); }
    if (g_keep_output) setvbuf(devnull, NULL, _IOLBF, 0);   /* keep what was printed before an abort */
    vm->output = devnull;
    if (g_keep_output) g_out = devnull;
    g_vm = vm;
    for (uint32_t i = 0; i < m->function_count; i++) {
        uint32_t ni = m->functions[i].name_idx;
        if (ni < m->string_count && !strcmp(m->strings[ni], "main")) g_main_fn = i;
    }
    nl_verif_vm_step = step_hook;
    VmResult r = vm_execute(vm);
    nl_verif_vm_step = NULL;
    /* one more audit of the final state (result on the stack, globals) */
    if (!g_fuel_out && g_audit_every) audit(vm);
    unsigned long final_live = vm->heap.stats.num_objects;
    fflush(devnull);
    printf("RES %s rc=%d steps=%lu audits=%lu maxreach=%lu peak_live=%lu final_live=%lu fuel_out=%d fails=%lu\n",
           file, (int)r, g_step, g_audits, g_maxreach, g_peak, final_live, g_fuel_out, g_fails);
    if (g_ret_every) {
        printf("LIVE %s n=%zu", file, g_nsamples);
        for (size_t i = 0; i < g_nsamples; i++) printf("%c%lu", i ? ',' : ' ', g_samples[i]);
        printf("\n");
    }
    fflush(stdout);
    vm_destroy(vm);      /* releases stack and globals: a double release is an asan report here */
    free(vm);
    nvm_module_free(m);
    free(buf);
    fclose(devnull);
    return 0;
}

int main(int argc, char **argv) {
    g_argc = argc; g_argv = argv;
    if (argc >= 4 && !strncmp(argv[1], "live:", 5)) { g_ret_every = strtoul(argv[1] + 5, NULL, 10); argv[1] = "live"; }
    if (argc < 4 || (strcmp(argv[1], "audit") && strcmp(argv[1], "auditout") && strcmp(argv[1], "live"))) {
        fprintf(stderr, "usage: heap_probe audit|auditout|live|live:<k> <fuel> <file.nvm>...\n"); return 3;
    }
    if (!strcmp(argv[1], "auditout")) g_keep_output = 1;
    if (!strcmp(argv[1], "live")) g_audit_every = 0;     /* only count live objects (churn family) */
    g_fuel = atol(argv[2]);
    setvbuf(stdout, NULL, _IOLBF, 0);
    for (int i = 3; i < argc; i++) {
        fflush(stdout);
        pid_t pid = fork();
        if (pid == 0) { alarm(120); _exit(run_one(argv[i])); }
        int st = 0; waitpid(pid, &st, 0);
        if (!WIFEXITED(st) || WEXITSTATUS(st) != 0) printf("CRASH %s status=%d\n", argv[i], st);
    }
    return 0;
}
