/*
 * cop_probe - in-process driver for the co-process value codec (property C15) and a
 * small import-table/CALL_EXTERN dumper used as a vacuity guard for the end-to-end part.
 * Linked against the tree's own objects exactly like tests/nanovirt/test_codegen.c.
 *
 *   cop_probe codec <specs.txt> <lo> <hi>
 *       one value (or raw byte image) per line of the spec file, evaluated in a forked
 *       child each (a sanitizer abort on one value cannot hide the others):
 *         i<dec>            TAG_INT          o<dec>          TAG_OPAQUE
 *         f<16 hex digits>  TAG_FLOAT bits   b0 | b1         TAG_BOOL       v   TAG_VOID
 *         s<cls>:<len>      TAG_STRING, content class cls (0 ascii, 1 bytes 1..255 cyclic,
 *                           2 multi-byte UTF-8, 3 high bytes mixed with ascii, 4 bytes 0..255 cyclic)
 *         A<etype>[v,v,..]  TAG_ARRAY with the given elem_type tag and elements (nesting allowed)
 *         L<kind>:<count>   TAG_ARRAY of <count> elements cycling through a pool; kind i|f|b|s
 *         X<hex>            not a value: a byte image that is a strict prefix of the encoding of a
 *                           value longer than the buffer; cop_deserialize_value must refuse it
 *       per value v:  n = serialize(v) into a generous buffer; serialize into an exact n-byte heap
 *       buffer gives the same n bytes; serialize into every exact-size buffer of 0..n-1 bytes
 *       returns 0; deserialize(n bytes [+ trailing garbage]) consumes n and yields a value equal to v
 *       bit for bit (tag, payload bits, length, content, elem_type, element count, recursively);
 *       re-serializing that value gives the same bytes; deserialize of every strict prefix
 *       (exact-size heap copy) returns 0.  asan/ubsan make over-reads/over-writes fatal.
 *   cop_probe imports <file.nvm>...
 *       prints "IMPORT <file> <idx> <name> argc=<n> ret=<tag> calls=<number of CALL_EXTERN idx>"
 *
 * Output: "FAIL <class> idx=<i> ..." per finding, final "STAT k=v ...".
 */
#ifndef _GNU_SOURCE
#define _GNU_SOURCE
#endif
#include <stdio.h>
#include <stdlib.h>
#include <string.h>
#include <stdint.h>
#include <stdbool.h>
#include <unistd.h>
#include <signal.h>
#include <sys/wait.h>
#include <sys/mman.h>
#include "isa.h"
#include "nvm_format.h"
#include "value.h"
#include "heap.h"
#include "cop_protocol.h"

int g_argc = 0;
char **g_argv = NULL;

/* ------------------------------------------------------------------ reference values */
typedef struct RV {
    uint8_t tag;
    uint64_t bits;              /* int / opaque / float bits / bool */
    uint8_t *s; uint32_t slen;  /* string */
    uint8_t etype; uint32_t n; struct RV **el;   /* array */
} RV;

static const int64_t POOL_I[] = {0, -1, 1, INT64_MIN, INT64_MAX, 4294967296LL, -2147483648LL, 255, 256, INT64_MIN + 1, INT64_MAX - 1};
static const uint64_t POOL_F[] = {0x0000000000000000ull, 0x8000000000000000ull, 0x7FF0000000000000ull, 0xFFF0000000000000ull,
                                  0x7FF8000000000001ull, 0x7FF0000000000001ull, 0xFFF8DEADBEEF0001ull, 0x0000000000000001ull,
                                  0x000FFFFFFFFFFFFFull, 0x7FEFFFFFFFFFFFFFull, 0x3FF0000000000000ull, 0xBFF8000000000000ull};
#define NEL(a) ((uint32_t)(sizeof(a) / sizeof(a[0])))

static uint8_t *gen_string(int cls, uint32_t len) {
    static const uint8_t u8unit[] = {0xC3, 0xA9, 0xE2, 0x82, 0xAC, 0xF0, 0x9F, 0x98, 0x80, 'z'};  /* e-acute, euro, emoji, z */
    uint8_t *p = malloc(len ? len : 1);
    for (uint32_t i = 0; i < len; i++) {
        switch (cls) {
        case 0: p[i] = (uint8_t)(' ' + (i % 95)); break;
        case 1: p[i] = (uint8_t)(1 + (i % 255)); break;
        case 2: p[i] = u8unit[i % sizeof u8unit]; break;
        case 3: p[i] = (i % 3 == 1) ? (uint8_t)(0x80 + ((i / 3) % 128)) : (uint8_t)('a' + (i % 26)); break;
        default: p[i] = (uint8_t)(i % 256); break;
        }
    }
    return p;
}

static RV *rv_new(uint8_t tag) { RV *r = calloc(1, sizeof *r); r->tag = tag; return r; }

static RV *parse_value(const char **pp) {
    const char *p = *pp;
    RV *r = NULL;
    switch (*p) {
    case 'i': r = rv_new(TAG_INT);    r->bits = (uint64_t)strtoll(p + 1, (char **)&p, 10); break;
    case 'o': r = rv_new(TAG_OPAQUE); r->bits = (uint64_t)strtoll(p + 1, (char **)&p, 10); break;
    case 'f': r = rv_new(TAG_FLOAT);  r->bits = strtoull(p + 1, (char **)&p, 16); break;
    case 'b': r = rv_new(TAG_BOOL);   r->bits = (p[1] == '1'); p += 2; break;
    case 'v': r = rv_new(TAG_VOID);   p += 1; break;
    case 's': {
        r = rv_new(TAG_STRING);
        int cls = (int)strtol(p + 1, (char **)&p, 10);
        if (*p != ':') return NULL;
        r->slen = (uint32_t)strtoul(p + 1, (char **)&p, 10);
        r->s = gen_string(cls, r->slen);
        break;
    }
    case 'A': {
        r = rv_new(TAG_ARRAY);
        r->etype = (uint8_t)strtol(p + 1, (char **)&p, 10);
        if (*p != '[') return NULL;
        p++;
        uint32_t cap = 4; r->el = malloc(cap * sizeof(RV *));
        while (*p && *p != ']') {
            RV *e = parse_value(&p);
            if (!e) return NULL;
            if (r->n == cap) { cap *= 2; r->el = realloc(r->el, cap * sizeof(RV *)); }
            r->el[r->n++] = e;
            if (*p == ',') p++;
        }
        if (*p != ']') return NULL;
        p++;
        break;
    }
    case 'L': {
        r = rv_new(TAG_ARRAY);
        char kind = p[1];
        if (p[2] != ':') return NULL;
        uint32_t cnt = (uint32_t)strtoul(p + 3, (char **)&p, 10);
        r->etype = kind == 'i' ? TAG_INT : kind == 'f' ? TAG_FLOAT : kind == 'b' ? TAG_BOOL : TAG_STRING;
        r->n = cnt; r->el = malloc((cnt ? cnt : 1) * sizeof(RV *));
        for (uint32_t i = 0; i < cnt; i++) {
            RV *e;
            if (kind == 'i') { e = rv_new(TAG_INT); e->bits = (uint64_t)POOL_I[i % NEL(POOL_I)]; }
            else if (kind == 'f') { e = rv_new(TAG_FLOAT); e->bits = POOL_F[i % NEL(POOL_F)]; }
            else if (kind == 'b') { e = rv_new(TAG_BOOL); e->bits = (i % 3 == 0); }
            else { e = rv_new(TAG_STRING); e->slen = (i * 7) % 41; e->s = gen_string((int)(i % 5), e->slen); }
            r->el[i] = e;
        }
        break;
    }
    default: return NULL;
    }
    *pp = p;
    return r;
}

static NanoValue build(VmHeap *h, const RV *r) {
    NanoValue v; memset(&v, 0, sizeof v);
    switch (r->tag) {
    case TAG_INT: return val_int((int64_t)r->bits);
    case TAG_OPAQUE: v.tag = TAG_OPAQUE; v.as.i64 = (int64_t)r->bits; return v;
    case TAG_FLOAT: v.tag = TAG_FLOAT; memcpy(&v.as.f64, &r->bits, 8); return v;
    case TAG_BOOL: return val_bool(r->bits != 0);
    case TAG_STRING: return val_string(vm_string_new(h, (const char *)r->s, r->slen));
    case TAG_ARRAY: {
        VmArray *a = vm_array_new(h, r->etype, r->n);
        for (uint32_t i = 0; i < r->n; i++) { NanoValue e = build(h, r->el[i]); vm_array_push(a, e); vm_release(h, e); }
        return val_array(a);
    }
    default: return val_void();
    }
}

/* size of the encoding according to the format documented in cop_protocol.h */
static uint64_t ref_size(const RV *r) {
    switch (r->tag) {
    case TAG_INT: case TAG_OPAQUE: case TAG_FLOAT: return 9;
    case TAG_BOOL: return 2;
    case TAG_STRING: return 5ull + r->slen;
    case TAG_ARRAY: { uint64_t t = 6; for (uint32_t i = 0; i < r->n; i++) t += ref_size(r->el[i]); return t; }
    default: return 1;
    }
}

static int equal(const NanoValue *v, const RV *r, char *why, size_t wn) {
    if (v->tag != r->tag) { snprintf(why, wn, "tag %u, want %u", v->tag, r->tag); return 0; }
    switch (r->tag) {
    case TAG_INT: case TAG_OPAQUE:
        if ((uint64_t)v->as.i64 != r->bits) { snprintf(why, wn, "value %lld, want %lld", (long long)v->as.i64, (long long)r->bits); return 0; }
        return 1;
    case TAG_FLOAT: { uint64_t b; memcpy(&b, &v->as.f64, 8);
        if (b != r->bits) { snprintf(why, wn, "float bits %016llx, want %016llx", (unsigned long long)b, (unsigned long long)r->bits); return 0; }
        return 1; }
    case TAG_BOOL:
        if ((v->as.boolean ? 1u : 0u) != r->bits) { snprintf(why, wn, "bool %d, want %d", v->as.boolean, (int)r->bits); return 0; }
        return 1;
    case TAG_STRING:
        if (!v->as.string) { snprintf(why, wn, "null string"); return 0; }
        if (v->as.string->length != r->slen) { snprintf(why, wn, "string length %u, want %u", v->as.string->length, r->slen); return 0; }
        if (r->slen && memcmp(v->as.string->data, r->s, r->slen)) {
            uint32_t i = 0; while (((uint8_t *)v->as.string->data)[i] == r->s[i]) i++;
            snprintf(why, wn, "string byte %u is %02x, want %02x", i, (uint8_t)v->as.string->data[i], r->s[i]); return 0; }
        if (v->as.string->data[r->slen] != 0) { snprintf(why, wn, "string not terminated"); return 0; }
        return 1;
    case TAG_ARRAY:
        if (!v->as.array) { snprintf(why, wn, "null array"); return 0; }
        if (v->as.array->elem_type != r->etype) { snprintf(why, wn, "elem_type %u, want %u", v->as.array->elem_type, r->etype); return 0; }
        if (v->as.array->length != r->n) { snprintf(why, wn, "array length %u, want %u", v->as.array->length, r->n); return 0; }
        for (uint32_t i = 0; i < r->n; i++) {
            char sub[160];
            if (!equal(&v->as.array->elements[i], r->el[i], sub, sizeof sub)) { snprintf(why, wn, "element %u: %s", i, sub); return 0; }
        }
        return 1;
    default: return 1;
    }
}

/* ------------------------------------------------------------------ shared counters */
enum { C_VALUES, C_SER, C_DESER, C_SMALLBUF, C_PREFIX, C_RAW, C_FAIL, C_THIN, C_N };
static volatile unsigned long *g_cnt;

/* exact-size heap region ending exactly at p+size (so that asan flags the first byte past it) */
static uint8_t *exact_alloc(uint32_t size, uint8_t **base) { *base = malloc((size_t)size + 8); return *base + 8; }

static int hexval(int c) { return c <= '9' ? c - '0' : (c | 32) - 'a' + 10; }

static void raw_case(unsigned long idx, const char *hex) {
    size_t hl = strlen(hex); while (hl && (hex[hl - 1] == '\n' || hex[hl - 1] == '\r')) hl--;
    uint32_t n = (uint32_t)(hl / 2);
    uint8_t *base, *buf = exact_alloc(n, &base);
    for (uint32_t i = 0; i < n; i++) buf[i] = (uint8_t)(hexval(hex[2 * i]) << 4 | hexval(hex[2 * i + 1]));
    VmHeap h; vm_heap_init(&h);
    NanoValue out = val_void();
    g_cnt[C_RAW]++; g_cnt[C_DESER]++;
    uint32_t r = cop_deserialize_value(buf, n, &out, &h);
    if (r != 0) { printf("FAIL truncated-accepted idx=%lu bytes=%u consumed=%u\n", idx, n, r); g_cnt[C_FAIL]++; }
    free(base);
}

static void value_case(unsigned long idx, const char *spec) {
    const char *p = spec;
    RV *rv = parse_value(&p);
    if (!rv) { printf("FAIL bad-spec idx=%lu\n", idx); g_cnt[C_FAIL]++; return; }
    VmHeap h; vm_heap_init(&h);
    NanoValue v = build(&h, rv);
    uint64_t want = ref_size(rv);
    if (want > 64u * 1024 * 1024) { printf("FAIL spec-too-big idx=%lu\n", idx); g_cnt[C_FAIL]++; return; }
    g_cnt[C_VALUES]++;
    char why[256];

    /* generous buffer */
    uint32_t cap = (uint32_t)want + 64;
    uint8_t *gb, *big = exact_alloc(cap, &gb);
    memset(big, 0xEE, cap);
    uint32_t n = cop_serialize_value(&v, big, cap); g_cnt[C_SER]++;
    if (n == 0 || n > cap) { printf("FAIL serialize-refused idx=%lu ret=%u cap=%u\n", idx, n, cap); g_cnt[C_FAIL]++; return; }

    /* exact buffer */
    uint8_t *eb, *ex = exact_alloc(n, &eb);
    uint32_t m = cop_serialize_value(&v, ex, n); g_cnt[C_SER]++;
    if (m != n || memcmp(ex, big, n)) { printf("FAIL serialize-exact idx=%lu ret=%u want=%u\n", idx, m, n); g_cnt[C_FAIL]++; }

    /* every smaller buffer is refused, nothing is written past it.  The k-byte buffer is the tail of one
     * exact n-byte heap region, so its end coincides with the end of the allocation (asan redzone). */
    uint8_t *tb, *tail = exact_alloc(n, &tb);
    /* arrays whose encoding exceeds 128 KiB cost O(n * elements) per sweep: the sizes strictly inside
     * (4096, n - 4096) are thinned to every 251st (reported as thinned=1 in the STAT line) */
    bool thin = rv->tag == TAG_ARRAY && n > 128u * 1024;
    if (thin) g_cnt[C_THIN]++;
#define SKIP(k) (thin && (k) >= 4096 && (k) + 4096 < n && (k) % 251 != 0)
    for (uint32_t k = 0; k < n; k++) {
        if (SKIP(k)) continue;
        uint32_t r = cop_serialize_value(&v, tail + (n - k), k); g_cnt[C_SER]++; g_cnt[C_SMALLBUF]++;
        if (r != 0) { printf("FAIL serialize-small idx=%lu size=%u/%u ret=%u\n", idx, k, n, r); g_cnt[C_FAIL]++; break; }
    }

    /* decode: exact, and with trailing garbage */
    for (int trail = 0; trail < 2; trail++) {
        uint32_t tl = trail ? 5 : 0;
        uint8_t *db, *d = exact_alloc(n + tl, &db);
        memcpy(d, big, n); memset(d + n, 0xEE, tl);
        VmHeap h2; vm_heap_init(&h2);
        NanoValue out; memset(&out, 0xAA, sizeof out);
        uint32_t c = cop_deserialize_value(d, n + tl, &out, &h2); g_cnt[C_DESER]++;
        if (c != n) { printf("FAIL deserialize-consumed idx=%lu ret=%u want=%u trail=%u\n", idx, c, n, tl); g_cnt[C_FAIL]++; }
        else if (!equal(&out, rv, why, sizeof why)) { printf("FAIL roundtrip idx=%lu trail=%u : %s\n", idx, tl, why); g_cnt[C_FAIL]++; }
        else if (!trail) {
            uint8_t *rb, *re = exact_alloc(n, &rb);
            uint32_t r2 = cop_serialize_value(&out, re, n); g_cnt[C_SER]++;
            if (r2 != n || memcmp(re, big, n)) { printf("FAIL reserialize idx=%lu ret=%u want=%u\n", idx, r2, n); g_cnt[C_FAIL]++; }
            free(rb);
        }
        free(db);
    }

    /* every strict prefix is refused, nothing is read past it (same tail-of-region placement) */
    for (uint32_t k = 0; k < n; k++) {
        if (SKIP(k)) continue;
        memcpy(tail + (n - k), big, k);
        VmHeap h3; vm_heap_init(&h3);
        NanoValue out = val_void();
        uint32_t c = cop_deserialize_value(tail + (n - k), k, &out, &h3); g_cnt[C_DESER]++; g_cnt[C_PREFIX]++;
        vm_heap_destroy(&h3);
        if (c != 0) { printf("FAIL prefix-accepted idx=%lu prefix=%u/%u ret=%u\n", idx, k, n, c); g_cnt[C_FAIL]++; break; }
    }
    free(tb);
    free(eb); free(gb);
}

static int cmd_codec(int argc, char **argv) {
    if (argc < 3) { fprintf(stderr, "codec <specs> <lo> <hi>\n"); return 3; }
    FILE *f = fopen(argv[0], "r");
    if (!f) { perror(argv[0]); return 3; }
    unsigned long lo = strtoul(argv[1], NULL, 10), hi = strtoul(argv[2], NULL, 10);
    g_cnt = mmap(NULL, 4096, PROT_READ | PROT_WRITE, MAP_SHARED | MAP_ANONYMOUS, -1, 0);
    char *line = NULL; size_t cap = 0; unsigned long idx = 0;
    while (getline(&line, &cap, f) > 0) {
        if (idx >= lo && idx < hi) {
            fflush(stdout);
            pid_t p = fork();
            if (p < 0) { perror("fork"); return 3; }
            if (p == 0) {
                alarm(600);
                if (line[0] == 'X') raw_case(idx, line + 1); else value_case(idx, line);
                fflush(stdout);
                _exit(0);
            }
            int st = 0;
            while (waitpid(p, &st, 0) < 0) {}
            if (!(WIFEXITED(st) && WEXITSTATUS(st) == 0)) {
                if (WIFSIGNALED(st)) printf("FAIL crash idx=%lu signal=%d%s\n", idx, WTERMSIG(st), WTERMSIG(st) == SIGALRM ? " (timeout)" : "");
                else printf("FAIL crash idx=%lu exit=%d\n", idx, WEXITSTATUS(st));
                g_cnt[C_FAIL]++;
            }
        }
        idx++;
    }
    printf("STAT values=%lu raw=%lu serialize_calls=%lu deserialize_calls=%lu small_buffers=%lu prefixes=%lu thinned=%lu fails=%lu\n",
           g_cnt[C_VALUES], g_cnt[C_RAW], g_cnt[C_SER], g_cnt[C_DESER], g_cnt[C_SMALLBUF], g_cnt[C_PREFIX], g_cnt[C_THIN], g_cnt[C_FAIL]);
    return 0;
}

/* ------------------------------------------------------------------ imports */
static int cmd_imports(int argc, char **argv) {
    for (int i = 0; i < argc; i++) {
        FILE *f = fopen(argv[i], "rb");
        if (!f) { printf("FAIL open %s\n", argv[i]); continue; }
        fseek(f, 0, SEEK_END); long n = ftell(f); fseek(f, 0, SEEK_SET);
        uint8_t *b = malloc(n ? n : 1);
        if (fread(b, 1, n, f) != (size_t)n) { fclose(f); printf("FAIL read %s\n", argv[i]); continue; }
        fclose(f);
        NvmModule *m = nvm_deserialize(b, (uint32_t)n);
        if (!m) { printf("FAIL load %s\n", argv[i]); free(b); continue; }
        unsigned long *calls = calloc(m->import_count + 1, sizeof *calls);
        for (uint32_t k = 0; k < m->function_count; k++) {
            const NvmFunctionEntry *fn = &m->functions[k];
            uint32_t pos = 0;
            while (pos < fn->code_length && (uint64_t)fn->code_offset + fn->code_length <= m->code_size) {
                DecodedInstruction d;
                uint32_t l = isa_decode(m->code + fn->code_offset + pos, fn->code_length - pos, &d);
                if (!l) break;
                if (d.opcode == OP_CALL_EXTERN && d.operands[0].u32 < m->import_count) calls[d.operands[0].u32]++;
                pos += l;
            }
        }
        for (uint32_t k = 0; k < m->import_count; k++) {
            const char *nm = nvm_get_string(m, m->imports[k].function_name_idx);
            printf("IMPORT %s %u %s argc=%u ret=%u calls=%lu\n", argv[i], k, nm ? nm : "?", m->imports[k].param_count, m->imports[k].return_type, calls[k]);
        }
        free(calls); nvm_module_free(m); free(b);
    }
    return 0;
}

int main(int argc, char **argv) {
    setvbuf(stdout, NULL, _IOLBF, 0);
    if (argc < 2) { fprintf(stderr, "usage: cop_probe codec|imports ...\n"); return 3; }
    if (!strcmp(argv[1], "codec")) return cmd_codec(argc - 2, argv + 2);
    if (!strcmp(argv[1], "imports")) return cmd_imports(argc - 2, argv + 2);
    fprintf(stderr, "unknown command\n");
    return 3;
}
