/*
 * c13_lim_probe - resource-limit driver for property C13 (used by vf/checks/c13.py only).
 *
 * Runs whole modules (compiler-produced or hand-built) through the tree's real
 * nvm_deserialize -> nvm_verify -> vm_execute with
 *   - the program's output captured (open_memstream) and printed as hex,
 *   - an instruction budget and a state-invariant monitor on the verification seam
 *     nl_verif_vm_step (called at every instruction boundary of vm_core_execute),
 *   - one forked child per case, so that a crash / sanitizer abort / hang is attributed
 *     to one case and reported instead of killing the driver.
 *
 *   c13_lim_probe limits
 *       -> "LIMITS VM_MAX_FRAMES=.. VM_STACK_INITIAL=.. VM_MAX_GLOBALS=.. NVM_MAX_STRINGS=.. NVM_MAX_FUNCTIONS=.. sizeof_frame=.."
 *   c13_lim_probe run <fuel> <listfile> <lo> <hi>
 *       listfile: one case per line:  <flags> <main.nvm>[,<linked.nvm>...]
 *       flags: '-' none; 'S' link the module itself as linked module 0 (OP_CALL_MODULE);
 *              'R' after the run, call vm_call_function(entry) once more on the same VmState
 *                  (host re-entry with the frames the failed run left behind)
 *       -> one line per case:
 *          CASE <idx> st=<ok|noload|noverify|imports|crash> res=<VmResult> tag=<main result tag> ival=<int result>
 *               steps=<n> fuelout=<0|1> maxframes=<n> maxstack=<n> frames_left=<n> lastop=<opcode the last boundary was about to run>
 *               grow=<opcode:new capacity,.. = instructions during which the operand stack was reallocated>
 *               inv=<first invariant violation or -> msg=<hex> out=<hex>
 *               [re_res=.. re_inv=.. re_maxframes=..]
 *          crash: CASE <idx> st=crash signal=<n>|exit=<n> phase=<n> err=<hex of the head of the child's stderr>
 */
#ifndef _GNU_SOURCE
#define _GNU_SOURCE
#endif
#include <stdio.h>
#include <stdlib.h>
#include <string.h>
#include <stdint.h>
#include <stdbool.h>
#include <unistd.h>
#include <signal.h>
#include <sys/wait.h>
#include <sys/mman.h>
#include <sys/resource.h>
#include "isa.h"
#include "nvm_format.h"
#include "verifier.h"
#include "vm.h"

int g_argc = 0;
char **g_argv = NULL;

static uint8_t *read_file(const char *p, uint32_t *sz) {
    FILE *f = fopen(p, "rb");
    if (!f) { fprintf(stderr, "cannot open %s\n", p); exit(3); }
    fseek(f, 0, SEEK_END); long n = ftell(f); fseek(f, 0, SEEK_SET);
    uint8_t *b = malloc(n ? n : 1);
    if (fread(b, 1, n, f) != (size_t)n) exit(3);
    fclose(f); *sz = (uint32_t)n; return b;
}

static void put_hex(FILE *o, const char *s, size_t n) {
    if (n == 0) { fputc('-', o); return; }
    for (size_t i = 0; i < n; i++) fprintf(o, "%02x", (unsigned char)s[i]);
}

/* ---------------------------------------------------------------- invariant monitor */
static long g_fuel, g_fuel_left;
static unsigned long g_steps;
static uint32_t g_maxframes, g_maxstack;
static int64_t g_prev_frames;          /* -1: no previous boundary in this vm_call_function */
static char g_inv[200];
static int g_last_op;                  /* opcode of the instruction the latest boundary was about to execute */
static uint32_t g_prev_cap;
static char g_grow[160];               /* "op:newcap,..." = instruction during which the operand stack was reallocated */
static void note_growth(VmState *vm) {
    if (vm->stack_capacity != g_prev_cap) {
        size_t l = strlen(g_grow);
        if (l + 24 < sizeof g_grow) snprintf(g_grow + l, sizeof g_grow - l, "%s%d:%u", l ? "," : "", g_last_op, vm->stack_capacity);
        g_prev_cap = vm->stack_capacity;
    }
}
static volatile int *g_phase;          /* shared with the parent: 1 load 2 verify 3 run 4 destroy 5 rerun */

static void inv_fail(const char *fmt, unsigned long a, unsigned long b) {
    if (!g_inv[0]) { snprintf(g_inv, sizeof g_inv, fmt, a, b); for (char *q = g_inv; *q; q++) if (*q == ' ') *q = '_'; }
}

static int lim_step(VmState *vm) {
    g_steps++;
    note_growth(vm);
    uint32_t fc = vm->frame_count;
    if (fc < 1 || fc > VM_MAX_FRAMES) inv_fail("frame_count %lu outside 1..%lu", fc, VM_MAX_FRAMES);
    else {
        if (g_prev_frames >= 0) {
            int64_t d = (int64_t)fc - g_prev_frames;
            if (d > 1 || d < -1) inv_fail("frame_count moved from %lu to %lu in one instruction", (unsigned long)g_prev_frames, fc);
        }
        const VmCallFrame *top = &vm->frames[fc - 1];
        if (top->fn_idx != vm->current_fn) inv_fail("top frame fn %lu but current_fn %lu", top->fn_idx, vm->current_fn);
        if (top->module != vm->module) inv_fail("top frame module differs from vm->module (frame %lu)%lu", fc, 0);
    }
    g_prev_frames = fc;
    if (!vm->stack || vm->stack_size > vm->stack_capacity) inv_fail("stack_size %lu > stack_capacity %lu", vm->stack_size, vm->stack_capacity);
    if (!vm->module || vm->current_fn >= vm->module->function_count) inv_fail("current_fn %lu >= function_count %lu", vm->current_fn, vm->module ? vm->module->function_count : 0);
    else {
        const NvmFunctionEntry *fn = &vm->module->functions[vm->current_fn];
        if (vm->ip < fn->code_offset || vm->ip >= fn->code_offset + fn->code_length)
            inv_fail("ip %lu outside the current function (fn %lu)", vm->ip, vm->current_fn);
    }
    if (vm->global_count > VM_MAX_GLOBALS) inv_fail("global_count %lu > %lu", vm->global_count, VM_MAX_GLOBALS);
    if (fc > g_maxframes) g_maxframes = fc;
    if (vm->stack_size > g_maxstack) g_maxstack = vm->stack_size;
    if (g_inv[0]) return 0;            /* stop at the first broken invariant: the state is not trustworthy */
    g_last_op = (vm->module && vm->ip < vm->module->code_size) ? vm->module->code[vm->ip] : -1;
    return --g_fuel_left >= 0;
}

/* ---------------------------------------------------------------- one case (child side) */
static void run_case(uint64_t idx, const char *flags, char *spec) {
    char *files[8]; int nf = 0;
    for (char *t = strtok(spec, ","); t && nf < 8; t = strtok(NULL, ",")) files[nf++] = t;
    NvmModule *mods[8] = {0};
    g_phase[0] = 1;
    for (int i = 0; i < nf; i++) {
        uint32_t sz; uint8_t *b = read_file(files[i], &sz);
        uint8_t *exact = malloc(sz ? sz : 1); memcpy(exact, b, sz); free(b);
        mods[i] = nvm_deserialize(exact, sz);
        free(exact);
        if (!mods[i]) { printf("CASE %llu st=noload file=%d\n", (unsigned long long)idx, i); return; }
    }
    g_phase[0] = 2;
    for (int i = 0; i < nf; i++) {
        NvmVerifyResult vr = nvm_verify(mods[i]);
        if (!vr.ok) {
            printf("CASE %llu st=noverify file=%d msg=", (unsigned long long)idx, i);
            put_hex(stdout, vr.error_msg, strlen(vr.error_msg)); printf("\n"); return;
        }
        if (mods[i]->import_count) { printf("CASE %llu st=imports file=%d\n", (unsigned long long)idx, i); return; }
    }
    NvmModule *m = mods[0];
    g_phase[0] = 3;
    VmState *vm = calloc(1, sizeof *vm);
    vm_init(vm, m);
    if (strchr(flags, 'S')) vm_link_module(vm, m);
    for (int i = 1; i < nf; i++) vm_link_module(vm, mods[i]);
    char *obuf = NULL; size_t olen = 0;
    FILE *out = open_memstream(&obuf, &olen);
    vm->output = out;
    g_fuel_left = g_fuel; g_steps = 0; g_maxframes = 0; g_maxstack = 0; g_prev_frames = -1; g_inv[0] = 0;
    g_last_op = -2; g_prev_cap = vm->stack_capacity; g_grow[0] = 0;
    nl_verif_vm_step = lim_step;
    VmResult r = vm_execute(vm);
    nl_verif_vm_step = NULL;
    note_growth(vm);
    fflush(out);
    NanoValue res = vm_get_result(vm);
    printf("CASE %llu st=ok res=%d tag=%d ival=%lld steps=%lu fuelout=%d maxframes=%u maxstack=%u frames_left=%u lastop=%d grow=%s inv=%s msg=",
           (unsigned long long)idx, (int)r, (int)res.tag, res.tag == TAG_INT ? (long long)res.as.i64 : 0LL,
           g_steps, g_fuel_left < 0, g_maxframes, g_maxstack, vm->frame_count, g_last_op, g_grow[0] ? g_grow : "-", g_inv[0] ? g_inv : "-");
    put_hex(stdout, vm->error_msg, r == VM_OK ? 0 : strlen(vm->error_msg));
    printf(" out="); put_hex(stdout, obuf, olen);
    if (strchr(flags, 'R') && !g_inv[0]) {
        /* host re-entry on the same VmState: frames the failed run left behind stay live */
        g_phase[0] = 5;
        uint32_t before = vm->frame_count;
        g_fuel_left = 2000; g_prev_frames = -1; g_maxframes = 0;
        nl_verif_vm_step = lim_step;
        VmResult r2 = vm_call_function(vm, m->header.entry_point, NULL, 0);
        nl_verif_vm_step = NULL;
        printf(" re_before=%u re_res=%d re_inv=%s re_maxframes=%u re_msg=", before, (int)r2, g_inv[0] ? g_inv : "-", g_maxframes);
        put_hex(stdout, vm->error_msg, r2 == VM_OK ? 0 : strlen(vm->error_msg));
    }
    printf("\n");
    fflush(stdout);
    g_phase[0] = 4;
    /* frames left behind by an error hold no references of their own; vm_destroy releases stack + globals */
    if (vm->frame_count <= VM_MAX_FRAMES) vm_destroy(vm);
    fclose(out); free(obuf);
    free(vm);
    for (int i = 0; i < nf; i++) nvm_module_free(mods[i]);
    g_phase[0] = 0;
}

static int cmd_run(int argc, char **argv) {
    if (argc < 4) { fprintf(stderr, "run <fuel> <listfile> <lo> <hi>\n"); return 3; }
    g_fuel = atol(argv[0]);
    uint32_t lsz; char *lt = (char *)read_file(argv[1], &lsz);
    lt = realloc(lt, lsz + 1); lt[lsz] = 0;
    uint64_t cap = 256, n = 0; char **lines = malloc(cap * sizeof(char *));
    for (char *l = lt; *l; ) { if (n == cap) { cap *= 2; lines = realloc(lines, cap * sizeof(char *)); } lines[n++] = l; char *e = strchr(l, '\n'); if (!e) break; *e = 0; l = e + 1; }
    uint64_t lo = strtoull(argv[2], NULL, 10), hi = strtoull(argv[3], NULL, 10);
    if (hi == 0 || hi > n) hi = n;
    g_phase = mmap(NULL, 4096, PROT_READ | PROT_WRITE, MAP_SHARED | MAP_ANONYMOUS, -1, 0);
    if (g_phase == MAP_FAILED) { perror("mmap"); return 3; }
    const char *td = getenv("TMPDIR");
    for (uint64_t i = lo; i < hi; i++) {
        char *sp = strchr(lines[i], ' ');
        if (!sp) { fprintf(stderr, "bad list line %llu\n", (unsigned long long)i); return 3; }
        *sp = 0;
        fflush(stdout);
        char path[4096]; snprintf(path, sizeof path, "%s/c13lim.XXXXXX", td && *td ? td : "/tmp");
        int efd = mkstemp(path);
        if (efd >= 0) unlink(path);
        g_phase[0] = 0;
        pid_t p = fork();
        if (p < 0) { perror("fork"); return 3; }
        if (p == 0) {
            alarm(120);
            if (efd >= 0) {
                struct rlimit rl = {1 << 20, 1 << 20}; setrlimit(RLIMIT_FSIZE, &rl); signal(SIGXFSZ, SIG_IGN);
                dup2(efd, 2); close(efd);
            }
            run_case(i, lines[i], sp + 1);
            fflush(stdout);
            _exit(0);
        }
        int st = 0;
        while (waitpid(p, &st, 0) < 0) {}
        if (!(WIFEXITED(st) && WEXITSTATUS(st) == 0)) {
            /* the child may have printed its CASE line already (crash in vm_destroy): start a fresh line */
            printf("\nCASE %llu st=crash ", (unsigned long long)i);
            if (WIFSIGNALED(st)) printf("signal=%d", WTERMSIG(st)); else printf("exit=%d", WEXITSTATUS(st));
            printf(" phase=%d err=", g_phase[0]);
            char buf[6000]; ssize_t k = 0;
            if (efd >= 0) { lseek(efd, 0, SEEK_SET); k = read(efd, buf, sizeof buf); }
            put_hex(stdout, buf, k > 0 ? (size_t)k : 0);
            printf("\n");
        }
        if (efd >= 0) close(efd);
    }
    printf("DONE %llu\n", (unsigned long long)(hi - lo));
    return 0;
}

int main(int argc, char **argv) {
    setvbuf(stdout, NULL, _IOFBF, 1 << 16);
    if (argc < 2) { fprintf(stderr, "usage: c13_lim_probe limits | run ...\n"); return 3; }
    if (!strcmp(argv[1], "limits")) {
        printf("LIMITS VM_MAX_FRAMES=%d VM_STACK_INITIAL=%d VM_MAX_GLOBALS=%d NVM_MAX_STRINGS=%d NVM_MAX_FUNCTIONS=%d sizeof_frame=%d\n",
               VM_MAX_FRAMES, VM_STACK_INITIAL, VM_MAX_GLOBALS, NVM_MAX_STRINGS, NVM_MAX_FUNCTIONS, (int)sizeof(VmCallFrame));
        return 0;
    }
    if (!strcmp(argv[1], "run")) return cmd_run(argc - 2, argv + 2);
    fprintf(stderr, "unknown command %s\n", argv[1]);
    return 3;
}
