/*
 * nvm_probe - in-process driver for the NanoISA codec, NVM container, assembler,
 * disassembler, verifier and VM (properties C10-C13).  Linked against the tree's own
 * objects exactly like tests/nanovirt/test_codegen.c.
 *
 * Output protocol: one line per finding "FAIL <class> <details>", and a final
 * "STAT key=value ..." line.  Exit status 0 unless the probe itself is misused.
 * Crashes / sanitizer aborts are detected by the Python driver (it re-runs sub-ranges).
 */
#ifndef _GNU_SOURCE
#define _GNU_SOURCE
#endif
#include <stdio.h>
#include <stdlib.h>
#include <string.h>
#include <stdint.h>
#include <stdbool.h>
#include <unistd.h>
#include <sys/wait.h>
#include <signal.h>
#include "isa.h"
#include "nvm_format.h"
#include "assembler.h"
#include "disassembler.h"
#include "verifier.h"
#include "vm.h"

int g_argc = 0;
char **g_argv = NULL;

static unsigned long n_eval = 0, n_fail = 0;

static uint8_t *read_file(const char *p, uint32_t *sz) {
    FILE *f = fopen(p, "rb");
    if (!f) { fprintf(stderr, "cannot open %s\n", p); exit(3); }
    fseek(f, 0, SEEK_END); long n = ftell(f); fseek(f, 0, SEEK_SET);
    uint8_t *b = malloc(n ? n : 1);
    if (fread(b, 1, n, f) != (size_t)n) { exit(3); }
    fclose(f); *sz = (uint32_t)n; return b;
}

/* ------------------------------------------------------------------ C11 codec */
static uint32_t ref_opsize(OperandType t) {
    switch (t) { case OPERAND_U8: return 1; case OPERAND_U16: return 2; case OPERAND_U32: return 4;
                 case OPERAND_I32: return 4; case OPERAND_I64: return 8; case OPERAND_F64: return 8; default: return 0; }
}
static const uint64_t pat8[]  = {0, 1, 0x7F, 0x80, 0xFF, 0x55};
static const uint64_t pat16[] = {0, 1, 0x7F, 0x80, 0xFF, 0x100, 0x7FFF, 0x8000, 0xFFFF, 0x1234};
static const uint64_t pat32[] = {0, 1, 0x7F, 0x80, 0xFF, 0xFFFF, 0x10000, 0x7FFFFFFF, 0x80000000u, 0xFFFFFFFFu, 0x12345678, 0xFFFFFFFEu};
static const uint64_t pat64[] = {0, 1, 0xFFFFFFFFFFFFFFFFull, 0x7FFFFFFFFFFFFFFFull, 0x8000000000000000ull, 0x80, 0xFF,
                                 0xFFFFFFFFull, 0x100000000ull, 0x0123456789ABCDEFull, 0xFEDCBA9876543210ull,
                                 /* f64 patterns: -0, +inf, -inf, qNaN, sNaN w/ payload, denormal, max, 1.0 */
                                 0x8000000000000000ull, 0x7FF0000000000000ull, 0xFFF0000000000000ull, 0x7FF8000000000001ull,
                                 0x7FF0000000000001ull, 0xFFF8DEADBEEF0001ull, 0x0000000000000001ull, 0x7FEFFFFFFFFFFFFFull,
                                 0x3FF0000000000000ull};
#define N(a) ((int)(sizeof(a)/sizeof(a[0])))

static int npat(OperandType t) {
    switch (t) { case OPERAND_U8: return N(pat8); case OPERAND_U16: return N(pat16);
                 case OPERAND_U32: case OPERAND_I32: return N(pat32); default: return N(pat64); }
}
static uint64_t getpat(OperandType t, int i) {
    switch (t) { case OPERAND_U8: return pat8[i]; case OPERAND_U16: return pat16[i];
                 case OPERAND_U32: case OPERAND_I32: return pat32[i]; default: return pat64[i]; }
}
static void set_operand(DecodedInstruction *d, int slot, OperandType t, uint64_t bits) {
    switch (t) {
    case OPERAND_U8:  d->operands[slot].u8 = (uint8_t)bits; break;
    case OPERAND_U16: d->operands[slot].u16 = (uint16_t)bits; break;
    case OPERAND_U32: d->operands[slot].u32 = (uint32_t)bits; break;
    case OPERAND_I32: d->operands[slot].i32 = (int32_t)(uint32_t)bits; break;
    case OPERAND_I64: d->operands[slot].i64 = (int64_t)bits; break;
    case OPERAND_F64: memcpy(&d->operands[slot].f64, &bits, 8); break;
    default: break;
    }
}
static uint64_t get_operand_bits(const DecodedInstruction *d, int slot, OperandType t) {
    uint64_t b = 0;
    switch (t) {
    case OPERAND_U8:  return d->operands[slot].u8;
    case OPERAND_U16: return d->operands[slot].u16;
    case OPERAND_U32: return d->operands[slot].u32;
    case OPERAND_I32: return (uint32_t)d->operands[slot].i32;
    case OPERAND_I64: return (uint64_t)d->operands[slot].i64;
    case OPERAND_F64: memcpy(&b, &d->operands[slot].f64, 8); return b;
    default: return 0;
    }
}

/* argv: list of defined opcode values (decimal) parsed from isa.h by the driver */
static int cmd_c11(int argc, char **argv) {
    bool defined[256] = {0};
    for (int i = 0; i < argc; i++) defined[atoi(argv[i]) & 255] = true;
    unsigned long instrs = 0, truncs = 0, undef = 0;
    for (int op = 0; op < 256; op++) {
        const InstructionInfo *info = isa_get_info((uint8_t)op);
        if ((info != NULL) != defined[op]) {
            printf("FAIL table opcode=0x%02x header_defines=%d table_has=%d\n", op, defined[op], info != NULL); n_fail++;
        }
        if (!info) {
            /* undefined opcode byte: refused in every trailing context length 0..12, both fill bytes */
            for (int fill = 0; fill < 2; fill++)
            for (int ctx = 0; ctx <= 12; ctx++) {
                uint8_t *buf = malloc(1 + ctx);           /* exact-size heap buffer: asan sees overreads */
                buf[0] = (uint8_t)op; memset(buf + 1, fill ? 0xFF : 0x00, ctx);
                DecodedInstruction d; memset(&d, 0xAA, sizeof d);
                uint32_t r = isa_decode(buf, 1 + ctx, &d);
                n_eval++; undef++;
                if (r != 0) { printf("FAIL undef-decoded opcode=0x%02x ctx=%d ret=%u\n", op, ctx, r); n_fail++; }
                DecodedInstruction e; memset(&e, 0, sizeof e); e.opcode = (uint8_t)op;
                uint8_t out[ISA_MAX_INSTRUCTION_SIZE];
                if (isa_encode(&e, out, sizeof out) != 0) { printf("FAIL undef-encoded opcode=0x%02x\n", op); n_fail++; }
                free(buf);
            }
            continue;
        }
        if (info->opcode != op) { printf("FAIL table-opcode-field opcode=0x%02x field=0x%02x\n", op, info->opcode); n_fail++; }
        int nop = info->operand_count;
        int idx[MAX_OPERANDS] = {0};
        int lim[MAX_OPERANDS] = {1, 1, 1, 1};
        uint32_t reflen = 1;
        for (int i = 0; i < nop; i++) { lim[i] = npat(info->operands[i]); reflen += ref_opsize(info->operands[i]); }
        for (;;) {
            /* build instruction + independent reference encoding (little-endian) */
            DecodedInstruction in; memset(&in, 0, sizeof in);
            in.opcode = (uint8_t)op; in.operand_count = (uint8_t)nop;
            uint8_t ref[64]; uint32_t rp = 0; ref[rp++] = (uint8_t)op;
            for (int i = 0; i < nop; i++) {
                OperandType t = info->operands[i];
                uint64_t bits = getpat(t, idx[i]);
                uint32_t sz = ref_opsize(t);
                if (sz < 8) bits &= ((1ull << (8 * sz)) - 1);
                set_operand(&in, i, t, bits); in.operand_types[i] = t;
                for (uint32_t b = 0; b < sz; b++) ref[rp++] = (uint8_t)(bits >> (8 * b));
            }
            instrs++; n_eval++;
            /* encode == reference */
            uint8_t *out = malloc(reflen);
            uint32_t w = isa_encode(&in, out, reflen);
            if (w != reflen || memcmp(out, ref, reflen) != 0) {
                printf("FAIL encode opcode=0x%02x(%s) wrote=%u want=%u\n", op, info->name, w, reflen); n_fail++;
            }
            /* encode into every smaller buffer is refused */
            for (uint32_t cut = 0; cut < reflen; cut++) {
                uint8_t *sm = malloc(cut ? cut : 1);
                uint32_t ww = isa_encode(&in, sm, cut);
                if (ww != 0) { printf("FAIL encode-small opcode=0x%02x cut=%u ret=%u\n", op, cut, ww); n_fail++; }
                free(sm);
            }
            /* decode(reference) == instruction, with trailing garbage present and absent */
            for (int trail = 0; trail < 2; trail++) {
                uint32_t tl = trail ? 5 : 0;
                uint8_t *buf = malloc(reflen + tl);
                memcpy(buf, ref, reflen); memset(buf + reflen, 0xEE, tl);
                DecodedInstruction d; memset(&d, 0xAA, sizeof d);
                uint32_t r = isa_decode(buf, reflen + tl, &d);
                bool ok = (r == reflen) && d.opcode == op && d.operand_count == nop && d.byte_length == reflen;
                for (int i = 0; ok && i < nop; i++) {
                    OperandType t = info->operands[i];
                    uint64_t bits = getpat(t, idx[i]); uint32_t sz = ref_opsize(t);
                    if (sz < 8) bits &= ((1ull << (8 * sz)) - 1);
                    if (d.operand_types[i] != t || get_operand_bits(&d, i, t) != bits) ok = false;
                }
                if (!ok) { printf("FAIL decode opcode=0x%02x(%s) ret=%u want=%u idx=%d,%d,%d\n", op, info->name, r, reflen, idx[0], idx[1], idx[2]); n_fail++; }
                else {
                    /* encode(decode(b)) == b */
                    uint8_t *o2 = malloc(reflen);
                    uint32_t w2 = isa_encode(&d, o2, reflen);
                    if (w2 != reflen || memcmp(o2, ref, reflen) != 0) { printf("FAIL reencode opcode=0x%02x(%s)\n", op, info->name); n_fail++; }
                    free(o2);
                }
                free(buf);
            }
            /* every truncation refused, never reads past the (exact-size) buffer */
            for (uint32_t cut = 0; cut < reflen; cut++) {
                uint8_t *buf = malloc(cut ? cut : 1);
                memcpy(buf, ref, cut);
                DecodedInstruction d; memset(&d, 0xAA, sizeof d);
                uint32_t r = isa_decode(buf, cut, &d);
                truncs++; n_eval++;
                if (r != 0) { printf("FAIL trunc-decoded opcode=0x%02x(%s) cut=%u/%u ret=%u\n", op, info->name, cut, reflen, r); n_fail++; }
                free(buf);
            }
            free(out);
            /* next operand pattern combination */
            int k = 0;
            while (k < MAX_OPERANDS) { if (++idx[k] < lim[k]) break; idx[k] = 0; k++; }
            if (k == MAX_OPERANDS) break;
        }
    }
    printf("STAT instrs=%lu truncations=%lu undef_cases=%lu evaluations=%lu fails=%lu\n", instrs, truncs, undef, n_eval, n_fail);
    return 0;
}

/* ------------------------------------------------------------------ module compare */
static int mod_diff(const NvmModule *a, const NvmModule *b, bool with_imports, char *why, size_t wn) {
#define D(...) do { snprintf(why, wn, __VA_ARGS__); return 1; } while (0)
    if (a->header.flags != b->header.flags) D("flags %u vs %u", a->header.flags, b->header.flags);
    if (a->header.entry_point != b->header.entry_point) D("entry %u vs %u", a->header.entry_point, b->header.entry_point);
    if (a->code_size != b->code_size) D("code_size %u vs %u", a->code_size, b->code_size);
    if (a->code_size && memcmp(a->code, b->code, a->code_size)) {
        uint32_t i = 0; while (a->code[i] == b->code[i]) i++;
        D("code byte %u: %02x vs %02x", i, a->code[i], b->code[i]);
    }
    if (a->string_count != b->string_count) D("string_count %u vs %u", a->string_count, b->string_count);
    for (uint32_t i = 0; i < a->string_count; i++) {
        if (a->string_lengths[i] != b->string_lengths[i]) D("string %u length %u vs %u", i, a->string_lengths[i], b->string_lengths[i]);
        if (memcmp(a->strings[i], b->strings[i], a->string_lengths[i])) D("string %u content", i);
    }
    if (a->function_count != b->function_count) D("function_count %u vs %u", a->function_count, b->function_count);
    for (uint32_t i = 0; i < a->function_count; i++) {
        const NvmFunctionEntry *x = &a->functions[i], *y = &b->functions[i];
        if (x->name_idx != y->name_idx) D("fn %u name_idx %u vs %u", i, x->name_idx, y->name_idx);
        if (x->arity != y->arity) D("fn %u arity %u vs %u", i, x->arity, y->arity);
        if (x->code_offset != y->code_offset) D("fn %u code_offset %u vs %u", i, x->code_offset, y->code_offset);
        if (x->code_length != y->code_length) D("fn %u code_length %u vs %u", i, x->code_length, y->code_length);
        if (x->local_count != y->local_count) D("fn %u local_count %u vs %u", i, x->local_count, y->local_count);
        if (x->upvalue_count != y->upvalue_count) D("fn %u upvalue_count %u vs %u", i, x->upvalue_count, y->upvalue_count);
    }
    if (with_imports) {
        if (a->import_count != b->import_count) D("import_count %u vs %u", a->import_count, b->import_count);
        for (uint32_t i = 0; i < a->import_count; i++) {
            const NvmImportEntry *x = &a->imports[i], *y = &b->imports[i];
            if (x->module_name_idx != y->module_name_idx || x->function_name_idx != y->function_name_idx ||
                x->param_count != y->param_count || x->return_type != y->return_type) D("import %u fields", i);
            if (x->param_count && (!a->import_param_types[i] || !b->import_param_types[i] ||
                memcmp(a->import_param_types[i], b->import_param_types[i], x->param_count))) D("import %u param types", i);
        }
        if (a->debug_count != b->debug_count) D("debug_count %u vs %u", a->debug_count, b->debug_count);
        for (uint32_t i = 0; i < a->debug_count; i++)
            if (a->debug_entries[i].bytecode_offset != b->debug_entries[i].bytecode_offset ||
                a->debug_entries[i].source_line != b->debug_entries[i].source_line) D("debug %u", i);
    }
    return 0;
#undef D
}

/* asmrt <file.nvm>...: assemble(disassemble(m)) == m on code, functions, strings */
static int cmd_asmrt(int argc, char **argv) {
    for (int i = 0; i < argc; i++) {
        uint32_t sz; uint8_t *b = read_file(argv[i], &sz);
        NvmModule *m = nvm_deserialize(b, sz);
        n_eval++;
        if (!m) { printf("FAIL asmrt-load %s\n", argv[i]); n_fail++; free(b); continue; }
        char *txt = disasm_module(m);
        if (!txt) { printf("FAIL asmrt-disasm-null %s\n", argv[i]); n_fail++; nvm_module_free(m); free(b); continue; }
        AsmResult res; memset(&res, 0, sizeof res);
        NvmModule *m2 = asm_assemble(txt, &res);
        if (!m2) { printf("FAIL asmrt-assemble %s line=%u err=%d msg=%s\n", argv[i], res.line, res.error, res.message); n_fail++; }
        else {
            char why[256]; why[0] = 0;
            int bad = 0, layout = 0;
            /* flags: the text form carries .entry (HAS_MAIN); the other flag bits are not part of the claim */
            if ((m->header.flags & NVM_FLAG_HAS_MAIN) != (m2->header.flags & NVM_FLAG_HAS_MAIN)) { bad = 1; snprintf(why, sizeof why, "HAS_MAIN flag"); }
            else if ((m->header.flags & NVM_FLAG_HAS_MAIN) && m->header.entry_point != m2->header.entry_point) { bad = 1; snprintf(why, sizeof why, "entry point %u vs %u", m->header.entry_point, m2->header.entry_point); }
            else if (m->string_count != m2->string_count) { bad = 1; snprintf(why, sizeof why, "string_count %u vs %u", m->string_count, m2->string_count); }
            else if (m->function_count != m2->function_count) { bad = 1; snprintf(why, sizeof why, "function_count %u vs %u", m->function_count, m2->function_count); }
            else if (m->code_size != m2->code_size) { bad = 1; snprintf(why, sizeof why, "code_size %u vs %u", m->code_size, m2->code_size); }
            for (uint32_t k = 0; !bad && k < m->string_count; k++)
                if (m->string_lengths[k] != m2->string_lengths[k] || memcmp(m->strings[k], m2->strings[k], m->string_lengths[k])) { bad = 1; snprintf(why, sizeof why, "string %u", k); }
            for (uint32_t k = 0; !bad && k < m->function_count; k++) {
                const NvmFunctionEntry *x = &m->functions[k], *y = &m2->functions[k];
                if (x->name_idx != y->name_idx || x->arity != y->arity || x->local_count != y->local_count ||
                    x->upvalue_count != y->upvalue_count || x->code_length != y->code_length) { bad = 1; snprintf(why, sizeof why, "function %u table fields", k); }
                else if ((uint64_t)x->code_offset + x->code_length > m->code_size || (uint64_t)y->code_offset + y->code_length > m2->code_size) { bad = 1; snprintf(why, sizeof why, "function %u range", k); }
                else if (memcmp(m->code + x->code_offset, m2->code + y->code_offset, x->code_length)) {
                    uint32_t q = 0; while (m->code[x->code_offset + q] == m2->code[y->code_offset + q]) q++;
                    bad = 1; snprintf(why, sizeof why, "function %u code byte +%u: %02x vs %02x", k, q, m->code[x->code_offset + q], m2->code[y->code_offset + q]);
                }
                else if (x->code_offset != y->code_offset) layout = 1;
            }
            if (!bad && !layout && m->code_size && memcmp(m->code, m2->code, m->code_size)) { bad = 1; snprintf(why, sizeof why, "code section bytes outside functions"); }
            if (bad) { printf("FAIL asmrt-diff %s %s\n", argv[i], why); n_fail++; }
            else if (layout) {
                /* Same per-function code, different placement inside the code section.  Recognise exactly one
                 * cause: the compiler places function bodies in compile order (__init__, program functions,
                 * imported-module functions) while the table is in registration order; the original layout
                 * must still be a gap-free, overlap-free tiling of the whole code section. */
                uint32_t nfn = m->function_count, covered = 0; int tiling = 1;
                for (uint32_t pos = 0; tiling && pos < m->code_size; ) {
                    int found = 0;
                    for (uint32_t k = 0; k < nfn; k++)
                        if (m->functions[k].code_offset == pos && m->functions[k].code_length > 0) { pos += m->functions[k].code_length; covered++; found = 1; break; }
                    if (!found) tiling = 0;
                }
                uint32_t nonempty = 0;
                for (uint32_t k = 0; k < nfn; k++) if (m->functions[k].code_length > 0) nonempty++;
                if (tiling && covered == nonempty) printf("KNOWN asm-layout-order %s\n", argv[i]);
                else { printf("FAIL asmrt-layout %s function placement differs and original is not a tiling\n", argv[i]); n_fail++; }
            }
            if (!bad) {
                /* second generation text must be identical (fixpoint) */
                char *txt2 = disasm_module(m2);
                if (!txt2 || strcmp(txt, txt2)) { printf("FAIL asmrt-text-fixpoint %s\n", argv[i]); n_fail++; }
                free(txt2);
            }
            nvm_module_free(m2);
        }
        free(txt); nvm_module_free(m); free(b);
    }
    printf("STAT evaluations=%lu fails=%lu\n", n_eval, n_fail);
    return 0;
}

/* rt <file.nvm>...: deserialize(serialize(m)) == m field-wise; serialize idempotent; file bytes == serialize(load(file)) */
static int cmd_rt(int argc, char **argv) {
    for (int i = 0; i < argc; i++) {
        uint32_t sz; uint8_t *b = read_file(argv[i], &sz);
        NvmModule *m = nvm_deserialize(b, sz);
        n_eval++;
        if (!m) { printf("FAIL rt-load %s\n", argv[i]); n_fail++; free(b); continue; }
        uint32_t s1 = 0; uint8_t *b1 = nvm_serialize(m, &s1);
        if (!b1) { printf("FAIL rt-serialize-null %s\n", argv[i]); n_fail++; }
        else {
            if (s1 != sz || memcmp(b1, b, sz)) { printf("FAIL rt-bytes %s size %u vs %u\n", argv[i], s1, sz); n_fail++; }
            NvmModule *m2 = nvm_deserialize(b1, s1);
            if (!m2) { printf("FAIL rt-reload %s\n", argv[i]); n_fail++; }
            else {
                char why[256];
                if (mod_diff(m, m2, true, why, sizeof why)) { printf("FAIL rt-diff %s %s\n", argv[i], why); n_fail++; }
                uint32_t s2 = 0; uint8_t *b2 = nvm_serialize(m2, &s2);
                if (!b2 || s2 != s1 || memcmp(b1, b2, s1)) { printf("FAIL rt-idempotent %s\n", argv[i]); n_fail++; }
                free(b2); nvm_module_free(m2);
            }
            free(b1);
        }
        nvm_module_free(m); free(b);
    }
    printf("STAT evaluations=%lu fails=%lu\n", n_eval, n_fail);
    return 0;
}

#include "nvm_probe_more.h"

int main(int argc, char **argv) {
    setvbuf(stdout, NULL, _IOLBF, 0);
    if (argc < 2) { fprintf(stderr, "usage: nvm_probe <cmd> ...\n"); return 3; }
    const char *c = argv[1];
    if (!strcmp(c, "c11")) return cmd_c11(argc - 2, argv + 2);
    if (!strcmp(c, "asmrt")) return cmd_asmrt(argc - 2, argv + 2);
    if (!strcmp(c, "rt")) return cmd_rt(argc - 2, argv + 2);
    return more_main(argc, argv);
}
