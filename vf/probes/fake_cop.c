/*
 * fake_cop.c - scripted stand-in for nano_cop (check C16).
 *
 * Installed under the name `nano_cop` first on PATH, so `nano_vm --isolate-ffi` launches it
 * instead of the real co-process.  It speaks the protocol correctly by *delegating to the real
 * nano_cop* (spawned as a child, every message is parsed and relayed) until the scripted step,
 * then injects exactly one fault.  Constants come from the tree's own cop_protocol.h.
 *
 * Environment:
 *   FAKE_COP_REAL    path of the real nano_cop
 *   FAKE_COP_DIR     case directory: `launches` (one line per launch) and `log` (append only)
 *   FAKE_COP_SCRIPT  ';'-separated list, entry n scripts the n-th launch:  step,k,fault,after
 *                    (empty entry or no entry = pure relay)
 *   FAKE_COP_LINGER_MS  how long close_stdin / close_both keep running before exiting (default 1000)
 *
 * Steps:   pre_ready   INIT read and forwarded, READY of the real cop received, nothing sent yet
 *          post_ready  READY delivered, nothing read since
 *          req_hdr     header of the k-th request read (payload completely in the pipe, unread)
 *          req_full    k-th request read completely, not forwarded
 *          pre_reply   real reply to the k-th request obtained, nothing sent
 *          mid_hdr     only the header of the k-th reply sent
 *          mid_half    header and half the payload of the k-th reply sent
 *          post_reply  k-th reply delivered, nothing read since
 *          init_unread only the INIT header read while the VM is still blocked writing a large INIT payload
 * For post_ready/post_reply the fault is *completed before the VM can see the preceding message*
 * (stdin is closed first, or a helper process delivers the message after this process has become
 * a zombie), so every cell is deterministic: the VM cannot race the fault.
 *
 * Process faults: exit0 exit1 sigkill sigsegv close_stdin close_stdout close_both
 * Message faults (pre_ready / pre_reply): see message_fault(); `after` = exit | serve | linger.
 * `exit`   = the process is already dead when the VM sees the bad message (delivered by the helper),
 * `serve`  = it carries on relaying as if nothing had happened,
 * `linger` = stop talking, keep the process alive (<= 20 s) until SIGTERM - a wedged co-process.
 */
#ifndef _GNU_SOURCE
#define _GNU_SOURCE
#endif
#include "cop_protocol.h"

#include <errno.h>
#include <fcntl.h>
#include <signal.h>
#include <stdarg.h>
#include <stdio.h>
#include <stdlib.h>
#include <string.h>
#include <sys/ioctl.h>
#include <sys/prctl.h>
#include <sys/resource.h>
#include <sys/wait.h>
#include <time.h>
#include <unistd.h>

static int log_fd = -1;
static int launch_no = 0;
static pid_t real_pid = -1;
static int real_in = -1, real_out = -1;     /* we write real_in, read real_out */
static int linger_ms = 1000;

static char s_step[32] = "", s_fault[48] = "", s_after[16] = "";
static int s_k = 0;
static int armed = 0;
static uint32_t pending_payload = 0;   /* req_hdr: bytes of the current request still unread */

static void logf_(const char *fmt, ...) {
    char b[20000];
    va_list ap;
    va_start(ap, fmt);
    int n = vsnprintf(b, sizeof b - 1, fmt, ap);
    va_end(ap);
    if (n < 0) return;
    if (n > (int)sizeof b - 2) n = sizeof b - 2;
    b[n++] = '\n';
    if (log_fd >= 0) { ssize_t w = write(log_fd, b, (size_t)n); (void)w; }
}

static void msleep(int ms) {
    struct timespec ts = { ms / 1000, (long)(ms % 1000) * 1000000L };
    while (nanosleep(&ts, &ts) != 0 && errno == EINTR) {}
}

static void kill_real(void) {
    if (real_pid > 0) {
        if (real_in >= 0) { close(real_in); real_in = -1; }
        if (real_out >= 0) { close(real_out); real_out = -1; }
        kill(real_pid, SIGKILL);
        int st;
        while (waitpid(real_pid, &st, 0) < 0 && errno == EINTR) {}
        real_pid = -1;
    }
}

static void die(int code, const char *why) {
    logf_("END %d %s", launch_no, why);
    kill_real();
    _exit(code);
}

static int rd_all(int fd, void *buf, size_t n) {
    uint8_t *p = buf;
    while (n) {
        ssize_t r = read(fd, p, n);
        if (r < 0) { if (errno == EINTR) continue; return 0; }
        if (r == 0) return 0;
        p += r; n -= (size_t)r;
    }
    return 1;
}

static int wr_all(int fd, const void *buf, size_t n) {
    const uint8_t *p = buf;
    while (n) {
        ssize_t r = write(fd, p, n);
        if (r < 0) { if (errno == EINTR) continue; return 0; }
        p += r; n -= (size_t)r;
    }
    return 1;
}

static int capture = 0;          /* collect instead of writing: the bytes are delivered after our death */
static uint8_t *cap_buf = NULL;
static size_t cap_len = 0;

static void out(const void *buf, size_t n) {
    if (capture) {
        cap_buf = realloc(cap_buf, cap_len + n + 1);
        if (!cap_buf) die(3, "HARNESS oom");
        memcpy(cap_buf + cap_len, buf, n);
        cap_len += n;
        return;
    }
    if (!wr_all(1, buf, n)) die(0, "vm-side write failed (VM closed its end)");
}

static void mk_hdr(uint8_t *h, uint8_t ver, uint8_t type, uint32_t len) {
    memset(h, 0, COP_HEADER_SIZE);
    h[0] = ver; h[1] = type;
    memcpy(h + 4, &len, 4);
}

static void send_msg(uint8_t type, const void *pay, uint32_t len) {
    uint8_t h[COP_HEADER_SIZE];
    mk_hdr(h, COP_PROTO_VERSION, type, len);
    out(h, COP_HEADER_SIZE);
    if (len) out(pay, len);
}

/* ------------------------------------------------------------------ after-behaviours */
static void linger_forever(void) {
    /* a wedged co-process: talks to nobody, dies on SIGTERM (default action); bounded so that a
     * harness accident can never leave it around for long */
    logf_("LINGER %d", launch_no);
    kill_real();                /* stdin stays open: a wedged process closes nothing */
    for (int i = 0; i < 200; i++) msleep(100);
    die(0, "linger expired");
}

static void serve(int stdout_open);

static void do_after(int stdout_closed) {
    if (strcmp(s_after, "exit") == 0) die(0, "after=exit");
    if (strcmp(s_after, "linger") == 0) { if (stdout_closed) close(1); linger_forever(); }
    if (stdout_closed) { close(1); }
    serve(!stdout_closed);
    die(0, "served to the end");
}

/* ------------------------------------------------------------------ process faults */
static int is_process_fault(const char *f) {
    return !strcmp(f, "exit0") || !strcmp(f, "exit1") || !strcmp(f, "sigkill") || !strcmp(f, "sigsegv") ||
           !strcmp(f, "close_stdin") || !strcmp(f, "close_stdout") || !strcmp(f, "close_both");
}

static void die_now(const char *f) {
    kill_real();
    /* The kernel releases the descriptors of a dying process in no particular order (deferred
     * fput), so the VM could see EOF on our stdout while our stdin is still open for a few
     * microseconds, or the other way round.  Fix the order: stdin first.  (The other order is what
     * the close_stdout fault produces.) */
    close(0);
    if (!strcmp(f, "exit0")) _exit(0);
    if (!strcmp(f, "exit1")) _exit(1);
    if (!strcmp(f, "sigkill")) { kill(getpid(), SIGKILL); for (;;) pause(); }
    if (!strcmp(f, "sigsegv")) { signal(SIGSEGV, SIG_DFL); kill(getpid(), SIGSEGV); for (;;) pause(); }
    _exit(99);
}

/* VM is blocked reading from us (or blocked writing a large INIT): just do it. */
static void process_fault_blocked(void) {
    const char *f = s_fault;
    logf_("INJECTED %d %s %d %s %s", launch_no, s_step, s_k, s_fault, s_after);
    if (!strcmp(f, "close_stdin")) {
        close(0); kill_real(); msleep(linger_ms); die(0, "close_stdin lingered");
    } else if (!strcmp(f, "close_both")) {
        close(0); close(1); kill_real(); msleep(linger_ms); die(0, "close_both lingered");
    } else if (!strcmp(f, "close_stdout")) {
        close(1);
        while (pending_payload) {               /* stay in step with the VM's byte stream */
            uint8_t junk[4096];
            uint32_t c = pending_payload < sizeof junk ? pending_payload : (uint32_t)sizeof junk;
            if (!rd_all(0, junk, c)) die(0, "EOF from VM inside a payload");
            pending_payload -= c;
        }
        serve(0);
        die(0, "served after close_stdout");
    }
    die_now(f);
}

static void deliver_after_death(const uint8_t *msg, size_t len, const char *how);

/* Deliver `msg` (a complete, correct message) such that the fault is complete before the VM sees it. */
static void process_fault_after_message(const uint8_t *msg, size_t len) {
    const char *f = s_fault;
    if (!strcmp(f, "close_stdin")) {
        close(0);
        logf_("INJECTED %d %s %d %s %s", launch_no, s_step, s_k, s_fault, s_after);
        out(msg, len);
        kill_real(); msleep(linger_ms); die(0, "close_stdin lingered");
    } else if (!strcmp(f, "close_both")) {
        close(0);
        logf_("INJECTED %d %s %d %s %s", launch_no, s_step, s_k, s_fault, s_after);
        out(msg, len);
        close(1);
        kill_real(); msleep(linger_ms); die(0, "close_both lingered");
    } else if (!strcmp(f, "close_stdout")) {
        logf_("INJECTED %d %s %d %s %s", launch_no, s_step, s_k, s_fault, s_after);
        out(msg, len);
        close(1);
        serve(0);
        die(0, "served after close_stdout");
    }
    deliver_after_death(msg, len, f);
}

/* death faults: a helper delivers the bytes once this process is a zombie, then goes away itself */
static void deliver_after_death(const uint8_t *msg, size_t len, const char *f) {
    int p[2];
    if (pipe(p) != 0) die(3, "HARNESS pipe failed");
    pid_t me = getpid();
    pid_t h = fork();
    if (h < 0) die(3, "HARNESS fork failed");
    if (h == 0) {
        close(p[1]); close(0);
        if (real_in >= 0) close(real_in);
        if (real_out >= 0) close(real_out);
        char c;
        while (read(p[0], &c, 1) < 0 && errno == EINTR) {}
        char path[64];
        snprintf(path, sizeof path, "/proc/%d/stat", (int)me);
        for (int i = 0; i < 25000; i++) {           /* <= 5 s */
            char sb[512];
            int fd = open(path, O_RDONLY);
            if (fd < 0) break;                      /* already reaped */
            ssize_t n = read(fd, sb, sizeof sb - 1);
            close(fd);
            if (n <= 0) break;
            sb[n] = 0;
            char *rp = strrchr(sb, ')');
            if (rp && rp[1] == ' ' && (rp[2] == 'Z' || rp[2] == 'X')) break;
            struct timespec ts = { 0, 200000 };
            nanosleep(&ts, NULL);
        }
        wr_all(1, msg, len);
        _exit(0);
    }
    close(p[0]);
    logf_("INJECTED %d %s %d %s %s", launch_no, s_step, s_k, s_fault, s_after);
    die_now(f);
}

/* ------------------------------------------------------------------ message faults */
/* The correct message is (type, pay, len).  Returns after emitting the faulty bytes; *need_eof is set
 * when the VM would otherwise wait forever for bytes that never come (then stdout is closed). */
static int message_fault(uint8_t type, const uint8_t *pay, uint32_t len, int *need_eof) {
    const char *f = s_fault;
    uint8_t h[COP_HEADER_SIZE];
    uint8_t v[64];
    unsigned n;
    *need_eof = 0;
    mk_hdr(h, COP_PROTO_VERSION, type, len);

    if (sscanf(f, "short_hdr_%u", &n) == 1 && n >= 1 && n < COP_HEADER_SIZE) {
        out(h, n); *need_eof = 1; return 1;
    }
    if (sscanf(f, "version_%u", &n) == 1) {
        h[0] = (uint8_t)n; out(h, COP_HEADER_SIZE); if (len) out(pay, len); return 1;
    }
    if (sscanf(f, "type_%x", &n) == 1) {            /* any other message type, same payload */
        h[1] = (uint8_t)n; out(h, COP_HEADER_SIZE); if (len) out(pay, len); return 1;
    }
    if (!strcmp(f, "type_swapped")) {               /* RESULT where READY is due, READY where a reply is due */
        if (type == COP_MSG_READY) {
            v[0] = TAG_INT; memset(v + 1, 0, 8); v[1] = 1;
            send_msg(COP_MSG_FFI_RESULT, v, 9);
        } else {
            send_msg(COP_MSG_READY, NULL, 0);
        }
        return 1;
    }
    if (!strcmp(f, "reserved_ffff")) {
        h[2] = 0xFF; h[3] = 0xFF; out(h, COP_HEADER_SIZE); if (len) out(pay, len); return 1;
    }
    if (!strcmp(f, "len_max_plus1")) {
        mk_hdr(h, COP_PROTO_VERSION, type, (uint32_t)COP_MAX_PAYLOAD + 1u); out(h, COP_HEADER_SIZE); return 1;
    }
    if (!strcmp(f, "len_ffffffff")) {
        mk_hdr(h, COP_PROTO_VERSION, type, 0xFFFFFFFFu); out(h, COP_HEADER_SIZE); return 1;
    }
    if (!strcmp(f, "len_max_short")) {              /* announces the maximum, delivers the real payload, EOF */
        mk_hdr(h, COP_PROTO_VERSION, type, (uint32_t)COP_MAX_PAYLOAD); out(h, COP_HEADER_SIZE);
        if (len) out(pay, len);
        *need_eof = 1;
        return 1;
    }
    if (!strcmp(f, "short_payload")) {              /* announces 16 bytes more than it delivers, EOF */
        mk_hdr(h, COP_PROTO_VERSION, type, len + 16u); out(h, COP_HEADER_SIZE);
        if (len) out(pay, len);
        *need_eof = 1;
        return 1;
    }
    if (!strcmp(f, "long_payload")) {               /* correct message followed by 64 bytes nobody announced */
        out(h, COP_HEADER_SIZE); if (len) out(pay, len);
        memset(v, 0xA5, 64); out(v, 64); return 1;
    }
    if (!strcmp(f, "ready_payload")) {              /* READY that carries 16 payload bytes */
        mk_hdr(h, COP_PROTO_VERSION, type, 16); out(h, COP_HEADER_SIZE);
        memset(v, 0xA5, 16); out(v, 16); return 1;
    }
    if (!strcmp(f, "ready_twice")) {
        out(h, COP_HEADER_SIZE); out(h, COP_HEADER_SIZE); return 1;
    }
    if (!strcmp(f, "garbage8")) {
        memset(v, 0xA5, 8); out(v, 8); return 1;
    }
    if (!strcmp(f, "garbage_text")) {
        const char *t = "nano_cop: loading shared library libfoo.so (this goes to stdout)\n";
        out(t, strlen(t)); return 1;
    }
    if (sscanf(f, "err_%u", &n) == 1) {             /* well-formed FFI_ERROR with an n-byte text */
        uint8_t *t = malloc(n ? n : 1);
        if (!t) die(3, "HARNESS oom");
        memset(t, 'E', n);
        send_msg(COP_MSG_FFI_ERROR, t, n);
        free(t);
        return 1;
    }
    if (!strcmp(f, "err_over_max")) {
        mk_hdr(h, COP_PROTO_VERSION, COP_MSG_FFI_ERROR, (uint32_t)COP_MAX_PAYLOAD + 1u); out(h, COP_HEADER_SIZE); return 1;
    }

    /* ---- undecodable / mistyped values in an otherwise well-formed FFI_RESULT */
    uint32_t u;
    uint32_t vl = 0;
    if (!strcmp(f, "val_bad_tag")) { v[0] = 0xEE; vl = 1; }
    else if (!strcmp(f, "val_unsupported_tag")) { v[0] = TAG_STRUCT; memset(v + 1, 0, 8); vl = 9; }
    else if (!strcmp(f, "val_empty")) { vl = 0; send_msg(COP_MSG_FFI_RESULT, v, 0); return 1; }
    else if (!strcmp(f, "val_int_trunc")) { v[0] = TAG_INT; memset(v + 1, 0, 4); vl = 5; }
    else if (sscanf(f, "val_str_len_%x", &n) == 1) {   /* 3 bytes of text, announced as n */
        v[0] = TAG_STRING; u = n; memcpy(v + 1, &u, 4); memcpy(v + 5, "abc", 3); vl = 8;
    }
    else if (!strcmp(f, "val_big_str_over")) {          /* too big for any stack buffer, and lying about its length */
        uint32_t bl = 10000;
        uint8_t *b = malloc(bl);
        if (!b) die(3, "HARNESS oom");
        memset(b, 'x', bl);
        b[0] = TAG_STRING; u = 20000; memcpy(b + 1, &u, 4);
        send_msg(COP_MSG_FFI_RESULT, b, bl);
        free(b);
        return 1;
    }
    else if (!strcmp(f, "val_str_len_plus1")) { v[0] = TAG_STRING; u = 4; memcpy(v + 1, &u, 4); memcpy(v + 5, "abc", 3); vl = 8; }
    else if (!strcmp(f, "val_str_no_len")) { v[0] = TAG_STRING; v[1] = 3; vl = 2; }
    else if (!strcmp(f, "val_arr_count_ffffffff")) { v[0] = TAG_ARRAY; v[1] = TAG_INT; u = 0xFFFFFFFFu; memcpy(v + 2, &u, 4); vl = 6; }
    else if (!strcmp(f, "val_arr_count_ffffffff_one")) {
        v[0] = TAG_ARRAY; v[1] = TAG_INT; u = 0xFFFFFFFFu; memcpy(v + 2, &u, 4);
        v[6] = TAG_INT; memset(v + 7, 0, 8); v[7] = 5; vl = 15;
    }
    else if (!strcmp(f, "val_arr_count_short")) {
        v[0] = TAG_ARRAY; v[1] = TAG_INT; u = 3; memcpy(v + 2, &u, 4);
        v[6] = TAG_INT; memset(v + 7, 0, 8); v[7] = 5; vl = 15;
    }
    else if (!strcmp(f, "val_arr_no_count")) { v[0] = TAG_ARRAY; v[1] = TAG_INT; v[2] = 1; vl = 3; }
    else if (!strcmp(f, "val_nested_trunc")) {
        /* [ [ INT(4 of 8 bytes) ... */
        v[0] = TAG_ARRAY; v[1] = TAG_ARRAY; u = 2; memcpy(v + 2, &u, 4);
        v[6] = TAG_ARRAY; v[7] = TAG_INT; u = 1; memcpy(v + 8, &u, 4);
        v[12] = TAG_INT; memset(v + 13, 0, 4); vl = 17;
    }
    else if (sscanf(f, "val_nest_%u", &n) == 1 || sscanf(f, "val_badsized_%u", &n) == 1) {
        /* val_nest_N: N nested one-element array headers around a truncated int (the decoder recurses per level);
         * val_badsized_N: an undecodable value (bad tag) in a reply of N bytes (buffers are chosen by size) */
        int nest = !strncmp(f, "val_nest_", 9);
        uint32_t bl = nest ? 6u * n + 5u : (n ? n : 1u);
        uint8_t *b = malloc(bl);
        if (!b) die(3, "HARNESS oom");
        if (nest) {
            for (uint32_t i = 0; i < n; i++) {
                b[6 * i] = TAG_ARRAY; b[6 * i + 1] = (i + 1 < n) ? TAG_ARRAY : TAG_INT; u = 1; memcpy(b + 6 * i + 2, &u, 4);
            }
            b[6 * n] = TAG_INT; memset(b + 6 * n + 1, 0, 4);
        } else {
            memset(b, 'x', bl);
            b[0] = 0xEE;
        }
        send_msg(COP_MSG_FFI_RESULT, b, bl);
        free(b);
        return 1;
    }
    else if (!strcmp(f, "val_wrong_type")) {
        /* a perfectly decodable value of another type than the one the call returns */
        if (len >= 1 && pay[0] == TAG_INT) { v[0] = TAG_STRING; u = 4; memcpy(v + 1, &u, 4); memcpy(v + 5, "oops", 4); vl = 9; }
        else { v[0] = TAG_INT; memset(v + 1, 0, 8); v[1] = 7; vl = 9; }
    }
    else if (!strcmp(f, "val_wrong_type2")) {
        if (len >= 1 && pay[0] == TAG_ARRAY) { v[0] = TAG_BOOL; v[1] = 1; vl = 2; }
        else { v[0] = TAG_ARRAY; v[1] = TAG_INT; u = 0; memcpy(v + 2, &u, 4); vl = 6; }
    }
    else return 0;
    send_msg(COP_MSG_FFI_RESULT, v, vl);
    return 1;
}

static void message_fault_and_after(uint8_t type, const uint8_t *pay, uint32_t len) {
    int need_eof = 0;
    if (strcmp(s_after, "exit") == 0) {
        /* "answers with a bad message and exits": the exit is complete before the VM can see the
         * message (exiting right after the write would race the VM's next write to us) */
        capture = 1;
        if (!message_fault(type, pay, len, &need_eof)) die(3, "HARNESS unknown fault");
        capture = 0;
        deliver_after_death(cap_buf, cap_len, "exit0");
    }
    logf_("INJECTED %d %s %d %s %s", launch_no, s_step, s_k, s_fault, s_after);
    if (!message_fault(type, pay, len, &need_eof)) die(3, "HARNESS unknown fault");
    do_after(need_eof);
}

/* ------------------------------------------------------------------ relay */
static int at(const char *step, int k) {
    return armed && s_k == k && strcmp(s_step, step) == 0;
}

static void hexlog(const char *what, int k, const uint8_t *p, uint32_t n) {
    char hex[2 * 256 + 1];
    uint32_t m = n > 256 ? 256 : n;
    for (uint32_t i = 0; i < m; i++) snprintf(hex + 2 * i, 3, "%02x", p[i]);
    hex[2 * m] = 0;
    logf_("%s %d %d %u %s", what, launch_no, k, n, hex);
}

/* Relay loop.  `vm_out` is 0 once our stdout has been closed (replies of the real cop are dropped). */
static void serve(int vm_out) {
    static int k = 0;            /* requests seen by this launch */
    static int ready_sent = 0;
    for (;;) {
        uint8_t h[COP_HEADER_SIZE];
        if (!rd_all(0, h, COP_HEADER_SIZE)) die(0, "EOF from VM");
        uint8_t type = h[1];
        uint32_t len;
        memcpy(&len, h + 4, 4);
        if (h[0] != COP_PROTO_VERSION || len > COP_MAX_PAYLOAD) die(0, "bad header from VM");

        if (type == COP_MSG_FFI_REQ) k++;

        if (type == COP_MSG_INIT && at("init_unread", 0)) {
            /* only meaningful when the VM cannot finish writing INIT: wait until the pipe is full */
            int avail = 0, last = -1, stable = 0;
            for (int i = 0; i < 5000 && stable < 20; i++) {
                ioctl(0, FIONREAD, &avail);
                if (avail == last && avail > 0) stable++; else stable = 0;
                last = avail;
                msleep(1);
            }
            if ((uint32_t)avail >= len) die(3, "HARNESS init_unread needs an INIT payload larger than the pipe");
            logf_("PIPEFULL %d %d of %u", launch_no, avail, len);
            armed = 0;
            process_fault_blocked();
        }
        if (type == COP_MSG_FFI_REQ && at("req_hdr", k)) {
            int avail = 0;
            for (int i = 0; i < 5000; i++) {
                ioctl(0, FIONREAD, &avail);
                if ((uint32_t)avail >= len) break;
                msleep(1);
            }
            if ((uint32_t)avail < len) die(3, "HARNESS request payload never arrived");
            armed = 0;
            pending_payload = len;
            process_fault_blocked();
        }

        uint8_t *pay = malloc(len ? len : 1);
        if (!pay) die(3, "HARNESS oom");
        if (len && !rd_all(0, pay, len)) die(0, "EOF from VM inside a payload");

        if (type == COP_MSG_SHUTDOWN) {
            logf_("SHUTDOWN %d", launch_no);
            if (real_pid > 0) {
                uint8_t sh[COP_HEADER_SIZE];
                mk_hdr(sh, COP_PROTO_VERSION, COP_MSG_SHUTDOWN, 0);
                wr_all(real_in, sh, COP_HEADER_SIZE);
                close(real_in); real_in = -1;
                int st;
                for (int i = 0; i < 300; i++) {              /* <= 3 s, then kill_real() in die() */
                    pid_t w = waitpid(real_pid, &st, WNOHANG);
                    if (w == real_pid) { real_pid = -1; break; }
                    msleep(10);
                }
            }
            die(0, "shutdown");
        }
        if (type == COP_MSG_FFI_REQ) {
            hexlog("REQ", k, pay, len);
            if (at("req_full", k)) { armed = 0; process_fault_blocked(); }
        }
        if (type != COP_MSG_INIT && type != COP_MSG_FFI_REQ) { free(pay); continue; }

        /* forward to the real co-process and fetch its answer */
        if (real_pid <= 0) die(0, "no real cop any more");
        signal(SIGPIPE, SIG_IGN);
        if (!wr_all(real_in, h, COP_HEADER_SIZE) || (len && !wr_all(real_in, pay, len))) die(3, "HARNESS real cop refused input");
        free(pay);
        uint8_t rh[COP_HEADER_SIZE];
        if (!rd_all(real_out, rh, COP_HEADER_SIZE)) die(3, "HARNESS real cop gave no answer");
        uint32_t rlen;
        memcpy(&rlen, rh + 4, 4);
        if (rh[0] != COP_PROTO_VERSION || rlen > COP_MAX_PAYLOAD) die(3, "HARNESS real cop sent a bad header");
        uint8_t *rp = malloc(rlen ? rlen : 1);
        if (!rp) die(3, "HARNESS oom");
        if (rlen && !rd_all(real_out, rp, rlen)) die(3, "HARNESS real cop sent a short payload");
        uint8_t rtype = rh[1];

        if (type == COP_MSG_INIT) {
            if (rtype != COP_MSG_READY) die(3, "HARNESS real cop did not say READY");
            logf_("READY %d", launch_no);
            if (!vm_out) { free(rp); continue; }
            if (at("pre_ready", 0)) {
                armed = 0;
                if (is_process_fault(s_fault)) process_fault_blocked();
                message_fault_and_after(rtype, rp, rlen);
            }
            if (at("post_ready", 0)) {
                armed = 0;
                process_fault_after_message(rh, COP_HEADER_SIZE);
            }
            out(rh, COP_HEADER_SIZE);
            if (rlen) out(rp, rlen);
            ready_sent = 1;
            free(rp);
            continue;
        }

        /* reply to the k-th request */
        hexlog("REPLY", k, rp, rlen);
        if (!vm_out) { free(rp); continue; }
        (void)ready_sent;
        if (at("pre_reply", k)) {
            armed = 0;
            if (is_process_fault(s_fault)) process_fault_blocked();
            message_fault_and_after(rtype, rp, rlen);
        }
        if (at("mid_hdr", k)) {
            if (rlen == 0) die(3, "HARNESS mid_hdr needs a reply with a payload");
            armed = 0;
            out(rh, COP_HEADER_SIZE);
            process_fault_blocked();
        }
        if (at("mid_half", k)) {
            if (rlen < 2) die(3, "HARNESS mid_half needs a reply payload of >= 2 bytes");
            armed = 0;
            out(rh, COP_HEADER_SIZE);
            out(rp, rlen / 2);
            process_fault_blocked();
        }
        if (at("post_reply", k)) {
            armed = 0;
            uint8_t *whole = malloc(COP_HEADER_SIZE + rlen);
            if (!whole) die(3, "HARNESS oom");
            memcpy(whole, rh, COP_HEADER_SIZE);
            memcpy(whole + COP_HEADER_SIZE, rp, rlen);
            process_fault_after_message(whole, COP_HEADER_SIZE + rlen);
        }
        out(rh, COP_HEADER_SIZE);
        if (rlen) out(rp, rlen);
        free(rp);
    }
}

int main(void) {
    struct rlimit rl = { 0, 0 };
    setrlimit(RLIMIT_CORE, &rl);
    signal(SIGPIPE, SIG_IGN);

    const char *dir = getenv("FAKE_COP_DIR");
    const char *real = getenv("FAKE_COP_REAL");
    const char *script = getenv("FAKE_COP_SCRIPT");
    if (getenv("FAKE_COP_LINGER_MS")) linger_ms = atoi(getenv("FAKE_COP_LINGER_MS"));
    if (!dir || !real) _exit(98);

    char path[4096];
    snprintf(path, sizeof path, "%s/log", dir);
    log_fd = open(path, O_WRONLY | O_APPEND | O_CREAT | O_CLOEXEC, 0644);
    snprintf(path, sizeof path, "%s/launches", dir);
    int lf = open(path, O_RDWR | O_APPEND | O_CREAT | O_CLOEXEC, 0644);
    if (lf < 0 || log_fd < 0) _exit(97);
    {
        char buf[8192];
        ssize_t n;
        int lines = 0;
        while ((n = read(lf, buf, sizeof buf)) > 0)
            for (ssize_t i = 0; i < n; i++) if (buf[i] == '\n') lines++;
        launch_no = lines + 1;
        int m = snprintf(buf, sizeof buf, "%d\n", (int)getpid());
        ssize_t w = write(lf, buf, (size_t)m); (void)w;
        close(lf);
    }
    logf_("LAUNCH %d %d", launch_no, (int)getpid());

    /* pick the script entry of this launch */
    if (script) {
        const char *p = script;
        for (int i = 1; i < launch_no && p; i++) { p = strchr(p, ';'); if (p) p++; }
        if (p && *p && *p != ';') {
            char ent[160];
            size_t n = strcspn(p, ";");
            if (n >= sizeof ent) n = sizeof ent - 1;
            memcpy(ent, p, n); ent[n] = 0;
            char *a = strtok(ent, ","), *b = strtok(NULL, ","), *c = strtok(NULL, ","), *d = strtok(NULL, ",");
            if (!a || !b || !c) die(3, "HARNESS bad script entry");
            snprintf(s_step, sizeof s_step, "%s", a);
            s_k = atoi(b);
            snprintf(s_fault, sizeof s_fault, "%s", c);
            snprintf(s_after, sizeof s_after, "%s", d ? d : "exit");
            armed = 1;
            logf_("ARMED %d %s %d %s %s", launch_no, s_step, s_k, s_fault, s_after);
        }
    }

    /* the real co-process */
    int to_real[2], from_real[2];
    if (pipe2(to_real, O_CLOEXEC) != 0 || pipe2(from_real, O_CLOEXEC) != 0) die(3, "HARNESS pipe failed");
    pid_t parent = getpid();
    real_pid = fork();
    if (real_pid < 0) die(3, "HARNESS fork failed");
    if (real_pid == 0) {
        prctl(PR_SET_PDEATHSIG, SIGKILL);
        if (getppid() != parent) _exit(0);
        signal(SIGPIPE, SIG_DFL);
        dup2(to_real[0], 0);
        dup2(from_real[1], 1);
        execl(real, "nano_cop", (char *)NULL);
        _exit(127);
    }
    close(to_real[0]); close(from_real[1]);
    real_in = to_real[1]; real_out = from_real[0];

    serve(1);
    die(0, "end");
    return 0;
}
