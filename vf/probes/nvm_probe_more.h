/* Further nvm_probe commands: C12 damage enumeration, C10 structural product, C13 hostile modules. */

#include <sys/time.h>
#include <sys/resource.h>

/* ------------------------------------------------------------------ forked ranges
 * run_cases(fn, lo, hi): evaluates fn(i) for i in [lo,hi) inside a forked child, so that a
 * crash / sanitizer abort / hang of the code under test is attributed to a single index by
 * bisection instead of killing the probe.  fn prints its own FAIL lines. */
typedef void (*case_fn)(uint64_t idx);
static double g_case_budget_s = 0.02;   /* per-case time allowance used for alarm() */
static unsigned long g_crashes = 0;
static volatile int *g_phase;

static void run_cases(case_fn fn, uint64_t lo, uint64_t hi, const char *label) {
    if (lo >= hi) return;
    fflush(stdout);
    /* the child's stderr goes to an unlinked temp file capped at 1 MiB (a flood of sanitizer
     * warnings must not fill pipes or memory); the parent echoes the head of it for single cases */
    char tmpl[] = "/tmp/nvmprobe.XXXXXX";
    const char *td = getenv("TMPDIR");
    char path[4096]; snprintf(path, sizeof path, "%s/nvmprobe.XXXXXX", td && *td ? td : "/tmp"); (void)tmpl;
    int efd = mkstemp(path);
    if (efd >= 0) unlink(path);
    pid_t p = fork();
    if (p < 0) { perror("fork"); exit(3); }
    if (p == 0) {
        double secs = 4.0 + (double)(hi - lo) * g_case_budget_s;
        if (hi - lo == 1) secs = 10.0;
        alarm((unsigned)secs + 1);
        if (efd >= 0) {
            struct rlimit rl = {1 << 20, 1 << 20}; setrlimit(RLIMIT_FSIZE, &rl); signal(SIGXFSZ, SIG_IGN);
            dup2(efd, 2); close(efd);
        }
        for (uint64_t i = lo; i < hi; i++) fn(i);
        fflush(stdout);
        _exit(0);
    }
    int st = 0;
    while (waitpid(p, &st, 0) < 0) {}
    if (WIFEXITED(st) && WEXITSTATUS(st) == 0) { if (efd >= 0) close(efd); return; }
    if (hi - lo == 1) {
        g_crashes++;
        if (WIFSIGNALED(st)) printf("FAIL %s-crash idx=%llu signal=%d%s phase=%d op=%d\n", label, (unsigned long long)lo, WTERMSIG(st), WTERMSIG(st) == SIGALRM ? " (timeout)" : "", g_phase ? g_phase[0] : -1, g_phase ? g_phase[1] : -1);
        else printf("FAIL %s-crash idx=%llu exit=%d (sanitizer report or abort) phase=%d op=%d\n", label, (unsigned long long)lo, WEXITSTATUS(st), g_phase ? g_phase[0] : -1, g_phase ? g_phase[1] : -1);
        if (efd >= 0) {
            char buf[16384]; lseek(efd, 0, SEEK_SET); ssize_t n = read(efd, buf, sizeof buf);
            if (n > 0) { fflush(stderr); if (write(2, buf, (size_t)n) < 0) {} }
            close(efd);
        }
        return;
    }
    if (efd >= 0) close(efd);
    uint64_t mid = lo + (hi - lo) / 2;
    run_cases(fn, lo, mid, label);
    run_cases(fn, mid, hi, label);
}

/* ------------------------------------------------------------------ C12 */
static uint8_t *g_file; static uint32_t g_size;
static int g_lmax = 6;
static unsigned long long *g_counter;   /* shared (mmap) evaluation counters */
#include <sys/mman.h>
static void *shared_zero(size_t n) {
    void *p = mmap(NULL, n, PROT_READ | PROT_WRITE, MAP_SHARED | MAP_ANONYMOUS, -1, 0);
    if (p == MAP_FAILED) { perror("mmap"); exit(3); }
    return p;
}
enum { CNT_EVAL = 0, CNT_REFUSED, CNT_ACCEPTED, CNT_NOOP, CNT_MAX = 8 };

static void expect_refused(uint8_t *buf, uint32_t sz, const char *what, uint64_t a, uint64_t b, uint64_t c) {
    NvmModule *m = nvm_deserialize(buf, sz);
    __sync_fetch_and_add(&g_counter[CNT_EVAL], 1);
    if (m) {
        unsigned long long nacc = __sync_fetch_and_add(&g_counter[CNT_ACCEPTED], 1);
        if (nacc < 25) printf("FAIL accepted %s a=%llu b=%llu c=%llu\n", what, (unsigned long long)a, (unsigned long long)b, (unsigned long long)c);
        nvm_module_free(m);
    } else __sync_fetch_and_add(&g_counter[CNT_REFUSED], 1);
}
static inline void flipbit(uint8_t *b, uint64_t bit) { b[bit >> 3] ^= (uint8_t)(1u << (bit & 7)); }

/* bit: idx = body bit position */
static void c12_bit(uint64_t idx) {
    uint8_t *buf = malloc(g_size); memcpy(buf, g_file, g_size);
    flipbit(buf, (uint64_t)NVM_HEADER_SIZE * 8 + idx);
    expect_refused(buf, g_size, "bitflip", idx, 0, 0);
    free(buf);
}
/* burst: idx = starting body bit; all lengths 2..lmax, all inner patterns; plus the families for lmax<L<=32 */
static void c12_burst(uint64_t idx) {
    uint64_t body_bits = (uint64_t)(g_size - NVM_HEADER_SIZE) * 8;
    uint8_t *buf = malloc(g_size);
    for (int L = 2; L <= 32; L++) {
        if (idx + (uint64_t)L > body_bits) break;
        uint64_t npatterns;
        if (L <= g_lmax) npatterns = 1ull << (L - 2);
        else npatterns = 4; /* families: all-ones, ends-only, 1010.., 1001100.. */
        for (uint64_t pi = 0; pi < npatterns; pi++) {
            uint64_t pat;  /* bit j of pat = flip body bit idx+j; bit 0 and bit L-1 always set */
            if (L <= g_lmax) pat = 1ull | (pi << 1) | (1ull << (L - 1));
            else {
                uint64_t full = (L == 64) ? ~0ull : ((1ull << L) - 1);
                switch (pi) {
                case 0: pat = full; break;
                case 1: pat = 1ull | (1ull << (L - 1)); break;
                case 2: pat = (0x5555555555555555ull & full) | 1ull | (1ull << (L - 1)); break;
                default: pat = (0x3333333333333333ull & full) | 1ull | (1ull << (L - 1)); break;
                }
            }
            memcpy(buf, g_file, g_size);
            for (int j = 0; j < L; j++) if (pat >> j & 1) flipbit(buf, (uint64_t)NVM_HEADER_SIZE * 8 + idx + j);
            expect_refused(buf, g_size, "burst", idx, (uint64_t)L, pat);
        }
    }
    free(buf);
}
/* trunc: idx = new length 0..size-1 */
static void c12_trunc(uint64_t idx) {
    uint8_t *buf = malloc(idx ? idx : 1); memcpy(buf, g_file, idx);
    expect_refused(buf, (uint32_t)idx, "truncate", idx, 0, 0);
    free(buf);
}
/* tail: idx = (len-1)*4 + kind, len 1..64 */
static void c12_tail(uint64_t idx) {
    uint32_t len = (uint32_t)(idx / 4) + 1; int kind = (int)(idx % 4);
    uint8_t *buf = malloc(g_size + len); memcpy(buf, g_file, g_size);
    for (uint32_t i = 0; i < len; i++) {
        uint8_t v = 0;
        switch (kind) { case 0: v = 0x00; break; case 1: v = 0xFF; break;
                        case 2: v = g_file[i % (g_size < 32 ? g_size : 32)]; break;      /* copy of header */
                        default: v = g_file[(NVM_HEADER_SIZE + i) % g_size]; break; }  /* copy of body start */
        buf[g_size + i] = v;
    }
    expect_refused(buf, g_size + len, "tail", len, (uint64_t)kind, 0);
    free(buf);
}
/* magic: idx = bit within the first 8 bytes (magic + version) */
static void c12_magic(uint64_t idx) {
    uint8_t *buf = malloc(g_size); memcpy(buf, g_file, g_size);
    flipbit(buf, idx);
    expect_refused(buf, g_size, "magic/version", idx, 0, 0);
    free(buf);
}

static int cmd_c12(int argc, char **argv) {
    /* c12 <file> <family> <lmax> <lo> <hi> ; hi==0 means "to the end" */
    if (argc < 5) { fprintf(stderr, "c12 <file> <family> <lmax> <lo> <hi>\n"); return 3; }
    g_file = read_file(argv[0], &g_size);
    const char *fam = argv[1]; g_lmax = atoi(argv[2]);
    uint64_t lo = strtoull(argv[3], NULL, 10), hi = strtoull(argv[4], NULL, 10);
    g_counter = shared_zero(sizeof(unsigned long long) * CNT_MAX);
    /* sanity: the undamaged file loads (otherwise everything below would be vacuous) */
    NvmModule *m = nvm_deserialize(g_file, g_size);
    if (!m) { printf("FAIL c12-undamaged-file-refused %s\n", argv[0]); return 0; }
    nvm_module_free(m);
    uint64_t body_bits = (uint64_t)(g_size - NVM_HEADER_SIZE) * 8, n = 0; case_fn fn = NULL;
    if (!strcmp(fam, "bit")) { n = body_bits; fn = c12_bit; }
    else if (!strcmp(fam, "burst")) { n = body_bits; fn = c12_burst; g_case_budget_s = 0.0001 * (double)(1u << (g_lmax > 2 ? g_lmax - 2 : 0)) + 0.001; }
    else if (!strcmp(fam, "trunc")) { n = g_size; fn = c12_trunc; }
    else if (!strcmp(fam, "tail")) { n = 64 * 4; fn = c12_tail; }
    else if (!strcmp(fam, "magic")) { n = 64; fn = c12_magic; }
    else { fprintf(stderr, "bad family\n"); return 3; }
    if (hi == 0 || hi > n) hi = n;
    run_cases(fn, lo, hi, fam);
    printf("STAT family=%s space=%llu lo=%llu hi=%llu evaluations=%llu refused=%llu accepted=%llu crashes=%lu\n", fam,
           (unsigned long long)n, (unsigned long long)lo, (unsigned long long)hi, g_counter[CNT_EVAL], g_counter[CNT_REFUSED], g_counter[CNT_ACCEPTED], g_crashes);
    return 0;
}


/* ------------------------------------------------------------------ C10(b): structural product
 * Modules built directly through the nvm_* API over a small structural alphabet; for every
 * element of the product: deserialize(serialize(m)) == m field-wise and serialize is idempotent. */
static const char *c10_strsets[][4] = {
    {NULL}, {"", NULL}, {"a", NULL}, {"a", "b", NULL}, {"a", "", NULL}, {"", "a", "bb"},
};
static const NvmFunctionEntry c10_fnprof[] = {
    {0, 0, 0, 0, 0, 0},
    {0xFFFFFFFFu, 0xFFFF, 0xFFFFFFFFu, 0xFFFFFFFFu, 0xFFFF, 0xFFFF},
    {1, 0x1234, 0x12345678u, 0x9ABCDEF0u, 0xBEEF, 0xCAFE},
    {2, 3, 0x10000u, 0x00010203u, 0x0100, 0x0001},
};
typedef struct { uint32_t mod, fn; uint16_t pc; uint8_t ret; uint8_t pt[3]; } ImpProf;
static const ImpProf c10_impprof[] = {
    {0, 0, 0, TAG_VOID, {0, 0, 0}},
    {1, 2, 1, TAG_INT, {TAG_STRING, 0, 0}},
    {0xFFFFFFFFu, 0x01020304u, 3, TAG_OPAQUE, {TAG_FLOAT, TAG_BOOL, TAG_ARRAY}},
};
static const uint32_t c10_codelens[] = {0, 1, 4096, 4097};
static const uint32_t c10_entries[] = {0, 5, 0xFFFFFFFFu};
static unsigned long long c10_n = 0;

static void c10_one(int ss, int nf, const int *fi, int ni, const int *ii, int nd, int ci, uint32_t flags, int ei) {
    NvmModule *m = nvm_module_new();
    for (int k = 0; k < 3 && c10_strsets[ss][k]; k++) nvm_add_string(m, c10_strsets[ss][k], (uint32_t)strlen(c10_strsets[ss][k]));
    for (int k = 0; k < nf; k++) nvm_add_function(m, &c10_fnprof[fi[k]]);
    for (int k = 0; k < ni; k++) { const ImpProf *q = &c10_impprof[ii[k]]; nvm_add_import(m, q->mod, q->fn, q->pc, q->ret, q->pc ? q->pt : NULL); }
    for (int k = 0; k < nd; k++) nvm_add_debug_entry(m, k ? 0xFFFFFFFFu : 7u, k ? 0x01020304u : 0u);
    uint32_t cl = c10_codelens[ci];
    if (cl) { uint8_t *c = malloc(cl); for (uint32_t k = 0; k < cl; k++) c[k] = (uint8_t)(k * 31 + 7); nvm_append_code(m, c, cl); free(c); }
    m->header.flags = flags; m->header.entry_point = c10_entries[ei];
    c10_n++; n_eval++;
    uint32_t s1 = 0; uint8_t *b1 = nvm_serialize(m, &s1);
    char why[256] = "";
    if (!b1) snprintf(why, sizeof why, "serialize returned NULL");
    else {
        uint8_t *ex = malloc(s1); memcpy(ex, b1, s1);          /* exact-size copy: asan sees overreads */
        NvmModule *m2 = nvm_deserialize(ex, s1);
        if (!m2) snprintf(why, sizeof why, "deserialize(serialize(m)) refused");
        else {
            if (!mod_diff(m, m2, true, why, sizeof why)) {
                uint32_t s2 = 0; uint8_t *b2 = nvm_serialize(m2, &s2);
                if (!b2 || s2 != s1 || memcmp(b1, b2, s1)) snprintf(why, sizeof why, "serialize not idempotent (%u vs %u bytes)", s1, s2);
                free(b2);
            }
            nvm_module_free(m2);
        }
        free(ex);
    }
    if (why[0]) {
        n_fail++;
        if (n_fail <= 40) printf("FAIL c10b strings=%d fns=%d[%d,%d,%d] imps=%d[%d,%d] dbg=%d codelen=%u flags=%u entry=%u : %s\n",
               ss, nf, fi[0], fi[1], fi[2], ni, ii[0], ii[1], nd, cl, flags, c10_entries[ei], why);
    }
    free(b1); nvm_module_free(m);
}

static int cmd_c10b(int argc, char **argv) {
    (void)argc; (void)argv;
    int NS = 6, NP = 4, NI = 3;
    for (int ss = 0; ss < NS; ss++)
    for (int nf = 0; nf <= 3; nf++) {
        int fcomb = 1; for (int k = 0; k < nf; k++) fcomb *= NP;
        if (nf == 3) fcomb = NP;            /* length 3: the four 'rotations' only */
        for (int fc = 0; fc < fcomb; fc++) {
            int fi[3] = {0, 0, 0};
            if (nf == 3) { fi[0] = fc; fi[1] = (fc + 1) % NP; fi[2] = (fc + 2) % NP; }
            else { int t = fc; for (int k = 0; k < nf; k++) { fi[k] = t % NP; t /= NP; } }
            for (int ni = 0; ni <= 2; ni++) {
                int icomb = 1; for (int k = 0; k < ni; k++) icomb *= NI;
                for (int ic = 0; ic < icomb; ic++) {
                    int ii[2] = {0, 0}; int t = ic; for (int k = 0; k < ni; k++) { ii[k] = t % NI; t /= NI; }
                    for (int nd = 0; nd <= 2; nd++)
                    for (int ci = 0; ci < 4; ci++)
                    for (uint32_t fl = 0; fl < 8; fl++)
                    for (int ei = 0; ei < 3; ei++)
                        c10_one(ss, nf, fi, ni, ii, nd, ci, fl, ei);
                }
            }
        }
    }
    printf("STAT modules=%llu evaluations=%lu fails=%lu\n", c10_n, n_eval, n_fail);
    return 0;
}

/* ------------------------------------------------------------------ C13: hostile modules
 * c13 <base.nvm> <mutations.txt> <lo> <hi> <fuel>
 * Each line of the mutation file is one case: ';'-separated edits applied to the base image
 *   P<off>:<hex>            overwrite bytes at <off>
 *   S<off>:<del>:<hex>      splice: delete <del> bytes at <off>, insert <hex>
 *   T<len>                  truncate to <len>
 *   R<hex>                  replace the whole image
 *   N                       do NOT recompute the checksum (default: recomputed)
 * then: load -> verify -> (accepted, import-free, has main) run under an instruction budget. */
static uint8_t *g_base; static uint32_t g_base_size;
static char **g_mut; static uint64_t g_nmut;
static long g_fuel = 20000, g_fuel_left;
/* g_phase (declared above) is shared: [0]=phase 0 idle/1 load/2 verify/3 exec/4 destroy, [1]=last opcode, [2]=ip */
static FILE *g_devnull;
enum { C13_LOADED = 0, C13_VERIFIED, C13_RAN, C13_RAN_OK, C13_RAN_ERR, C13_FUEL, C13_NCNT };

static int c13_step(VmState *vm) {
    if (vm->module && vm->ip < vm->module->code_size) g_phase[1] = vm->module->code[vm->ip];
    g_phase[2] = (int)vm->ip;
    return --g_fuel_left >= 0;
}
static int hexval(int c) { return c <= '9' ? c - '0' : (c | 32) - 'a' + 10; }
static uint32_t parse_hex(const char *h, uint8_t *out) {
    uint32_t n = 0; while (h[0] && h[1] && h[0] != ';' && h[0] != '\n') { out[n++] = (uint8_t)(hexval(h[0]) << 4 | hexval(h[1])); h += 2; } return n;
}
static uint8_t *c13_build(uint64_t idx, uint32_t *out_size) {
    uint32_t cap = g_base_size + (uint32_t)strlen(g_mut[idx]) + 64, size = g_base_size;
    uint8_t *img = malloc(cap); memcpy(img, g_base, g_base_size);
    bool fix_crc = true;
    const char *q = g_mut[idx];
    while (*q && *q != '\n') {
        if (*q == 'P') { uint32_t off = (uint32_t)strtoul(q + 1, (char **)&q, 10); q++; uint8_t *tmp = malloc(strlen(q) / 2 + 1); uint32_t n = parse_hex(q, tmp);
            if (off + n <= size) memcpy(img + off, tmp, n); free(tmp); }
        else if (*q == 'S') { uint32_t off = (uint32_t)strtoul(q + 1, (char **)&q, 10); q++; uint32_t del = (uint32_t)strtoul(q, (char **)&q, 10); q++;
            uint8_t *tmp = malloc(strlen(q) / 2 + 1); uint32_t n = parse_hex(q, tmp);
            if (off + del <= size) { memmove(img + off + n, img + off + del, size - off - del); memcpy(img + off, tmp, n); size = size - del + n; } free(tmp); }
        else if (*q == 'T') { uint32_t l = (uint32_t)strtoul(q + 1, (char **)&q, 10); if (l <= size) size = l; }
        else if (*q == 'R') { uint8_t *tmp = malloc(strlen(q) / 2 + 1); uint32_t n = parse_hex(q + 1, tmp); free(img); img = malloc(n + 64); memcpy(img, tmp, n); size = n; free(tmp); }
        else if (*q == 'N') fix_crc = false;
        while (*q && *q != ';' && *q != '\n') q++;
        if (*q == ';') q++;
    }
    if (fix_crc && size >= NVM_HEADER_SIZE) {
        uint32_t crc = nvm_crc32(img + NVM_HEADER_SIZE, size - NVM_HEADER_SIZE);
        img[28] = (uint8_t)crc; img[29] = (uint8_t)(crc >> 8); img[30] = (uint8_t)(crc >> 16); img[31] = (uint8_t)(crc >> 24);
    }
    uint8_t *exact = malloc(size ? size : 1); memcpy(exact, img, size); free(img);   /* exact size: asan sees overreads */
    *out_size = size; return exact;
}
/* is `ip` an instruction boundary of the verifier's linear walk of the function containing it? */
static int on_verified_boundary(const NvmModule *m, uint32_t fn_idx, uint32_t ip) {
    if (fn_idx >= m->function_count) return 0;
    const NvmFunctionEntry *fn = &m->functions[fn_idx];
    uint32_t pos = 0;
    while (pos < fn->code_length) {
        if (fn->code_offset + pos == ip) return 1;
        DecodedInstruction d; uint32_t n = isa_decode(m->code + fn->code_offset + pos, fn->code_length - pos, &d);
        if (!n) return 0;
        pos += n;
    }
    return 0;
}
static void c13_case(uint64_t idx) {
    uint32_t size; g_phase[0] = 1; g_phase[1] = -1; g_phase[2] = -1;
    uint8_t *img = c13_build(idx, &size);
    NvmModule *m = nvm_deserialize(img, size);
    free(img);
    __sync_fetch_and_add(&g_counter[CNT_EVAL], 1);
    if (!m) { g_phase[0] = 0; return; }
    __sync_fetch_and_add(&g_counter[8 + C13_LOADED], 1);
    g_phase[0] = 2;
    NvmVerifyResult vr = nvm_verify(m);
    if (vr.ok) {
        __sync_fetch_and_add(&g_counter[8 + C13_VERIFIED], 1);
        if (m->import_count == 0 && (m->header.flags & NVM_FLAG_HAS_MAIN)) {
            g_phase[0] = 3;
            VmState *vm = calloc(1, sizeof *vm);
            vm_init(vm, m);
            vm->output = g_devnull;
            g_fuel_left = g_fuel; nl_verif_vm_step = c13_step;
            VmResult r = vm_execute(vm);
            nl_verif_vm_step = NULL;
            __sync_fetch_and_add(&g_counter[8 + C13_RAN], 1);
            if (g_fuel_left < 0) __sync_fetch_and_add(&g_counter[8 + C13_FUEL], 1);
            else if (r == VM_OK) __sync_fetch_and_add(&g_counter[8 + C13_RAN_OK], 1);
            else __sync_fetch_and_add(&g_counter[8 + C13_RAN_ERR], 1);
            if (r == VM_ERR_DECODE || r == VM_ERR_INVALID_OPCODE) {
                if (on_verified_boundary(m, vm->current_fn, vm->ip))
                    printf("FAIL c13-decode-on-verified-path idx=%llu result=%d ip=%u fn=%u msg=%s\n", (unsigned long long)idx, (int)r, vm->ip, vm->current_fn, vm->error_msg);
            }
            g_phase[0] = 4;
            vm_destroy(vm);
            free(vm);
        }
    }
    nvm_module_free(m);
    g_phase[0] = 0;
}
static int cmd_c13(int argc, char **argv) {
    if (argc < 5) { fprintf(stderr, "c13 <base> <mutfile> <lo> <hi> <fuel>\n"); return 3; }
    g_base = read_file(argv[0], &g_base_size);
    uint32_t msz; char *mt = (char *)read_file(argv[1], &msz);
    mt = realloc(mt, msz + 1); mt[msz] = 0;
    uint64_t cap = 1024; g_mut = malloc(cap * sizeof(char *));
    for (char *l = mt; *l; ) { if (g_nmut == cap) { cap *= 2; g_mut = realloc(g_mut, cap * sizeof(char *)); } g_mut[g_nmut++] = l; char *e = strchr(l, '\n'); if (!e) break; *e = 0; l = e + 1; }
    uint64_t lo = strtoull(argv[2], NULL, 10), hi = strtoull(argv[3], NULL, 10);
    g_fuel = atol(argv[4]);
    if (hi == 0 || hi > g_nmut) hi = g_nmut;
    g_counter = shared_zero(sizeof(unsigned long long) * 32);
    g_phase = shared_zero(sizeof(int) * 8);
    g_devnull = fopen("/dev/null", "w");
    g_case_budget_s = 0.05;
    /* single-case mode reports phase/opcode of a crash precisely; ranges are bisected */
    fflush(stdout);
    for (uint64_t a = lo; a < hi; a += 256) {
        uint64_t b = a + 256 < hi ? a + 256 : hi;
        unsigned long before = g_crashes;
        run_cases(c13_case, a, b, "c13");
        (void)before;
    }
    printf("STAT cases=%llu evaluations=%llu loaded=%llu verified=%llu ran=%llu ran_ok=%llu ran_err=%llu fuel_exhausted=%llu crashes=%lu last_phase=%d last_op=%d last_ip=%d\n",
           (unsigned long long)(hi - lo), g_counter[CNT_EVAL], g_counter[8 + C13_LOADED], g_counter[8 + C13_VERIFIED], g_counter[8 + C13_RAN],
           g_counter[8 + C13_RAN_OK], g_counter[8 + C13_RAN_ERR], g_counter[8 + C13_FUEL], g_crashes, g_phase[0], g_phase[1], g_phase[2]);
    return 0;
}
/* optable: opcode name operand-types, for the Python layout parser */
static int cmd_optable(void) {
    for (int op = 0; op < 256; op++) {
        const InstructionInfo *in = isa_get_info((uint8_t)op);
        if (!in) continue;
        printf("%d %s", op, in->name);
        for (int i = 0; i < in->operand_count; i++) printf(" %d", (int)in->operands[i]);
        printf("\n");
    }
    return 0;
}

/* asm <in.txt> <out.nvm>: assemble a text module with the tree's own assembler */
static int cmd_asm(int argc, char **argv) {
    if (argc < 2) return 3;
    uint32_t sz; char *txt = (char *)read_file(argv[0], &sz);
    txt = realloc(txt, sz + 1); txt[sz] = 0;
    AsmResult res; memset(&res, 0, sizeof res);
    NvmModule *m = asm_assemble(txt, &res);
    if (!m) { printf("FAIL asm line=%u %s\n", res.line, res.message); return 1; }
    uint32_t n = 0; uint8_t *b = nvm_serialize(m, &n);
    FILE *f = fopen(argv[1], "wb"); fwrite(b, 1, n, f); fclose(f);
    printf("OK %u\n", n);
    return 0;
}

static int more_main(int argc, char **argv) {
    const char *c = argv[1];
    if (!strcmp(c, "c12")) return cmd_c12(argc - 2, argv + 2);
    if (!strcmp(c, "c13")) return cmd_c13(argc - 2, argv + 2);
    if (!strcmp(c, "optable")) return cmd_optable();
    if (!strcmp(c, "asm")) return cmd_asm(argc - 2, argv + 2);
    if (!strcmp(c, "c10b")) return cmd_c10b(argc - 2, argv + 2);
    fprintf(stderr, "unknown command %s\n", c);
    return 3;
}
