/*
 * rt_probe - bounded-exhaustive operation histories over the native C runtime (property C20, part b).
 *
 * Compiled with clang -fsanitize=address,undefined together with the tree's own src/runtime/{gc,dyn_array,
 * gc_struct,nl_string,list_int,list_string}.c.  For one family it enumerates EVERY operation history of
 * length <= L (depth-first, each history re-executed from a fresh object), applies each operation to the real
 * runtime and to a plain reference model kept in this file, and after EVERY operation compares the complete
 * observable state (length, every element, capacity >= length, element type, reference counts, ...).
 *
 *   rt_probe count  <family>                       number of top-level branches (first choices)
 *   rt_probe dfs    <family> <L> <branch|all>      all histories below one first choice (no forking: a sanitizer
 *                                                  abort ends the process; handlers print CRASH-AT <history>)
 *   rt_probe forkdfs <family> <L> <branch|all>     iterative deepening, one forked child per history, stops at the
 *                                                  first (= a shortest) history whose child dies: CRASH <history>
 *   rt_probe replay <family> <op,op,...>           one history, verbose
 *   rt_probe oob    <family>                       out-of-range family: each access in a forked child
 *
 * families: da:int da:u8 da:float da:bool da:str da:arr da:st24 da:st12 da:st1   (dyn_array per element kind)
 *           li (list_int)  ls (list_string)  gc (retain/release/store histories over <= 3 objects)  ns (nl_string)
 * output:   FAIL <history> :: <what differs>       model mismatch (first MAXFAIL printed)
 *           STAT family=<f> histories=<n> ops=<n> checks=<n> fails=<n> maxlen=<n>
 */
#ifndef _GNU_SOURCE
#define _GNU_SOURCE
#endif
#include <stdio.h>
#include <stdlib.h>
#include <string.h>
#include <stdint.h>
#include <stdbool.h>
#include <stdarg.h>
#include <signal.h>
#include <unistd.h>
#include <sys/wait.h>
#include "runtime/gc.h"
#include "runtime/dyn_array.h"
#include "runtime/gc_struct.h"
#include "runtime/nl_string.h"
#include "runtime/list_int.h"
#include "runtime/list_string.h"

#define MAXL 12
#define MAXFAIL 30
#define MAXN 160

typedef struct {
    const char *name;
    void (*reset)(void);
    int (*enabled)(int *ops);
    void (*apply)(int op);
    void (*check)(void);
    void (*finish)(void);
    void (*opname)(int op, char *buf);
    int (*parse)(const char *tok);
} Family;

static const Family *F;
static int hist[MAXL + 1], hlen, cur_step;
static int L = 4, branch = -1;
static long nhist, nops, nchecks, nfail;
static int maxlen_seen;
static bool bad;          /* current history already failed: stop executing it */
static bool verbose;

static void hist_str(char *buf, size_t cap, int n) {
    size_t p = 0;
    buf[0] = 0;
    for (int i = 0; i < n; i++) {
        char t[64];
        F->opname(hist[i], t);
        p += (size_t)snprintf(buf + p, cap - p, "%s%s", i ? "," : "", t);
        if (p >= cap - 1) break;
    }
}

static void fail(const char *fmt, ...) {
    bad = true;
    nfail++;
    if (nfail > MAXFAIL) return;
    char h[1024];
    hist_str(h, sizeof h, cur_step + 1 <= hlen ? cur_step + 1 : hlen);
    printf("FAIL %s :: ", h);
    va_list ap;
    va_start(ap, fmt);
    vprintf(fmt, ap);
    va_end(ap);
    printf("\n");
    fflush(stdout);
}

static void crash_note(const char *why) {
    char h[1024], line[1200];
    if (!F) return;
    hist_str(h, sizeof h, hlen);
    int n = snprintf(line, sizeof line, "CRASH-AT %s step=%d (%s)\n", h, cur_step, why);
    if (write(1, line, (size_t)n) < 0) {}
}
void __asan_on_error(void);
void __asan_on_error(void) { fflush(stdout); crash_note("asan"); }
void __ubsan_on_report(void);
void __ubsan_on_report(void) { fflush(stdout); crash_note("ubsan"); }
static void on_abort(int s) { crash_note(s == SIGABRT ? "abort" : "signal"); signal(s, SIG_DFL); raise(s); }

/* =========================================================================================== dyn_array */
typedef union { int64_t i; uint8_t u; double f; bool b; const char *s; DynArray *arr; uint8_t st[24]; } Elem;
typedef struct { DynArray *a; int64_t len; bool promo; Elem e[MAXN]; } Arr;
enum { K_INT, K_U8, K_FLOAT, K_BOOL, K_STR, K_ARR, K_ST };
static int da_kind, da_ssize;
static ElementType da_et;
static Arr A[3];
static int nA, act;
static DynArray *inner[3];
static size_t gc_base;

enum { C_NEW = 1, C_CAP0, C_CAP1, C_CAP3, C_CAP9, C_PROMOTE,
       O_PUSH0 = 10, O_PUSH1, O_PUSHC0, O_PUSHC1, O_POP, O_CLEAR, O_CLONE, O_CLONEKEEP, O_RES0, O_RESLEN, O_RESLEN5, O_RESCAP1,
       O_FILL, O_COLLECT, O_SET = 0x100, O_RM = 0x200, O_INS = 0x300, O_SETALIAS = 0x400 };

static Elem da_val(int k) {
    Elem v;
    memset(&v, 0, sizeof v);
    static const char *S[] = { "alpha", "", "gamma-long-string", "d" };
    static const double D[] = { 1.5, -0.0, 1e300, 3.0 };
    switch (da_kind) {
        case K_INT: v.i = (k == 0) ? 7 : (k == 1) ? INT64_MIN : (k == 2) ? -1 : 100 + k; break;
        case K_U8: v.u = (uint8_t)((k == 0) ? 1 : (k == 1) ? 255 : (k == 2) ? 0 : 100 + k); break;
        case K_FLOAT: v.f = D[k & 3]; break;
        case K_BOOL: v.b = (k & 1) == 0; break;
        case K_STR: v.s = S[k & 3]; break;
        case K_ARR: v.arr = inner[k % 3]; break;
        case K_ST: for (int j = 0; j < da_ssize; j++) v.st[j] = (uint8_t)(0x11 * (k + 1) + j); break;
    }
    return v;
}

static bool elem_eq(const Elem *x, const Elem *y) {
    switch (da_kind) {
        case K_INT: return x->i == y->i;
        case K_U8: return x->u == y->u;
        case K_FLOAT: return memcmp(&x->f, &y->f, sizeof(double)) == 0;
        case K_BOOL: return x->b == y->b;
        case K_STR: return x->s && y->s && strcmp(x->s, y->s) == 0;
        case K_ARR: return x->arr == y->arr;
        case K_ST: return memcmp(x->st, y->st, (size_t)da_ssize) == 0;
    }
    return false;
}

static Elem da_get(DynArray *a, int64_t i) {
    Elem v;
    memset(&v, 0, sizeof v);
    switch (da_kind) {
        case K_INT: v.i = dyn_array_get_int(a, i); break;
        case K_U8: v.u = dyn_array_get_u8(a, i); break;
        case K_FLOAT: v.f = dyn_array_get_float(a, i); break;
        case K_BOOL: v.b = dyn_array_get_bool(a, i); break;
        case K_STR: v.s = dyn_array_get_string(a, i); break;
        case K_ARR: v.arr = dyn_array_get_array(a, i); break;
        case K_ST: memcpy(v.st, dyn_array_get_struct(a, i), (size_t)da_ssize); break;
    }
    return v;
}

static void da_push(DynArray *a, Elem v, bool copy) {
    DynArray *r = NULL;
    switch (da_kind) {
        case K_INT: r = dyn_array_push_int(a, v.i); break;
        case K_U8: r = dyn_array_push_u8(a, v.u); break;
        case K_FLOAT: r = dyn_array_push_float(a, v.f); break;
        case K_BOOL: r = dyn_array_push_bool(a, v.b); break;
        case K_STR: r = copy ? dyn_array_push_string_copy(a, v.s) : dyn_array_push_string(a, v.s); break;
        case K_ARR: r = dyn_array_push_array(a, v.arr); break;
        case K_ST: r = dyn_array_push_struct(a, v.st, (size_t)da_ssize); break;
    }
    if (r != a) fail("push returned %p instead of the array %p", (void *)r, (void *)a);
}

static void da_set(DynArray *a, int64_t i, Elem v) {
    switch (da_kind) {
        case K_INT: dyn_array_set_int(a, i, v.i); break;
        case K_U8: dyn_array_set_u8(a, i, v.u); break;
        case K_FLOAT: dyn_array_set_float(a, i, v.f); break;
        case K_BOOL: dyn_array_set_bool(a, i, v.b); break;
        case K_STR: dyn_array_set_string(a, i, v.s); break;
        case K_ARR: dyn_array_set_array(a, i, v.arr); break;
        case K_ST: dyn_array_set_struct(a, i, v.st, (size_t)da_ssize); break;
    }
}

static void da_reset(void) {
    if (!inner[0]) for (int i = 0; i < 3; i++) { inner[i] = dyn_array_new(ELEM_INT); dyn_array_push_int(inner[i], i); }
    nA = 0; act = 0;
    gc_base = gc_get_stats().num_objects;
}

/* index classes: every index for short arrays, boundary indices for long ones */
static int idx_set(int64_t len, int64_t *out, bool with_len) {
    int n = 0;
    if (len <= 4) { for (int64_t i = 0; i < len; i++) out[n++] = i; }
    else { int64_t c[5] = { 0, 1, len / 2, len - 2, len - 1 }; for (int k = 0; k < 5; k++) { bool dup = false; for (int j = 0; j < n; j++) if (out[j] == c[k]) dup = true; if (!dup) out[n++] = c[k]; } }
    if (with_len) out[n++] = len;
    return n;
}

static int da_enabled(int *ops) {
    int n = 0;
    if (nA == 0) {
        ops[n++] = C_NEW; ops[n++] = C_CAP0; ops[n++] = C_CAP1; ops[n++] = C_CAP3; ops[n++] = C_CAP9;
        if (da_kind == K_ST) ops[n++] = C_PROMOTE;
        return n;
    }
    Arr *x = &A[act];
    ops[n++] = O_PUSH0; ops[n++] = O_PUSH1;
    if (da_kind == K_STR) { ops[n++] = O_PUSHC0; ops[n++] = O_PUSHC1; }
    ops[n++] = O_POP; ops[n++] = O_CLEAR;
    if (nA < 3) { ops[n++] = O_CLONE; ops[n++] = O_CLONEKEEP; }
    ops[n++] = O_RES0; ops[n++] = O_RESLEN; ops[n++] = O_RESLEN5; ops[n++] = O_RESCAP1;
    if (x->len < dyn_array_capacity(x->a) && dyn_array_capacity(x->a) < MAXN - 8) ops[n++] = O_FILL;
    ops[n++] = O_COLLECT;
    int64_t ix[8];
    int k = idx_set(x->len, ix, false);
    for (int j = 0; j < k; j++) { ops[n++] = O_SET | (int)ix[j]; ops[n++] = O_RM | (int)ix[j]; }
    return n;
}

static void da_apply(int op) {
    if (nA == 0) {
        Arr *x = &A[0];
        x->promo = false;
        switch (op) {
            case C_NEW: x->a = dyn_array_new(da_et); break;
            case C_CAP0: x->a = dyn_array_new_with_capacity(da_et, 0); break;
            case C_CAP1: x->a = dyn_array_new_with_capacity(da_et, 1); break;
            case C_CAP3: x->a = dyn_array_new_with_capacity(da_et, 3); break;
            case C_CAP9: x->a = dyn_array_new_with_capacity(da_et, 9); break;
            case C_PROMOTE: x->a = dyn_array_new(ELEM_INT); x->promo = true; break;   /* first push_struct promotes an empty array */
            default: fail("bad constructor"); return;
        }
        if (!x->a) { fail("constructor returned NULL"); return; }
        x->len = 0; nA = 1; act = 0;
        return;
    }
    Arr *x = &A[act];
    if (x->len >= MAXN - 2) { fail("harness: model array full"); return; }
    int code = op & ~0xff, idx = op & 0xff;
    if (op < 0x100) code = op;
    switch (code) {
        case O_PUSH0: case O_PUSH1: case O_PUSHC0: case O_PUSHC1: {
            Elem v = da_val((code == O_PUSH0 || code == O_PUSHC0) ? 0 : 1);
            da_push(x->a, v, code == O_PUSHC0 || code == O_PUSHC1);
            x->e[x->len++] = v;
            x->promo = false;
            break;
        }
        case O_POP: {
            bool ok = true;
            Elem v;
            memset(&v, 0, sizeof v);
            switch (da_kind) {
                case K_INT: v.i = dyn_array_pop_int(x->a, &ok); break;
                case K_U8: v.u = dyn_array_pop_u8(x->a, &ok); break;
                case K_FLOAT: v.f = dyn_array_pop_float(x->a, &ok); break;
                case K_BOOL: v.b = dyn_array_pop_bool(x->a, &ok); break;
                case K_STR: v.s = dyn_array_pop_string(x->a, &ok); break;
                case K_ARR: v.arr = dyn_array_pop_array(x->a, &ok); break;
                case K_ST:
                    if (x->len == 0 && dyn_array_get_elem_type(x->a) != ELEM_STRUCT) { ok = false; break; }   /* not yet a struct array: pop_struct's type assertion is outside the domain */
                    if (x->len == 0 && x->a->elem_size == 0) { ok = false; break; }                              /* size unknown before the first push: same */
                    dyn_array_pop_struct(x->a, v.st, (size_t)da_ssize, &ok); break;
            }
            if (x->len == 0) { if (ok) fail("pop on an empty array reports success"); }
            else {
                if (!ok) fail("pop on a non-empty array reports failure");
                else if (!elem_eq(&v, &x->e[x->len - 1])) fail("pop returned a value different from the model's last element");
                x->len--;
            }
            break;
        }
        case O_CLEAR: dyn_array_clear(x->a); x->len = 0; break;
        case O_CLONE: case O_CLONEKEEP: {
            DynArray *c = dyn_array_clone(x->a);
            if (!c) { fail("clone returned NULL"); return; }
            if (c == x->a) { fail("clone returned the same object"); return; }
            Arr *y = &A[nA];
            y->a = c; y->len = x->len; y->promo = x->promo;
            memcpy(y->e, x->e, sizeof(Elem) * (size_t)x->len);
            if (code == O_CLONE) act = nA;
            nA++;
            break;
        }
        case O_RES0: dyn_array_reserve(x->a, 0); break;
        case O_RESLEN: dyn_array_reserve(x->a, x->len); break;
        case O_RESLEN5: dyn_array_reserve(x->a, x->len + 5); break;
        case O_RESCAP1: dyn_array_reserve(x->a, dyn_array_capacity(x->a) + 1); break;
        case O_FILL: {
            int g = 0;
            while (x->len < dyn_array_capacity(x->a) && x->len < MAXN - 4) { Elem v = da_val(2 + (g++ & 1)); da_push(x->a, v, false); x->e[x->len++] = v; }
            if (g) x->promo = false;
            break;
        }
        case O_COLLECT: gc_collect_cycles(); break;
        case O_SET: { Elem v = da_val(2); da_set(x->a, idx, v); x->e[idx] = v; break; }
        case O_RM: {
            DynArray *r = dyn_array_remove_at(x->a, idx);
            if (r != x->a) fail("remove_at returned a different array");
            memmove(&x->e[idx], &x->e[idx + 1], sizeof(Elem) * (size_t)(x->len - idx - 1));
            x->len--;
            break;
        }
        default: fail("harness: bad op %d", op);
    }
}

static void da_check(void) {
    for (int k = 0; k < nA && !bad; k++) {
        Arr *x = &A[k];
        nchecks++;
        if (!gc_is_managed(x->a)) { fail("array %d is no longer gc-managed", k); return; }
        int64_t len = dyn_array_length(x->a), cap = dyn_array_capacity(x->a);
        if (len != x->len) { fail("array %d: length %lld, model %lld", k, (long long)len, (long long)x->len); return; }
        if (len > cap) { fail("array %d: length %lld > capacity %lld", k, (long long)len, (long long)cap); return; }
        ElementType want = x->promo ? ELEM_INT : da_et;
        if (dyn_array_get_elem_type(x->a) != want) { fail("array %d: elem_type %d, expected %d", k, (int)dyn_array_get_elem_type(x->a), (int)want); return; }
        if (da_kind == K_ST && len > 0 && x->a->elem_size != da_ssize) { fail("array %d: elem_size %d, expected %d", k, (int)x->a->elem_size, da_ssize); return; }
        if (len > maxlen_seen) maxlen_seen = (int)len;
        for (int64_t i = 0; i < len; i++) {
            Elem v = da_get(x->a, i);
            if (!elem_eq(&v, &x->e[i])) { fail("array %d: element %lld differs from the model", k, (long long)i); return; }
        }
    }
}

static void da_finish(void) {
    if (bad) { nA = 0; return; }
    for (int k = 0; k < nA; k++) gc_release(A[k].a);
    if (!bad && gc_get_stats().num_objects != gc_base) fail("after releasing every array %zu gc objects remain, %zu before the history", gc_get_stats().num_objects, gc_base);
    nA = 0;
}

static const struct { int c; const char *n; } DA_NAMES[] = {
    { C_NEW, "new" }, { C_CAP0, "newcap0" }, { C_CAP1, "newcap1" }, { C_CAP3, "newcap3" }, { C_CAP9, "newcap9" }, { C_PROMOTE, "new_int_promoted" },
    { O_PUSH0, "push0" }, { O_PUSH1, "push1" }, { O_PUSHC0, "pushcopy0" }, { O_PUSHC1, "pushcopy1" }, { O_POP, "pop" }, { O_CLEAR, "clear" },
    { O_CLONE, "clone0" }, { O_CLONEKEEP, "clone1" }, { O_RES0, "reserve0" }, { O_RESLEN, "reservelen" }, { O_RESLEN5, "reservelen5" },
    { O_RESCAP1, "reservecap1" }, { O_FILL, "fill" }, { O_COLLECT, "collect" }, { 0, NULL } };
static const struct { int c; const char *n; } IDX_NAMES[] = { { O_SET, "set" }, { O_RM, "rm" }, { O_INS, "ins" }, { O_SETALIAS, "setalias" }, { 0, NULL } };

static void da_opname(int op, char *buf) {
    if (op >= 0x100) { for (int i = 0; IDX_NAMES[i].n; i++) if (IDX_NAMES[i].c == (op & ~0xff)) { sprintf(buf, "%s%d", IDX_NAMES[i].n, op & 0xff); return; } }
    for (int i = 0; DA_NAMES[i].n; i++) if (DA_NAMES[i].c == op) { strcpy(buf, DA_NAMES[i].n); return; }
    sprintf(buf, "op%d", op);
}
static int da_parse(const char *t) {
    for (int i = 0; DA_NAMES[i].n; i++) if (!strcmp(t, DA_NAMES[i].n)) return DA_NAMES[i].c;
    for (int i = 0; IDX_NAMES[i].n; i++) { size_t l = strlen(IDX_NAMES[i].n); if (!strncmp(t, IDX_NAMES[i].n, l) && t[l] >= '0' && t[l] <= '9') return IDX_NAMES[i].c | atoi(t + l); }
    return -1;
}
static const Family FAM_DA = { "da", da_reset, da_enabled, da_apply, da_check, da_finish, da_opname, da_parse };

/* =========================================================================================== list_int / list_string */
static bool ls_mode;
static List_int *LI;
static List_string *LS;
static int64_t lm_i[MAXN];
static char lm_s[MAXN][24];
static int lm_len;
static bool l_made;
enum { LC_NEW = 1, LC_CAP0, LC_CAP1, LC_CAP3, LO_PUSH0 = 10, LO_PUSH1, LO_POP, LO_CLEAR, LO_FILL };
static const char *LSV[] = { "one", "", "three-3", "s" };
static const int64_t LIV[] = { 5, INT64_MIN, -1, 42 };

static void l_reset(void) { l_made = false; lm_len = 0; LI = NULL; LS = NULL; }
static int l_cap(void) { return ls_mode ? list_string_capacity(LS) : list_int_capacity(LI); }
static int l_enabled(int *ops) {
    int n = 0;
    if (!l_made) { ops[n++] = LC_NEW; ops[n++] = LC_CAP0; ops[n++] = LC_CAP1; ops[n++] = LC_CAP3; return n; }
    ops[n++] = LO_PUSH0; ops[n++] = LO_PUSH1;
    if (lm_len > 0) ops[n++] = LO_POP;
    ops[n++] = LO_CLEAR;
    if (lm_len < l_cap() && l_cap() < MAXN - 8) ops[n++] = LO_FILL;
    int64_t ix[8];
    int k = idx_set(lm_len, ix, false);
    for (int j = 0; j < k; j++) { ops[n++] = O_SET | (int)ix[j]; ops[n++] = O_RM | (int)ix[j]; if (ls_mode) ops[n++] = O_SETALIAS | (int)ix[j]; }
    k = idx_set(lm_len, ix, true);
    for (int j = 0; j < k; j++) ops[n++] = O_INS | (int)ix[j];
    return n;
}
static void l_model_insert(int idx, int vi) {
    memmove(&lm_i[idx + 1], &lm_i[idx], sizeof(int64_t) * (size_t)(lm_len - idx));
    memmove(&lm_s[idx + 1], &lm_s[idx], 24 * (size_t)(lm_len - idx));
    lm_i[idx] = LIV[vi]; strcpy(lm_s[idx], LSV[vi]); lm_len++;
}
static void l_push(int vi) { if (ls_mode) list_string_push(LS, LSV[vi]); else list_int_push(LI, LIV[vi]); l_model_insert(lm_len, vi); }
static void l_apply(int op) {
    if (!l_made) {
        int cap = op == LC_CAP0 ? 0 : op == LC_CAP1 ? 1 : 3;
        if (ls_mode) LS = (op == LC_NEW) ? list_string_new() : list_string_with_capacity(cap);
        else LI = (op == LC_NEW) ? list_int_new() : list_int_with_capacity(cap);
        if (!LS && !LI) { fail("constructor returned NULL"); return; }
        l_made = true;
        return;
    }
    if (lm_len >= MAXN - 2) { fail("harness: model list full"); return; }
    int code = op < 0x100 ? op : (op & ~0xff), idx = op & 0xff;
    switch (code) {
        case LO_PUSH0: l_push(0); break;
        case LO_PUSH1: l_push(1); break;
        case LO_POP:
            if (ls_mode) { char *p = list_string_pop(LS); if (!p || strcmp(p, lm_s[lm_len - 1])) fail("pop returned a different string"); free(p); }
            else { int64_t v = list_int_pop(LI); if (v != lm_i[lm_len - 1]) fail("pop returned %lld, model %lld", (long long)v, (long long)lm_i[lm_len - 1]); }
            lm_len--;
            break;
        case LO_CLEAR: if (ls_mode) list_string_clear(LS); else list_int_clear(LI); lm_len = 0; break;
        case LO_FILL: { int g = 0; while (lm_len < l_cap() && lm_len < MAXN - 4) l_push(2 + (g++ & 1)); break; }
        case O_SET: if (ls_mode) list_string_set(LS, idx, LSV[2]); else list_int_set(LI, idx, LIV[2]); lm_i[idx] = LIV[2]; strcpy(lm_s[idx], LSV[2]); break;
        case O_SETALIAS: list_string_set(LS, idx, list_string_get(LS, idx)); break;   /* (list_string_set l i (list_string_get l i)): contents unchanged */
        case O_RM:
            if (ls_mode) { char *p = list_string_remove(LS, idx); if (!p || strcmp(p, lm_s[idx])) fail("remove returned a different string"); free(p); }
            else { int64_t v = list_int_remove(LI, idx); if (v != lm_i[idx]) fail("remove returned %lld, model %lld", (long long)v, (long long)lm_i[idx]); }
            memmove(&lm_i[idx], &lm_i[idx + 1], sizeof(int64_t) * (size_t)(lm_len - idx - 1));
            memmove(&lm_s[idx], &lm_s[idx + 1], 24 * (size_t)(lm_len - idx - 1));
            lm_len--;
            break;
        case O_INS:
            if (ls_mode) list_string_insert(LS, idx, LSV[3]); else list_int_insert(LI, idx, LIV[3]);
            l_model_insert(idx, 3);
            break;
        default: fail("harness: bad op %d", op);
    }
}
static void l_check(void) {
    if (!l_made) return;
    nchecks++;
    int len = ls_mode ? list_string_length(LS) : list_int_length(LI);
    if (len != lm_len) { fail("length %d, model %d", len, lm_len); return; }
    if (len > l_cap()) { fail("length %d > capacity %d", len, l_cap()); return; }
    if ((ls_mode ? list_string_is_empty(LS) : list_int_is_empty(LI)) != (lm_len == 0)) { fail("is_empty wrong"); return; }
    if (len > maxlen_seen) maxlen_seen = len;
    for (int i = 0; i < len; i++) {
        if (ls_mode) { char *p = list_string_get(LS, i); if (!p || strcmp(p, lm_s[i])) { fail("element %d is %s, model %s", i, p ? p : "(null)", lm_s[i]); return; } }
        else { int64_t v = list_int_get(LI, i); if (v != lm_i[i]) { fail("element %d is %lld, model %lld", i, (long long)v, (long long)lm_i[i]); return; } }
    }
}
static void l_finish(void) { if (l_made) { if (ls_mode) list_string_free(LS); else list_int_free(LI); } l_made = false; }
static const struct { int c; const char *n; } L_NAMES[] = { { LC_NEW, "new" }, { LC_CAP0, "newcap0" }, { LC_CAP1, "newcap1" }, { LC_CAP3, "newcap3" },
    { LO_PUSH0, "push0" }, { LO_PUSH1, "push1" }, { LO_POP, "pop" }, { LO_CLEAR, "clear" }, { LO_FILL, "fill" }, { 0, NULL } };
static void l_opname(int op, char *buf) {
    if (op >= 0x100) { for (int i = 0; IDX_NAMES[i].n; i++) if (IDX_NAMES[i].c == (op & ~0xff)) { sprintf(buf, "%s%d", IDX_NAMES[i].n, op & 0xff); return; } }
    for (int i = 0; L_NAMES[i].n; i++) if (L_NAMES[i].c == op) { strcpy(buf, L_NAMES[i].n); return; }
    sprintf(buf, "op%d", op);
}
static int l_parse(const char *t) {
    for (int i = 0; L_NAMES[i].n; i++) if (!strcmp(t, L_NAMES[i].n)) return L_NAMES[i].c;
    int best = -1; size_t bl = 0;
    for (int i = 0; IDX_NAMES[i].n; i++) { size_t l = strlen(IDX_NAMES[i].n); if (!strncmp(t, IDX_NAMES[i].n, l) && t[l] >= '0' && t[l] <= '9' && l > bl) { best = IDX_NAMES[i].c | atoi(t + l); bl = l; } }
    return best;
}
static const Family FAM_L = { "l", l_reset, l_enabled, l_apply, l_check, l_finish, l_opname, l_parse };

/* =========================================================================================== gc histories */
enum { GK_ARR = 0, GK_STR, GK_STRUCT, GK_OPQ };
typedef struct { bool used, alive; int kind; void *p; int user; int fld[2]; int fin; int nel; int el[8]; } GObj;
static GObj G[3];
static int g_fin_slot_of[3];
static size_t g_base;
static int g_fin_counts[3];
static void fin0(void *o) { (void)o; g_fin_counts[0]++; }
static void fin1(void *o) { (void)o; g_fin_counts[1]++; }
static void fin2(void *o) { (void)o; g_fin_counts[2]++; }
static GCFinalizer FINS[3] = { fin0, fin1, fin2 };
/* op encoding: 0x1000|kind alloc ; 0x2000|i retain ; 0x3000|i release ; 0x4000|i<<4|j<<2|f store j into struct i field f ;
   0x5000|i<<4|f clear field ; 0x6000|i<<4|j push array j into array i (borrowed) ; 0x7000 collect_cycles ; 0x7001 collect_all */
static int g_rc(int i) {
    int n = G[i].user;
    for (int k = 0; k < 3; k++) if (G[k].used && G[k].alive && G[k].kind == GK_STRUCT) for (int f = 0; f < 2; f++) if (G[k].fld[f] == i) n++;
    return n;
}
static void g_die(int i);
static void g_maybe_die(int i) { if (G[i].alive && g_rc(i) == 0) g_die(i); }
static void g_die(int i) {
    G[i].alive = false;
    if (G[i].kind == GK_STRUCT) {
        int t0 = G[i].fld[0], t1 = G[i].fld[1];
        G[i].fld[0] = G[i].fld[1] = -1;
        if (t0 >= 0) g_maybe_die(t0);
        if (t1 >= 0) g_maybe_die(t1);
    }
}
static void g_reset(void) {
    memset(G, 0, sizeof G);
    memset(g_fin_counts, 0, sizeof g_fin_counts);
    for (int i = 0; i < 3; i++) { G[i].fld[0] = G[i].fld[1] = -1; g_fin_slot_of[i] = -1; }
    g_base = gc_get_stats().num_objects;
}
static int g_enabled(int *ops) {
    int n = 0, freeslot = -1;
    for (int i = 0; i < 3; i++) if (!G[i].used) { freeslot = i; break; }
    if (freeslot >= 0) for (int k = 0; k < 4; k++) ops[n++] = 0x1000 | k;
    for (int i = 0; i < 3; i++) {
        if (!G[i].used || !G[i].alive) continue;
        if (G[i].user > 0) { ops[n++] = 0x2000 | i; ops[n++] = 0x3000 | i; }
        if (G[i].user > 0 && G[i].kind == GK_STRUCT) {
            for (int j = 0; j < 3; j++) if (G[j].used && G[j].alive && G[j].user > 0) for (int f = 0; f < 2; f++) ops[n++] = 0x4000 | i << 4 | j << 2 | f;
            for (int f = 0; f < 2; f++) if (G[i].fld[f] >= 0) ops[n++] = 0x5000 | i << 4 | f;
        }
        if (G[i].user > 0 && G[i].kind == GK_ARR && G[i].nel < 6)
            for (int j = 0; j < 3; j++) if (G[j].used && G[j].alive && G[j].user > 0 && G[j].kind == GK_ARR) ops[n++] = 0x6000 | i << 4 | j;
    }
    if (n) { ops[n++] = 0x7000; }
    return n;
}
static void g_apply(int op) {
    int t = op & 0xf000;
    if (t == 0x1000) {
        int s = -1;
        for (int i = 0; i < 3; i++) if (!G[i].used) { s = i; break; }
        if (s < 0) { fail("harness: no free slot"); return; }
        GObj *o = &G[s];
        o->used = o->alive = true; o->kind = op & 0xf; o->user = 1; o->fld[0] = o->fld[1] = -1; o->nel = 0;
        switch (o->kind) {
            case GK_ARR: o->p = dyn_array_new(ELEM_ARRAY); break;
            case GK_STR: { char *c = gc_alloc_string(5); if (c) memcpy(c, "hello", 5); o->p = c; break; }
            case GK_STRUCT: o->p = gc_struct_new("Node", 2); break;
            case GK_OPQ: o->p = gc_alloc_opaque(16, FINS[s]); break;
        }
        if (!o->p) fail("allocation returned NULL");
        return;
    }
    if (t == 0x2000) { int i = op & 3; gc_retain(G[i].p); G[i].user++; return; }
    if (t == 0x3000) { int i = op & 3; gc_release(G[i].p); G[i].user--; g_maybe_die(i); return; }
    if (t == 0x4000) {
        int i = (op >> 4) & 3, j = (op >> 2) & 3, f = op & 3;
        gc_struct_set_field((GCStruct *)G[i].p, f, f ? "right" : "left", G[j].p, G[j].kind == GK_ARR ? FIELD_ARRAY : G[j].kind == GK_STR ? FIELD_STRING : FIELD_STRUCT, true);
        int old = G[i].fld[f];
        G[i].fld[f] = j;
        if (old >= 0) g_maybe_die(old);
        return;
    }
    if (t == 0x5000) {
        int i = (op >> 4) & 3, f = op & 3;
        gc_struct_set_field((GCStruct *)G[i].p, f, f ? "right" : "left", NULL, FIELD_INT, false);
        int old = G[i].fld[f];
        G[i].fld[f] = -1;
        if (old >= 0) g_maybe_die(old);
        return;
    }
    if (t == 0x6000) { int i = (op >> 4) & 3, j = op & 3; dyn_array_push_array((DynArray *)G[i].p, (DynArray *)G[j].p); G[i].el[G[i].nel++] = j; return; }
    if (op == 0x7000) { gc_collect_cycles(); return; }
    if (op == 0x7001) { gc_collect_all(); return; }
    fail("harness: bad op %x", op);
}
static void g_check(void) {
    int live = 0;
    nchecks++;
    for (int i = 0; i < 3; i++) {
        if (!G[i].used) continue;
        bool m = gc_is_managed(G[i].p);
        if (m != G[i].alive) { fail("object %d: gc_is_managed=%d but the model says %s (model count %d)", i, (int)m, G[i].alive ? "alive" : "dead", g_rc(i)); return; }
        if (G[i].kind == GK_OPQ) {
            int want = G[i].alive ? 0 : 1;
            if (g_fin_counts[i] != want) { fail("object %d: finaliser ran %d time(s), expected %d", i, g_fin_counts[i], want); return; }
        }
        if (!G[i].alive) continue;
        live++;
        GCHeader *h = gc_get_header(G[i].p);
        if ((int)h->ref_count != g_rc(i)) { fail("object %d: header ref_count %u, model %d", i, h->ref_count, g_rc(i)); return; }
        int wt = G[i].kind == GK_ARR ? GC_TYPE_ARRAY : G[i].kind == GK_STR ? GC_TYPE_STRING : G[i].kind == GK_STRUCT ? GC_TYPE_STRUCT : GC_TYPE_OPAQUE;
        if (h->type != wt) { fail("object %d: header type %d, expected %d", i, h->type, wt); return; }
        if (G[i].kind == GK_STR && memcmp(G[i].p, "hello", 6) != 0) { fail("object %d: string payload changed", i); return; }
        if (G[i].kind == GK_STRUCT) for (int f = 0; f < 2; f++) {
            void *v = gc_struct_get_field((GCStruct *)G[i].p, f);
            void *w = G[i].fld[f] >= 0 ? G[G[i].fld[f]].p : NULL;
            if (v != w) { fail("object %d: field %d holds %p, model %p", i, f, v, w); return; }
        }
        if (G[i].kind == GK_ARR) {
            if (dyn_array_length((DynArray *)G[i].p) != G[i].nel) { fail("object %d: array length %lld, model %d", i, (long long)dyn_array_length((DynArray *)G[i].p), G[i].nel); return; }
            for (int k = 0; k < G[i].nel; k++) if (dyn_array_get_array((DynArray *)G[i].p, k) != G[G[i].el[k]].p) { fail("object %d: array element %d differs", i, k); return; }
        }
    }
    size_t n = gc_get_stats().num_objects;
    if (n != g_base + (size_t)live) fail("gc reports %zu live objects, model %zu", n - g_base, (size_t)live);
}
static void g_finish(void) {
    /* break what the history left linked (cycles leak by design of a pure refcount), then drop the user references */
    if (bad) return;
    for (int i = 0; i < 3; i++) if (G[i].used && G[i].alive && G[i].kind == GK_STRUCT) for (int f = 0; f < 2; f++) if (G[i].fld[f] >= 0 && G[i].alive) {
        int old = G[i].fld[f];
        gc_retain(G[i].p);                      /* hold the struct while editing it */
        gc_struct_set_field((GCStruct *)G[i].p, f, f ? "right" : "left", NULL, FIELD_INT, false);
        G[i].fld[f] = -1; G[i].user++;
        g_maybe_die(old);
        gc_release(G[i].p); G[i].user--; g_maybe_die(i);
    }
    for (int i = 0; i < 3; i++) while (G[i].used && G[i].alive && G[i].user > 0) { gc_release(G[i].p); G[i].user--; g_maybe_die(i); }
    g_check();
    if (!bad && gc_get_stats().num_objects != g_base) fail("after the final releases %zu objects remain", gc_get_stats().num_objects - g_base);
}
static void g_opname(int op, char *buf) {
    static const char *KN[] = { "arr", "str", "struct", "opaque" };
    int t = op & 0xf000;
    if (t == 0x1000) sprintf(buf, "alloc_%s", KN[op & 3]);
    else if (t == 0x2000) sprintf(buf, "retain%d", op & 3);
    else if (t == 0x3000) sprintf(buf, "release%d", op & 3);
    else if (t == 0x4000) sprintf(buf, "store%d.%d=%d", (op >> 4) & 3, op & 3, (op >> 2) & 3);
    else if (t == 0x5000) sprintf(buf, "clear%d.%d", (op >> 4) & 3, op & 3);
    else if (t == 0x6000) sprintf(buf, "arrpush%d<-%d", (op >> 4) & 3, op & 3);
    else if (op == 0x7000) strcpy(buf, "collect");
    else if (op == 0x7001) strcpy(buf, "collect_all");
    else sprintf(buf, "op%x", op);
}
static int g_parse(const char *t) {
    int a, b, c;
    if (!strcmp(t, "alloc_arr")) return 0x1000;
    if (!strcmp(t, "alloc_str")) return 0x1001;
    if (!strcmp(t, "alloc_struct")) return 0x1002;
    if (!strcmp(t, "alloc_opaque")) return 0x1003;
    if (sscanf(t, "retain%d", &a) == 1) return 0x2000 | a;
    if (sscanf(t, "release%d", &a) == 1) return 0x3000 | a;
    if (sscanf(t, "store%d.%d=%d", &a, &b, &c) == 3) return 0x4000 | a << 4 | c << 2 | b;
    if (sscanf(t, "clear%d.%d", &a, &b) == 2) return 0x5000 | a << 4 | b;
    if (sscanf(t, "arrpush%d<-%d", &a, &b) == 2) return 0x6000 | a << 4 | b;
    if (!strcmp(t, "collect")) return 0x7000;
    if (!strcmp(t, "collect_all")) return 0x7001;
    return -1;
}
static const Family FAM_GC = { "gc", g_reset, g_enabled, g_apply, g_check, g_finish, g_opname, g_parse };

/* =========================================================================================== nl_string */
typedef struct { nl_string_t *s; bool used; size_t len; unsigned char b[64]; } NS;
static NS S[3];
/* op encoding (type in bits 12..15): 0x1000|k new from constant k ; 0x2000|i<<4|j concat ; 0x3000|i<<8|sc<<4|lc substring ; 0x4000|i clone ;
   0x5000|i to_cstr ; 0x6000|i ensure_nt ; 0x7000|i reserve ; 0x8000|i shrink ; 0x9000|i validate+utf8 queries ; 0xa000|i free ; 0xb000|i<<8|sc<<4|lc utf8_substring */
static const struct { const char *p; size_t n; int how; } NSC[] = {
    { "", 0, 0 }, { "a", 1, 0 }, { "h\xc3\xa9llo", 6, 0 }, { "ab\xff", 3, 0 }, { "", 0, 1 }, { "a\0b", 3, 1 }, { "", 0, 2 }, { "", 4, 2 }, { "\xe2\x82\xac", 3, 3 }, { "\xe2\x82", 2, 3 } };
#define NNSC 10
static int ns_free_slot(void) { for (int i = 0; i < 3; i++) if (!S[i].used) return i; return -1; }
static void ns_reset(void) { memset(S, 0, sizeof S); }
static size_t ns_pos(size_t len, int cls) { return cls == 0 ? 0 : cls == 1 ? 1 : cls == 2 ? len : len + 1; }
static int ns_enabled(int *ops) {
    int n = 0, fs = ns_free_slot();
    if (fs >= 0) for (int k = 0; k < NNSC; k++) ops[n++] = 0x1000 | k;
    for (int i = 0; i < 3; i++) {
        if (!S[i].used) continue;
        if (fs >= 0) {
            for (int j = 0; j < 3; j++) if (S[j].used) ops[n++] = 0x2000 | i << 4 | j;
            for (int sc = 0; sc < 3; sc++) for (int lc = 0; lc < 4; lc++) { ops[n++] = 0x3000 | i << 8 | sc << 4 | lc; }
            for (int sc = 0; sc < 3; sc++) for (int lc = 0; lc < 3; lc++) { ops[n++] = 0xb000 | i << 8 | sc << 4 | lc; }
            ops[n++] = 0x4000 | i;
        }
        ops[n++] = 0x5000 | i; ops[n++] = 0x6000 | i; ops[n++] = 0x7000 | i; ops[n++] = 0x8000 | i; ops[n++] = 0x9000 | i; ops[n++] = 0xa000 | i;
    }
    return n;
}
static bool utf8_ok(const unsigned char *b, size_t n, int64_t *chars) {
    size_t i = 0; int64_t c = 0;
    while (i < n) {
        int l = (b[i] & 0x80) == 0 ? 1 : (b[i] & 0xE0) == 0xC0 ? 2 : (b[i] & 0xF0) == 0xE0 ? 3 : (b[i] & 0xF8) == 0xF0 ? 4 : 0;
        if (!l || i + (size_t)l > n) return false;
        for (int j = 1; j < l; j++) if ((b[i + (size_t)j] & 0xC0) != 0x80) return false;
        i += (size_t)l; c++;
    }
    if (chars) *chars = c;
    return true;
}
static void ns_put(int slot, nl_string_t *s, const unsigned char *b, size_t n) {
    if (!s) { fail("operation returned NULL"); return; }
    S[slot].s = s; S[slot].used = true; S[slot].len = n;
    if (n) memcpy(S[slot].b, b, n);
}
static void ns_apply(int op) {
    int t = op & 0xf000, fs = ns_free_slot();
    if (t == 0x1000) {
        int k = op & 0xff;
        nl_string_t *s = NULL;
        switch (NSC[k].how) {
            case 0: s = nl_string_new(NSC[k].p); break;
            case 1: s = nl_string_new_binary(NSC[k].p, NSC[k].n); break;
            case 2: s = nl_string_with_capacity(NSC[k].n); ns_put(fs, s, NULL, 0); return;
            case 3: s = nl_string_from_utf8(NSC[k].p, NSC[k].n);
                    if (!utf8_ok((const unsigned char *)NSC[k].p, NSC[k].n, NULL)) { if (s) fail("from_utf8 accepted invalid UTF-8"); return; }
                    break;
        }
        ns_put(fs, s, (const unsigned char *)NSC[k].p, NSC[k].n);
        return;
    }
    if (t == 0x2000) {
        int i = (op >> 4) & 3, j = op & 3;
        unsigned char b[64];
        if (S[i].len + S[j].len > 60) return;
        memcpy(b, S[i].b, S[i].len); memcpy(b + S[i].len, S[j].b, S[j].len);
        ns_put(fs, nl_string_concat(S[i].s, S[j].s), b, S[i].len + S[j].len);
        return;
    }
    if (t == 0x3000) {
        int i = (op >> 8) & 3, sc = (op >> 4) & 3, lc = op & 3;
        size_t st = ns_pos(S[i].len, sc), ln = ns_pos(S[i].len, lc);
        size_t ml = st >= S[i].len ? 0 : (st + ln > S[i].len ? S[i].len - st : ln);
        ns_put(fs, nl_string_substring(S[i].s, st, ln), S[i].b + (st >= S[i].len ? 0 : st), ml);
        return;
    }
    if (t == 0xb000) {
        int i = (op >> 8) & 3, sc = (op >> 4) & 3, lc = op & 3;
        int64_t chars = 0;
        bool ok = utf8_ok(S[i].b, S[i].len, &chars);
        nl_string_validate_utf8(S[i].s);
        nl_string_t *r = nl_string_utf8_substring(S[i].s, ns_pos((size_t)chars, sc), ns_pos((size_t)chars, lc));
        if (!ok) { if (r) fail("utf8_substring of invalid UTF-8 returned a string"); return; }
        if (!r) { fail("utf8_substring of valid UTF-8 returned NULL"); return; }
        /* contents are checked only for being a contiguous piece of the source; the character arithmetic is not part of C20 */
        if (r->length > S[i].len) { fail("utf8_substring longer than its source"); nl_string_free(r); return; }
        ns_put(fs, r, (const unsigned char *)r->data, r->length);
        if (r->length && !memmem(S[i].b, S[i].len, r->data, r->length)) fail("utf8_substring is not a piece of its source");
        return;
    }
    int i = op & 3;
    switch (t) {
        case 0x4000: ns_put(fs, nl_string_clone(S[i].s), S[i].b, S[i].len); break;
        case 0x5000: { const char *c = nl_string_to_cstr(S[i].s); if (!c || strlen(c) > S[i].len || memcmp(c, S[i].b, strlen(c))) fail("to_cstr does not show the string's bytes"); break; }
        case 0x6000: nl_string_ensure_null_terminated(S[i].s); if (!S[i].s->null_terminated) fail("ensure_null_terminated left the flag clear"); break;
        case 0x7000: nl_string_reserve(S[i].s, S[i].len + 3); if (S[i].s->capacity < S[i].len + 3) fail("reserve did not grow the capacity"); break;
        case 0x8000: nl_string_shrink_to_fit(S[i].s); break;
        case 0x9000: {
            int64_t chars = 0;
            bool ok = utf8_ok(S[i].b, S[i].len, &chars);
            if (nl_string_validate_utf8(S[i].s) != ok) { fail("validate_utf8 disagrees with the model"); break; }
            if (ok && nl_string_utf8_length(S[i].s) != chars) fail("utf8_length %lld, model %lld", (long long)nl_string_utf8_length(S[i].s), (long long)chars);
            if (ok) for (int64_t c = 0; c <= chars; c++) (void)nl_string_utf8_char_at(S[i].s, (size_t)c);
            char out = 0;
            for (size_t k = 0; k < S[i].len; k++) if (!nl_string_byte_at_safe(S[i].s, k, &out) || (unsigned char)out != S[i].b[k]) { fail("byte_at_safe(%zu) wrong", k); break; }
            if (nl_string_byte_at_safe(S[i].s, S[i].len, &out)) fail("byte_at_safe accepts index == length");
            break;
        }
        case 0xa000: nl_string_free(S[i].s); S[i].used = false; S[i].s = NULL; break;
        default: fail("harness: bad op %x", op);
    }
}
static void ns_check(void) {
    for (int i = 0; i < 3; i++) {
        if (!S[i].used) continue;
        nchecks++;
        nl_string_t *s = S[i].s;
        if (nl_string_length(s) != S[i].len) { fail("string %d: length %zu, model %zu", i, nl_string_length(s), S[i].len); return; }
        if (s->capacity < s->length + (s->null_terminated ? 1u : 0u)) { fail("string %d: capacity %zu too small for length %zu (nt=%d)", i, s->capacity, s->length, (int)s->null_terminated); return; }
        if (!s->data) { fail("string %d: NULL data", i); return; }
        if (S[i].len && memcmp(s->data, S[i].b, S[i].len)) { fail("string %d: bytes differ from the model", i); return; }
        if (s->null_terminated && s->data[s->length] != 0) { fail("string %d: flagged null-terminated without terminator", i); return; }
        if (S[i].len > (size_t)maxlen_seen) maxlen_seen = (int)S[i].len;
        for (int j = 0; j < 3; j++) if (S[j].used) {
            bool eq = S[i].len == S[j].len && !memcmp(S[i].b, S[j].b, S[i].len);
            if (nl_string_equals(s, S[j].s) != eq) { fail("equals(%d,%d) wrong", i, j); return; }
        }
    }
}
static void ns_finish(void) { for (int i = 0; i < 3; i++) if (S[i].used) { nl_string_free(S[i].s); S[i].used = false; } }
static void ns_opname(int op, char *buf) {
    int t = op & 0xf000;
    static const char *PC[] = { "0", "1", "len", "len+1" };
    if (t == 0x1000) sprintf(buf, "new%d", op & 0xff);
    else if (t == 0x2000) sprintf(buf, "concat%d+%d", (op >> 4) & 3, op & 3);
    else if (t == 0x3000) sprintf(buf, "substr%d:%s:%s", (op >> 8) & 3, PC[(op >> 4) & 3], PC[op & 3]);
    else if (t == 0xb000) sprintf(buf, "usubstr%d:%s:%s", (op >> 8) & 3, PC[(op >> 4) & 3], PC[op & 3]);
    else { static const char *N[] = { "", "", "", "", "clone", "cstr", "ensure_nt", "reserve", "shrink", "utf8", "free" }; sprintf(buf, "%s%d", N[t >> 12], op & 3); }
}
static int ns_parse(const char *tk) {
    int a, b;
    char p[16], q[16];
    if (sscanf(tk, "new%d", &a) == 1) return 0x1000 | a;
    if (sscanf(tk, "concat%d+%d", &a, &b) == 2) return 0x2000 | a << 4 | b;
    for (int u = 0; u < 2; u++) if (sscanf(tk, u ? "usubstr%d:%15[^:]:%15s" : "substr%d:%15[^:]:%15s", &a, p, q) == 3) {
        int pc = !strcmp(p, "0") ? 0 : !strcmp(p, "1") ? 1 : !strcmp(p, "len") ? 2 : 3, qc = !strcmp(q, "0") ? 0 : !strcmp(q, "1") ? 1 : !strcmp(q, "len") ? 2 : 3;
        return (u ? 0xb000 : 0x3000) | a << 8 | pc << 4 | qc;
    }
    static const char *N[] = { "clone", "cstr", "ensure_nt", "reserve", "shrink", "utf8", "free" };
    for (int k = 0; k < 7; k++) { size_t l = strlen(N[k]); if (!strncmp(tk, N[k], l) && tk[l] >= '0' && tk[l] <= '2' && !tk[l + 1]) return (0x4000 + k * 0x1000) | (tk[l] - '0'); }
    return -1;
}
static const Family FAM_NS = { "ns", ns_reset, ns_enabled, ns_apply, ns_check, ns_finish, ns_opname, ns_parse };

/* =========================================================================================== exploration */
/* RT_EXCLUDE=name,name : operation classes (names cut at their first digit) that are left out of the enumeration; the driver
 * uses it after a crash so that the rest of the space is still explored (and says so in the evidence). */
static char excl[16][32];
static int nexcl;
static int filter_ops(int *ops, int n) {
    if (!nexcl) return n;
    int m = 0;
    for (int k = 0; k < n; k++) {
        char t[64];
        F->opname(ops[k], t);
        for (char *q = t; *q; q++) if (*q >= '0' && *q <= '9') { *q = 0; break; }   /* class = name up to its first digit */
        bool drop = false;
        for (int e = 0; e < nexcl; e++) if (!strcmp(t, excl[e])) drop = true;
        if (!drop) ops[m++] = ops[k];
    }
    return m;
}
static void run_history(int n) {
    bad = false;
    hlen = n;
    cur_step = 0;
    F->reset();
    for (int i = 0; i < n && !bad; i++) {
        cur_step = i;
        if (verbose) {
            char t[64];
            int ops[512], n = F->enabled(ops);
            bool legal = false;
            for (int k = 0; k < n; k++) if (ops[k] == hist[i]) legal = true;
            F->opname(hist[i], t);
            if (!legal) { printf("ILLEGAL step %d %s is not enabled in this state\n", i, t); fflush(stdout); exit(2); }
            printf("STEP %d %s\n", i, t); fflush(stdout);
        }
        F->apply(hist[i]);
        nops++;
        if (!bad) F->check();
    }
}

static void dfs(int depth) {
    /* the state after hist[0..depth) is live here */
    int ops[512];
    int n = bad ? 0 : filter_ops(ops, F->enabled(ops));
    cur_step = depth;
    F->finish();
    nhist++;
    if (depth >= L || bad) return;
    for (int k = 0; k < n; k++) {
        if (depth == 0 && branch >= 0 && k != branch) continue;
        hist[depth] = ops[k];
        run_history(depth + 1);
        dfs(depth + 1);
    }
}

/* iterative deepening with one forked child per history of exactly length `want` */
static bool fork_level(int depth, int want) {
    int ops[512];
    int n = filter_ops(ops, F->enabled(ops));
    F->finish();
    for (int k = 0; k < n; k++) {
        if (depth == 0 && branch >= 0 && k != branch) continue;
        hist[depth] = ops[k];
        if (depth + 1 == want) {
            fflush(stdout);
            pid_t p = fork();
            if (p < 0) { perror("fork"); exit(3); }
            if (p == 0) { run_history(want); if (!bad) { cur_step = want; F->finish(); } fflush(stdout); _exit(bad ? 3 : 0); }
            int st = 0;
            while (waitpid(p, &st, 0) < 0) {}
            nhist++;
            if (!(WIFEXITED(st) && (WEXITSTATUS(st) == 0 || WEXITSTATUS(st) == 3))) {
                char h[1024];
                hlen = want;
                hist_str(h, sizeof h, want);
                printf("CRASH %s status=%d\n", h, st);
                fflush(stdout);
                return true;
            }
        } else {
            run_history(depth + 1);
            if (bad) { F->finish(); continue; }
            if (fork_level(depth + 1, want)) return true;
        }
    }
    return false;
}

/* =========================================================================================== out-of-range family */
static int oob_child(const char *fam, int k) {
    DynArray *a = dyn_array_new(ELEM_INT);
    dyn_array_push_int(a, 1); dyn_array_push_int(a, 2);
    DynArray *s = dyn_array_new(ELEM_STRUCT);
    uint8_t st[24] = { 0 };
    dyn_array_push_struct(s, st, 24);
    List_int *li = list_int_new(); list_int_push(li, 1);
    List_string *ls = list_string_new(); list_string_push(ls, "x");
    (void)fam;
    switch (k) {
        case 0: (void)dyn_array_get_int(a, 2); break;
        case 1: (void)dyn_array_get_int(a, -1); break;
        case 2: dyn_array_set_int(a, 2, 5); break;
        case 3: dyn_array_remove_at(a, 2); break;
        case 4: dyn_array_remove_at(a, -1); break;
        case 5: (void)dyn_array_get_struct(s, 1); break;
        case 6: dyn_array_set_struct(s, 1, st, 24); break;
        case 7: (void)dyn_array_get_int(a, INT64_MAX); break;
        case 8: (void)list_int_get(li, 1); break;
        case 9: (void)list_int_get(li, -1); break;
        case 10: list_int_set(li, 1, 3); break;
        case 11: list_int_insert(li, 2, 3); break;
        case 12: (void)list_int_remove(li, 1); break;
        case 13: list_int_clear(li); (void)list_int_pop(li); break;
        case 14: (void)list_string_get(ls, 1); break;
        case 15: list_string_set(ls, -1, "y"); break;
        case 16: list_string_insert(ls, 2, "y"); break;
        case 17: (void)list_string_remove(ls, 1); break;
        case 18: list_string_clear(ls); (void)list_string_pop(ls); break;
        case 19: { bool ok = true; dyn_array_clear(a); (void)dyn_array_pop_int(a, &ok); return ok ? 9 : 0; }
        case 20: { GCStruct *g = gc_struct_new("N", 1); return gc_struct_get_field(g, 1) == NULL ? 0 : 9; }
        default: return 100;
    }
    return 0;
}
static int run_oob(const char *fam) {
    int total = 0;
    for (int k = 0;; k++) {
        fflush(stdout);
        pid_t p = fork();
        if (p == 0) { int r = oob_child(fam, k); fflush(stdout); _exit(r); }
        int st = 0;
        while (waitpid(p, &st, 0) < 0) {}
        if (WIFEXITED(st) && WEXITSTATUS(st) == 100) break;
        printf("OOB %d %s %d\n", k, WIFSIGNALED(st) ? "signal" : "exit", WIFSIGNALED(st) ? WTERMSIG(st) : WEXITSTATUS(st));
        total++;
    }
    printf("STAT family=oob histories=%d ops=%d checks=%d fails=0 maxlen=0\n", total, total, total);
    return 0;
}

/* =========================================================================================== main */
static bool select_family(const char *f) {
    if (!strncmp(f, "da:", 3)) {
        const char *k = f + 3;
        F = &FAM_DA;
        da_ssize = 0;
        if (!strcmp(k, "int")) { da_kind = K_INT; da_et = ELEM_INT; }
        else if (!strcmp(k, "u8")) { da_kind = K_U8; da_et = ELEM_U8; }
        else if (!strcmp(k, "float")) { da_kind = K_FLOAT; da_et = ELEM_FLOAT; }
        else if (!strcmp(k, "bool")) { da_kind = K_BOOL; da_et = ELEM_BOOL; }
        else if (!strcmp(k, "str")) { da_kind = K_STR; da_et = ELEM_STRING; }
        else if (!strcmp(k, "arr")) { da_kind = K_ARR; da_et = ELEM_ARRAY; }
        else if (!strncmp(k, "st", 2)) { da_kind = K_ST; da_et = ELEM_STRUCT; da_ssize = atoi(k + 2); if (da_ssize < 1 || da_ssize > 24) return false; }
        else return false;
        return true;
    }
    if (!strcmp(f, "li")) { F = &FAM_L; ls_mode = false; return true; }
    if (!strcmp(f, "ls")) { F = &FAM_L; ls_mode = true; return true; }
    if (!strcmp(f, "gc")) { F = &FAM_GC; return true; }
    if (!strcmp(f, "ns")) { F = &FAM_NS; return true; }
    return false;
}

int main(int argc, char **argv) {
    if (argc < 3) { fprintf(stderr, "usage: rt_probe count|dfs|forkdfs|replay|oob <family> ...\n"); return 2; }
    setvbuf(stdout, NULL, _IOFBF, 1 << 16);
    const char *mode = argv[1], *fam = argv[2];
    if (!strcmp(mode, "oob")) return run_oob(fam);
    if (!select_family(fam)) { fprintf(stderr, "unknown family %s\n", fam); return 2; }
    signal(SIGABRT, on_abort);
    if (getenv("RT_EXCLUDE")) {
        char *e = strdup(getenv("RT_EXCLUDE"));
        for (char *t = strtok(e, ","); t && nexcl < 16; t = strtok(NULL, ",")) { strncpy(excl[nexcl], t, 31); nexcl++; }
    }
    signal(SIGFPE, on_abort);
    gc_init();
    if (!strcmp(mode, "count")) {
        int ops[512];
        F->reset();
        printf("BRANCHES %d\n", F->enabled(ops));
        return 0;
    }
    if (!strcmp(mode, "replay")) {
        if (argc < 4) return 2;
        char *s = strdup(argv[3]);
        int n = 0;
        for (char *t = strtok(s, ","); t; t = strtok(NULL, ",")) {
            int c = F->parse(t);
            if (c < 0 || n >= MAXL) { fprintf(stderr, "cannot parse op '%s'\n", t); return 2; }
            hist[n++] = c;
        }
        verbose = true;
        /* the same legality check the enumeration applies: every op must be enabled in the state it is applied in */
        run_history(n);
        if (!bad) { cur_step = n; F->finish(); }
        printf("REPLAY %s fails=%ld\n", bad ? "mismatch" : "ok", nfail);
        fflush(stdout);
        return bad ? 1 : 0;
    }
    if (argc < 5) return 2;
    L = atoi(argv[3]);
    if (L < 1 || L > MAXL) return 2;
    branch = strcmp(argv[4], "all") ? atoi(argv[4]) : -1;
    if (!strcmp(mode, "dfs")) {
        run_history(0);
        dfs(0);
    } else if (!strcmp(mode, "forkdfs")) {
        for (int want = 1; want <= L; want++) {
            run_history(0);
            if (fork_level(0, want)) break;
        }
    } else return 2;
    printf("STAT family=%s histories=%ld ops=%ld checks=%ld fails=%ld maxlen=%d\n", fam, nhist, nops, nchecks, nfail, maxlen_seen);
    fflush(stdout);
    return nfail ? 1 : 0;
}
