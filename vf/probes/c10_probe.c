/*
 * c10_probe - size-boundary part of property C10 (used by vf/checks/c10.py only).
 *
 * Reuses the module comparison (mod_diff) and the file round trip (cmd_rt) of nvm_probe.c by
 * including it with its main() renamed, so there is one definition of "equal field by field".
 *
 *   c10_probe info <file.nvm>...      one "INFO <file> key=value..." line per module (table sizes)
 *   c10_probe rt <file.nvm>...        as nvm_probe rt
 *   c10_probe sizes <quick|thorough>  modules built through the nvm_* API whose table sizes sit on and
 *                                     around every power of two (the capacity-looking constants of the
 *                                     format and of the loader); every element: deserialize(serialize(m))
 *                                     == m field by field, serialize idempotent, the image reloads from an
 *                                     exact-size buffer.
 *
 * Output protocol as nvm_probe: "FAIL <class> <details>" lines and a final "STAT key=value ..." line.
 */
#define main nvm_probe_main_not_used
#include "nvm_probe.c"
#undef main

/* ------------------------------------------------------------------ info */
static int c10_info(int argc, char **argv) {
    for (int i = 0; i < argc; i++) {
        uint32_t sz; uint8_t *b = read_file(argv[i], &sz);
        NvmModule *m = nvm_deserialize(b, sz);
        if (!m) { printf("INFO %s load=refused bytes=%u\n", argv[i], sz); free(b); continue; }
        uint32_t maxs = 0, maxf = 0;
        for (uint32_t k = 0; k < m->string_count; k++) if (m->string_lengths[k] > maxs) maxs = m->string_lengths[k];
        for (uint32_t k = 0; k < m->function_count; k++) if (m->functions[k].code_length > maxf) maxf = m->functions[k].code_length;
        uint32_t entry_off = 0;
        if (m->header.entry_point < m->function_count) entry_off = m->functions[m->header.entry_point].code_offset;
        printf("INFO %s load=ok bytes=%u strings=%u functions=%u code=%u imports=%u debug=%u maxstr=%u maxfn=%u flags=%u entry=%u entry_off=%u\n",
               argv[i], sz, m->string_count, m->function_count, m->code_size, m->import_count, m->debug_count,
               maxs, maxf, m->header.flags, m->header.entry_point, entry_off);
        nvm_module_free(m); free(b);
    }
    return 0;
}

/* ------------------------------------------------------------------ sizes */
typedef struct {
    uint32_t nstr;      /* number of distinct pooled strings */
    uint32_t slen;      /* length of the one long string (0 = none; it is pooled in addition to nstr) */
    uint32_t nfn;       /* function table entries */
    uint32_t ncode;     /* code bytes */
    uint32_t nimp;      /* import entries */
    uint32_t npar;      /* parameter count of the LAST import (the others have i % 4 parameters) */
    uint32_t ndbg;      /* debug entries */
} SizeCase;

static unsigned long long sz_n = 0, sz_big = 0;
static unsigned long sz_shown = 0;

static NvmModule *sz_build(const SizeCase *c) {
    NvmModule *m = nvm_module_new();
    char tmp[64];
    for (uint32_t k = 0; k < c->nstr; k++) {
        /* distinct by construction; entry 0 is the empty string when there are at least two.  The lengths vary
         * (k % 29 padding bytes) so that the linear de-duplication of nvm_add_string mostly compares lengths:
         * 65537 equally long strings would cost minutes under the sanitizer's memcmp. */
        int n = (k == 0 && c->nstr > 1) ? 0 : snprintf(tmp, sizeof tmp, "s%u%.*s", k, (int)(k % 29u), "____________________________");
        uint32_t idx = nvm_add_string(m, tmp, (uint32_t)n);
        if (idx != k) { fprintf(stderr, "probe: string %u landed at %u\n", k, idx); exit(3); }
    }
    if (c->slen) {
        char *s = malloc(c->slen);
        for (uint32_t k = 0; k < c->slen; k++) s[k] = (char)('A' + (k * 7u + (k >> 8)) % 53u);   /* never looks like "s<k>" twice */
        s[0] = '#';
        nvm_add_string(m, s, c->slen);
        free(s);
    }
    for (uint32_t k = 0; k < c->nfn; k++) {
        NvmFunctionEntry f;
        f.name_idx = k * 2654435761u;  f.arity = (uint16_t)(k * 3u);  f.code_offset = k * 18u + 1u;
        f.code_length = 0xFFFFFFFFu - k; f.local_count = (uint16_t)(0xFFFFu - k); f.upvalue_count = (uint16_t)(k >> 3);
        nvm_add_function(m, &f);
    }
    if (c->ncode) {
        uint8_t *code = malloc(c->ncode);
        for (uint32_t k = 0; k < c->ncode; k++) code[k] = (uint8_t)(k * 31u + (k >> 8) + 7u);
        /* appended in two pieces when possible: the growth loop of nvm_append_code sees a non-empty section */
        uint32_t first = c->ncode > 3 ? c->ncode / 3 : c->ncode;
        nvm_append_code(m, code, first);
        if (c->ncode > first) nvm_append_code(m, code + first, c->ncode - first);
        free(code);
    }
    for (uint32_t k = 0; k < c->nimp; k++) {
        uint32_t pc = (k + 1 == c->nimp) ? c->npar : (k % 4u);
        uint8_t *pt = pc ? malloc(pc) : NULL;
        for (uint32_t q = 0; q < pc; q++) pt[q] = (uint8_t)((q + k) % 11u);
        nvm_add_import(m, k * 7u, 0xFFFFFFFFu - k, (uint16_t)pc, (uint8_t)(k % 9u), pt);
        free(pt);
    }
    for (uint32_t k = 0; k < c->ndbg; k++) nvm_add_debug_entry(m, k * 3u, 0xFFFFFFFFu - k * 5u);
    m->header.flags = (c->nfn ? NVM_FLAG_HAS_MAIN : 0) | (c->nimp ? NVM_FLAG_NEEDS_EXTERN : 0) | (c->ndbg ? NVM_FLAG_DEBUG_INFO : 0);
    m->header.entry_point = c->nfn ? c->nfn - 1 : 0;
    return m;
}

static void sz_one(const SizeCase *c, const char *family) {
    NvmModule *m = sz_build(c);
    sz_n++; n_eval++;
    if (c->nstr > 4096 || c->nfn > 512 || c->ncode > 65535 || c->nimp > 256 || c->ndbg > 256 || c->slen > 65535 || c->npar > 255) sz_big++;
    char why[256] = "";
    /* what was built is what was asked for (a builder that silently stops growing is a finding too) */
    if (m->string_count != c->nstr + (c->slen ? 1 : 0)) snprintf(why, sizeof why, "builder: string_count %u, asked %u", m->string_count, c->nstr + (c->slen ? 1 : 0));
    else if (m->function_count != c->nfn) snprintf(why, sizeof why, "builder: function_count %u, asked %u", m->function_count, c->nfn);
    else if (m->code_size != c->ncode) snprintf(why, sizeof why, "builder: code_size %u, asked %u", m->code_size, c->ncode);
    else if (m->import_count != c->nimp) snprintf(why, sizeof why, "builder: import_count %u, asked %u", m->import_count, c->nimp);
    else if (m->debug_count != c->ndbg) snprintf(why, sizeof why, "builder: debug_count %u, asked %u", m->debug_count, c->ndbg);
    uint32_t s1 = 0; uint8_t *b1 = why[0] ? NULL : nvm_serialize(m, &s1);
    if (why[0]) { /* keep */ }
    else if (!b1) snprintf(why, sizeof why, "serialize returned NULL");
    else {
        uint8_t *ex = malloc(s1); memcpy(ex, b1, s1);          /* exact-size copy: asan sees overreads */
        NvmModule *m2 = nvm_deserialize(ex, s1);
        if (!m2) snprintf(why, sizeof why, "deserialize(serialize(m)) refused (%u bytes)", s1);
        else {
            if (!mod_diff(m, m2, true, why, sizeof why)) {
                uint32_t s2 = 0; uint8_t *b2 = nvm_serialize(m2, &s2);
                if (!b2 || s2 != s1 || memcmp(b1, b2, s1)) snprintf(why, sizeof why, "serialize not idempotent (%u vs %u bytes)", s1, s2);
                free(b2);
            }
            nvm_module_free(m2);
        }
        free(ex);
    }
    if (why[0]) {
        n_fail++;
        if (sz_shown++ < 60)
            printf("FAIL c10size %s strings=%u longstr=%u fns=%u code=%u imps=%u lastparams=%u dbg=%u : %s\n",
                   family, c->nstr, c->slen, c->nfn, c->ncode, c->nimp, c->npar, c->ndbg, why);
    }
    free(b1); nvm_module_free(m);
}

/* every power of two 2^k and its two neighbours, 0 <= k <= maxk, plus 0 */
static int pow2_list(uint32_t *out, int maxk, uint32_t cap) {
    int n = 0; out[n++] = 0;
    for (int k = 0; k <= maxk; k++)
        for (int d = -1; d <= 1; d++) {
            uint32_t v = (1u << k) + (uint32_t)d;
            if (v > cap) continue;
            int dup = 0; for (int q = 0; q < n; q++) if (out[q] == v) dup = 1;
            if (!dup) out[n++] = v;
        }
    return n;
}

static int c10_sizes(int argc, char **argv) {
    int thorough = argc > 0 && !strcmp(argv[0], "thorough");
    uint32_t L[80]; int nl;
    static const SizeCase bases[2] = {
        {0, 0, 0, 0, 0, 0, 0},
        {3, 0, 2, 5, 1, 2, 1},
    };
    unsigned long long per_family[8] = {0};
    /* sweep: one dimension over its whole list, the other dimensions at each base */
    for (int dim = 0; dim < 7; dim++) {
        int maxk; uint32_t cap = 0xFFFFFFFFu;
        switch (dim) {
            case 0: maxk = thorough ? 16 : 13; break;          /* pooled strings: insertion de-duplicates linearly */
            case 1: maxk = thorough ? 24 : 20; break;          /* one long string */
            case 2: maxk = thorough ? 20 : 16; break;          /* functions */
            case 3: maxk = thorough ? 26 : 22; break;          /* code bytes */
            case 4: maxk = thorough ? 18 : 16; break;          /* imports */
            case 5: maxk = 16; cap = 65535; break;             /* parameters of one import (u16 field) */
            default: maxk = thorough ? 20 : 16; break;         /* debug entries */
        }
        nl = pow2_list(L, maxk, cap);
        for (int b = 0; b < 2; b++)
            for (int i = 0; i < nl; i++) {
                SizeCase c = bases[b];
                switch (dim) {
                    case 0: c.nstr = L[i]; break;   case 1: c.slen = L[i]; break;   case 2: c.nfn = L[i]; break;
                    case 3: c.ncode = L[i]; break;  case 4: c.nimp = L[i]; break;
                    case 5: c.npar = L[i]; if (!c.nimp) c.nimp = 1; break;
                    default: c.ndbg = L[i]; break;
                }
                sz_one(&c, "sweep");
                per_family[dim]++;
            }
    }
    /* product: every combination of a reduced list over the four tables x two code sizes x long string or not */
    static const uint32_t Rq[] = {0, 1, 513, 4097};
    static const uint32_t Rt[] = {0, 1, 2, 257, 513, 1025, 4097};
    const uint32_t *R = thorough ? Rt : Rq; int nr = thorough ? 7 : 4;
    for (int a = 0; a < nr; a++) for (int b = 0; b < nr; b++) for (int c3 = 0; c3 < nr; c3++) for (int d = 0; d < nr; d++)
        for (int ci = 0; ci < 2; ci++) for (int li = 0; li < 2; li++) {
            SizeCase c = {R[a], li ? 65536u : 0u, R[b], ci ? 65537u : 0u, R[c3], R[c3] ? 257u : 0u, R[d]};
            sz_one(&c, "product");
            per_family[7]++;
        }
    printf("STAT modules=%llu beyond_capacity_constants=%llu sweep_strings=%llu sweep_longstring=%llu sweep_functions=%llu sweep_code=%llu "
           "sweep_imports=%llu sweep_params=%llu sweep_debug=%llu product=%llu evaluations=%lu fails=%lu\n",
           sz_n, sz_big, per_family[0], per_family[1], per_family[2], per_family[3], per_family[4], per_family[5], per_family[6], per_family[7],
           n_eval, n_fail);
    return 0;
}

int main(int argc, char **argv) {
    setvbuf(stdout, NULL, _IOLBF, 0);
    if (argc < 2) { fprintf(stderr, "usage: c10_probe info|rt|sizes ...\n"); return 3; }
    if (!strcmp(argv[1], "info")) return c10_info(argc - 2, argv + 2);
    if (!strcmp(argv[1], "rt")) return cmd_rt(argc - 2, argv + 2);
    if (!strcmp(argv[1], "sizes")) return c10_sizes(argc - 2, argv + 2);
    fprintf(stderr, "unknown command %s\n", argv[1]);
    return 3;
}
