/*
 * vmd_mc - stateless model checker for the nano_vmd session code (properties C17 / C18).
 *
 * The tree's own src/nanovm/vmd_server.c is #included, so the REAL static client_thread() is what runs:
 * one pthread per client session, each on a socketpair whose request bytes were written in advance.
 * Every thread is held on a baton; exactly one runs at a time and it can only lose the baton at a
 * scheduling point:
 *     read / write / close on a session socket, pthread_mutex_lock / unlock   (ld --wrap)
 *     selected VM instructions (print, globals, calls, string / array allocation)  (hook H1)
 *     thread start and thread end
 * A schedule is the sequence of choices taken at these points.  The explorer (CHESS-style iterative
 * context bounding) forks one child per schedule, replays the prefix, takes the default choice
 * (keep running the current thread) afterwards, and from the recorded trace derives every alternative
 * whose number of preemptions stays within the bound.  Exploration is exhaustive for the bound.
 *
 * Oracle (per complete schedule): every well-behaved client's reply byte stream is identical to the
 * stream the same request gets when it is served alone; g_active_clients is 0 at the end; no thread is
 * stuck; ASan clean (the child dies otherwise).
 *
 * usage: vmd_mc <bound> <maxexec> <spec>...      spec = file.nvm[:behaviour]
 *   behaviours: exec (default) | ping | status | drop<k> (client closes its end before the server's k-th
 *               write to it) | trunc<n> (only the first n bytes of the request are sent, then EOF) |
 *               raw:<hex> (arbitrary request bytes, then EOF)
 * output: "SOLO i <hex>" reference streams, "VIOL kind=<..> schedule=<..> ..." lines, one "STAT ..." line.
 */
#ifndef _GNU_SOURCE
#define _GNU_SOURCE
#endif
#include "vmd_server.c"            /* the code under test (tree's src/nanovm on the include path) */

#include <sys/wait.h>
#include <stdarg.h>

int g_argc = 0;
char **g_argv = NULL;

/* real functions behind ld --wrap */
ssize_t __real_read(int fd, void *buf, size_t n);
ssize_t __real_write(int fd, const void *buf, size_t n);
int __real_close(int fd);
int __real_pthread_mutex_lock(pthread_mutex_t *m);
int __real_pthread_mutex_unlock(pthread_mutex_t *m);

#define MAXT 4
#define MAXP 4096

typedef struct {
    const char *file;       /* module (may be "-" for none) */
    char beh[64];
    uint8_t *req; size_t req_len;      /* request bytes the client sends */
    int drop_at;                       /* -1: never */
    int well_behaved;                  /* reply stream is compared with the solo stream */
} Spec;

static Spec specs[MAXT];
static int NT = 0;

/* ------------------------------------------------------------------ scheduler (child side) */
enum { T_WAIT = 0, T_DONE = 2 };
static pthread_mutex_t sch_mu = PTHREAD_MUTEX_INITIALIZER;
static pthread_cond_t sch_cv = PTHREAD_COND_INITIALIZER;
static int sch_cur = -1;               /* thread holding the baton */
static int sch_state[MAXT];
static int sch_blocked[MAXT];          /* waiting for the (single) application mutex */
static int app_mutex_owner = -1;
static __thread int my_tid = -1;
static int sch_on = 0;

static int prefix[MAXP]; static int prefix_len = 0;
static struct { uint8_t tid, nen, cur_enabled, choice; char kind; } trace[MAXP];
static int trace_len = 0;
static int srv_fd[MAXT], cli_fd[MAXT];
static int writes_seen[MAXT];
static int harness_error = 0;

static int enabled(int t) { return sch_state[t] != T_DONE && !sch_blocked[t]; }

/* called with the baton held by `me` (or me == -1 at start): pick who runs next */
static int choose_next(int me, char kind) {
    int order[MAXT], n = 0;
    int cur_en = (me >= 0 && enabled(me));
    if (cur_en) order[n++] = me;
    for (int t = 0; t < NT; t++) if (t != me && enabled(t)) order[n++] = t;
    if (n == 0) return -1;
    int c = 0;
    if (n > 1) {
        if (trace_len >= MAXP) { harness_error = 1; return order[0]; }
        if (trace_len < prefix_len) {
            c = prefix[trace_len];
            if (c < 0 || c >= n) { harness_error = 2; c = 0; }       /* replay divergence */
        }
        trace[trace_len].tid = (uint8_t)(me < 0 ? 255 : me);
        trace[trace_len].nen = (uint8_t)n;
        trace[trace_len].cur_enabled = (uint8_t)cur_en;
        trace[trace_len].choice = (uint8_t)c;
        trace[trace_len].kind = kind;
        trace_len++;
    }
    return order[c];
}

static void hand_over(int me, int next) {
    /* sch_mu held */
    sch_cur = next;
    pthread_cond_broadcast(&sch_cv);
    if (me >= 0 && sch_state[me] != T_DONE)
        while (sch_cur != me) pthread_cond_wait(&sch_cv, &sch_mu);
}

static void sched_point(char kind) {
    if (!sch_on || my_tid < 0) return;
    __real_pthread_mutex_lock(&sch_mu);
    int next = choose_next(my_tid, kind);
    if (next >= 0 && next != my_tid) hand_over(my_tid, next);
    __real_pthread_mutex_unlock(&sch_mu);
}

static int is_session_fd(int fd) {
    for (int t = 0; t < NT; t++) if (fd == srv_fd[t]) return t;
    return -1;
}

ssize_t __wrap_read(int fd, void *buf, size_t n) {
    if (my_tid >= 0 && is_session_fd(fd) >= 0) sched_point('r');
    return __real_read(fd, buf, n);
}
ssize_t __wrap_write(int fd, const void *buf, size_t n) {
    int s = (my_tid >= 0) ? is_session_fd(fd) : -1;
    if (s >= 0) {
        sched_point('w');
        if (specs[s].drop_at >= 0 && writes_seen[s] == specs[s].drop_at && cli_fd[s] >= 0) {
            __real_close(cli_fd[s]); cli_fd[s] = -1;          /* the client walks away now */
        }
        writes_seen[s]++;
    }
    return __real_write(fd, buf, n);
}
int __wrap_close(int fd) {
    if (my_tid >= 0 && is_session_fd(fd) >= 0) sched_point('c');
    return __real_close(fd);
}
int __wrap_pthread_mutex_lock(pthread_mutex_t *m) {
    if (!sch_on || my_tid < 0 || m != &g_client_count_mutex) return __real_pthread_mutex_lock(m);
    sched_point('l');
    __real_pthread_mutex_lock(&sch_mu);
    while (app_mutex_owner >= 0) {                 /* held by a preempted thread: we are not enabled */
        sch_blocked[my_tid] = 1;
        int next = choose_next(my_tid, 'b');
        if (next < 0) { harness_error = 3; break; }     /* deadlock */
        hand_over(my_tid, next);
        sch_blocked[my_tid] = 0;
    }
    app_mutex_owner = my_tid;
    __real_pthread_mutex_unlock(&sch_mu);
    return __real_pthread_mutex_lock(m);
}
int __wrap_pthread_mutex_unlock(pthread_mutex_t *m) {
    if (!sch_on || my_tid < 0 || m != &g_client_count_mutex) return __real_pthread_mutex_unlock(m);
    sched_point('u');
    int r = __real_pthread_mutex_unlock(m);
    __real_pthread_mutex_lock(&sch_mu);
    app_mutex_owner = -1;
    for (int t = 0; t < NT; t++) sch_blocked[t] = 0;
    __real_pthread_mutex_unlock(&sch_mu);
    return r;
}

/* optional: every allocation made by a session thread is a scheduling point (exposes buffers shared between
 * sessions that are filled and consumed inside one VM instruction, e.g. snprintf -> malloc -> memcpy) */
void *__real_malloc(size_t n);
void *__real_calloc(size_t a, size_t b);
static int malloc_points = 0;
void *__wrap_malloc(size_t n) { if (malloc_points && sch_on && my_tid >= 0) sched_point('m'); return __real_malloc(n); }
void *__wrap_calloc(size_t a, size_t b) { if (malloc_points && sch_on && my_tid >= 0) sched_point('m'); return __real_calloc(a, b); }

#ifdef NANOLANG_VERIF
static int vm_points = 1;
static int step_hook(VmState *vm) {
    if (vm_points && my_tid >= 0 && vm->module && vm->ip < vm->module->code_size) {
        uint8_t op = vm->module->code[vm->ip];
        switch (op) {
        case OP_PRINT: case OP_PRINTLN: case OP_ASSERT: case OP_LOAD_GLOBAL: case OP_STORE_GLOBAL:
        case OP_CALL: case OP_RET: case OP_PUSH_STR: case OP_STR_CONCAT: case OP_STR_FROM_INT: case OP_ADD:
        case OP_ARR_LITERAL: case OP_ARR_PUSH: case OP_STRUCT_LITERAL:
            sched_point('v');
            break;
        default: break;
        }
    }
    return 1;
}
#endif

static void *tmain(void *arg) {
    int t = (int)(intptr_t)arg;
    my_tid = t;
    __real_pthread_mutex_lock(&sch_mu);
    while (sch_cur != t) pthread_cond_wait(&sch_cv, &sch_mu);
    __real_pthread_mutex_unlock(&sch_mu);

    ClientCtx *ctx = malloc(sizeof *ctx);
    ctx->client_fd = srv_fd[t];
    ctx->verbose = false;
    client_thread(ctx);

    __real_pthread_mutex_lock(&sch_mu);
    sch_state[t] = T_DONE;
    int next = choose_next(t, 'e');
    sch_cur = next;                     /* -1 when everybody is done */
    pthread_cond_broadcast(&sch_cv);
    __real_pthread_mutex_unlock(&sch_mu);
    my_tid = -1;
    return NULL;
}

/* ------------------------------------------------------------------ one execution (in the child) */
typedef struct { uint8_t *b; size_t n; } Buf;

static void drain(int fd, Buf *out) {
    out->b = NULL; out->n = 0;
    if (fd < 0) return;
    int fl = fcntl(fd, F_GETFL); fcntl(fd, F_SETFL, fl | O_NONBLOCK);
    size_t cap = 4096; out->b = malloc(cap);
    for (;;) {
        if (out->n == cap) { cap *= 2; out->b = realloc(out->b, cap); }
        ssize_t r = __real_read(fd, out->b + out->n, cap - out->n);
        if (r <= 0) break;
        out->n += (size_t)r;
    }
}

static void wr_all(int fd, const void *p, size_t n) {
    const uint8_t *q = p;
    while (n) { ssize_t w = __real_write(fd, q, n); if (w <= 0) { if (errno == EINTR) continue; _exit(90); } q += w; n -= (size_t)w; }
}

/* runs the sessions in `mask` under the schedule in prefix[]; writes the result record to `outfd` */
static void run_child(unsigned mask, int outfd) {
    alarm(60);
    setup_signals();
    int active[MAXT], na = 0;
    for (int t = 0; t < NT; t++) { srv_fd[t] = cli_fd[t] = -1; sch_state[t] = T_DONE; }
    for (int t = 0; t < NT; t++) {
        if (!(mask & (1u << t))) continue;
        int sv[2];
        if (socketpair(AF_UNIX, SOCK_STREAM, 0, sv) != 0) _exit(91);
        int big = 4 << 20;
        setsockopt(sv[0], SOL_SOCKET, SO_SNDBUF, &big, sizeof big);
        setsockopt(sv[1], SOL_SOCKET, SO_SNDBUF, &big, sizeof big);
        srv_fd[t] = sv[0]; cli_fd[t] = sv[1];
        wr_all(cli_fd[t], specs[t].req, specs[t].req_len);
        if (strncmp(specs[t].beh, "trunc", 5) == 0 || strncmp(specs[t].beh, "raw", 3) == 0)
            shutdown(cli_fd[t], SHUT_WR);            /* the rest of the request never comes */
        sch_state[t] = T_WAIT;
        active[na++] = t;
    }
#ifdef NANOLANG_VERIF
    nl_verif_vm_step = step_hook;
#endif
    pthread_t th[MAXT];
    sch_on = 1;
    for (int i = 0; i < na; i++) pthread_create(&th[i], NULL, tmain, (void *)(intptr_t)active[i]);
    __real_pthread_mutex_lock(&sch_mu);
    int first = choose_next(-1, 's');
    sch_cur = first;
    pthread_cond_broadcast(&sch_cv);
    __real_pthread_mutex_unlock(&sch_mu);
    for (int i = 0; i < na; i++) pthread_join(th[i], NULL);
    sch_on = 0;

    /* result record: u32 harness_error, i32 active_clients, u32 trace_len, trace, per thread: u32 len, bytes */
    uint32_t he = (uint32_t)harness_error; int32_t ac = g_active_clients; uint32_t tl = (uint32_t)trace_len;
    wr_all(outfd, &he, 4); wr_all(outfd, &ac, 4); wr_all(outfd, &tl, 4);
    wr_all(outfd, trace, sizeof(trace[0]) * (size_t)trace_len);
    for (int t = 0; t < NT; t++) {
        Buf b; drain((mask & (1u << t)) ? cli_fd[t] : -1, &b);
        uint32_t l = (uint32_t)b.n; wr_all(outfd, &l, 4); if (l) wr_all(outfd, b.b, l);
    }
    _exit(0);
}

/* ------------------------------------------------------------------ explorer (parent side) */
typedef struct {
    int status;                 /* wait status of the child */
    uint32_t harness_error; int32_t active_clients; uint32_t trace_len;
    Buf out[MAXT];
} Result;
static struct { uint8_t tid, nen, cur_enabled, choice; char kind; } rtrace[MAXP];

static int rd_all(int fd, void *p, size_t n) {
    uint8_t *q = p;
    while (n) { ssize_t r = __real_read(fd, q, n); if (r <= 0) { if (r < 0 && errno == EINTR) continue; return 0; } q += r; n -= (size_t)r; }
    return 1;
}

static int execute(unsigned mask, const int *pfx, int plen, Result *res) {
    int pp[2];
    if (pipe(pp) != 0) { perror("pipe"); exit(3); }
    fflush(stdout);
    pid_t pid = fork();
    if (pid < 0) { perror("fork"); exit(3); }
    if (pid == 0) {
        __real_close(pp[0]);
        if (plen > 0) memcpy(prefix, pfx, sizeof(int) * (size_t)plen);
        prefix_len = plen;
        int devnull = open("/dev/null", O_WRONLY);
        if (!getenv("VMD_MC_STDERR")) dup2(devnull, 2);
        run_child(mask, pp[1]);
        _exit(0);
    }
    __real_close(pp[1]);
    memset(res, 0, sizeof *res);
    int ok = rd_all(pp[0], &res->harness_error, 4) && rd_all(pp[0], &res->active_clients, 4) && rd_all(pp[0], &res->trace_len, 4);
    if (ok && res->trace_len <= MAXP) ok = res->trace_len == 0 || rd_all(pp[0], rtrace, sizeof(rtrace[0]) * res->trace_len);
    for (int t = 0; ok && t < NT; t++) {
        uint32_t l = 0; ok = rd_all(pp[0], &l, 4);
        if (ok) { res->out[t].n = l; res->out[t].b = malloc(l ? l : 1); if (l) ok = rd_all(pp[0], res->out[t].b, l); }
    }
    __real_close(pp[0]);
    int st = 0; while (waitpid(pid, &st, 0) < 0) {}
    res->status = st;
    return ok && WIFEXITED(st) && WEXITSTATUS(st) == 0;
}

static void hexdump(const Buf *b) { for (size_t i = 0; i < b->n && i < 4000; i++) printf("%02x", b->b[i]); }
static uint64_t fnv(uint64_t h, const void *p, size_t n) { const uint8_t *q = p; for (size_t i = 0; i < n; i++) { h ^= q[i]; h *= 1099511628211ull; } return h; }

static void sched_str(const int *pfx, int plen, char *out, size_t cap) {
    size_t o = 0; out[0] = 0;
    for (int i = 0; i < plen && o + 4 < cap; i++) o += (size_t)snprintf(out + o, cap - o, "%d%s", pfx[i], i + 1 < plen ? "," : "");
    if (plen == 0) snprintf(out, cap, "-");
}

static uint8_t *read_file(const char *p, size_t *sz) {
    FILE *f = fopen(p, "rb"); if (!f) { fprintf(stderr, "cannot open %s\n", p); exit(3); }
    fseek(f, 0, SEEK_END); long n = ftell(f); fseek(f, 0, SEEK_SET);
    uint8_t *b = malloc(n ? (size_t)n : 1);
    if (fread(b, 1, (size_t)n, f) != (size_t)n) exit(3);
    fclose(f); *sz = (size_t)n; return b;
}

static void build_request(Spec *s) {
    s->drop_at = -1; s->well_behaved = 1;
    uint8_t type = VMD_MSG_LOAD_EXEC;
    if (!strcmp(s->beh, "ping")) type = VMD_MSG_PING;
    else if (!strcmp(s->beh, "status")) { type = VMD_MSG_STATUS; s->well_behaved = 0; /* active count depends on the others by design */ }
    if (!strncmp(s->beh, "raw:", 4)) {
        const char *h = s->beh + 4; size_t n = strlen(h) / 2;
        s->req = malloc(n ? n : 1); s->req_len = n;
        for (size_t i = 0; i < n; i++) { unsigned v; sscanf(h + 2 * i, "%2x", &v); s->req[i] = (uint8_t)v; }
        s->well_behaved = 0;
        return;
    }
    size_t plen = 0; uint8_t *payload = NULL;
    if (type == VMD_MSG_LOAD_EXEC) payload = read_file(s->file, &plen);
    s->req = malloc(8 + plen); s->req_len = 8 + plen;
    s->req[0] = VMD_PROTO_VERSION; s->req[1] = type; s->req[2] = s->req[3] = 0;
    uint32_t l = (uint32_t)plen; memcpy(s->req + 4, &l, 4);
    if (plen) memcpy(s->req + 8, payload, plen);
    if (!strncmp(s->beh, "drop", 4)) { s->drop_at = atoi(s->beh + 4); s->well_behaved = 0; }
    if (!strncmp(s->beh, "trunc", 5)) { size_t n = (size_t)atol(s->beh + 5); if (n < s->req_len) s->req_len = n; s->well_behaved = 0; }
}

int main(int argc, char **argv) {
    g_argc = argc; g_argv = argv;
    if (argc < 4) { fprintf(stderr, "usage: vmd_mc <bound> <maxexec> <file.nvm[:behaviour]>...\n"); return 3; }
    int bound = atoi(argv[1]); long maxexec = atol(argv[2]);
    for (int i = 3; i < argc && NT < MAXT; i++) {
        Spec *s = &specs[NT++];
        char *c = strchr(argv[i], ':');
        if (c) { *c = 0; snprintf(s->beh, sizeof s->beh, "%s", c + 1); } else strcpy(s->beh, "exec");
        s->file = argv[i];
        build_request(s);
    }
    if (getenv("VMD_MC_NOVM")) {
#ifdef NANOLANG_VERIF
        vm_points = 0;
#endif
    }
    if (getenv("VMD_MC_MALLOC")) malloc_points = 1;
    setvbuf(stdout, NULL, _IOLBF, 0);

    /* reference: every session served alone */
    Buf solo[MAXT];
    for (int t = 0; t < NT; t++) {
        Result r;
        if (!execute(1u << t, NULL, 0, &r) || r.harness_error) {
            printf("VIOL kind=solo-crash client=%d beh=%s status=%d herr=%u\n", t, specs[t].beh, r.status, r.harness_error);
            solo[t].b = NULL; solo[t].n = 0; specs[t].well_behaved = 0;
            continue;
        }
        solo[t] = r.out[t];
        printf("SOLO %d %s ", t, specs[t].beh); hexdump(&solo[t]); printf("\n");
        if (r.active_clients != 0) printf("VIOL kind=active-clients client=%d solo value=%d\n", t, r.active_clients);
        /* determinism of the harness itself: the same solo run twice */
        Result r2;
        if (!execute(1u << t, NULL, 0, &r2) || r2.out[t].n != solo[t].n || memcmp(r2.out[t].b, solo[t].b, solo[t].n))
            printf("HARNESS nondeterministic solo run client=%d\n", t);
    }

    /* DFS over schedules */
    unsigned all = (1u << NT) - 1;
    typedef struct { int *p; int n; } Pfx;
    size_t cap = 1024, top = 0; Pfx *stack = malloc(cap * sizeof(Pfx));
    stack[top].p = NULL; stack[top].n = 0; top++;
    if (getenv("VMD_MC_ONLY")) {            /* replay exactly one schedule: "c0,c1,..." ("-" = all defaults) */
        const char *sp = getenv("VMD_MC_ONLY");
        int *pp = malloc(sizeof(int) * MAXP), n = 0;
        while (*sp && n < MAXP) { if (*sp >= '0' && *sp <= '9') { pp[n++] = atoi(sp); while (*sp >= '0' && *sp <= '9') sp++; } else sp++; }
        stack[0].p = pp; stack[0].n = n; bound = -1;
    }
    int shard_i = 0, shard_n = 1; long alt_counter = 0;
    if (getenv("VMD_MC_SHARD")) sscanf(getenv("VMD_MC_SHARD"), "%d/%d", &shard_i, &shard_n);
    long execs = 0, viol = 0, maxpts = 0, capped = 0;
    uint64_t seen_orders[4096]; int nseen = 0;
    uint64_t outcome_hashes[64]; int noutcomes = 0;
    while (top) {
        Pfx cur = stack[--top];
        if (maxexec > 0 && execs >= maxexec) { capped = 1; free(cur.p); continue; }
        Result r;
        int ok = execute(all, cur.p, cur.n, &r);
        execs++;
        char ss[3000];
        if (!ok) {
            sched_str(cur.p, cur.n, ss, sizeof ss);
            printf("VIOL kind=crash schedule=%s status=%d signal=%d\n", ss, r.status, WIFSIGNALED(r.status) ? WTERMSIG(r.status) : 0);
            viol++; free(cur.p); continue;
        }
        if ((long)r.trace_len > maxpts) maxpts = r.trace_len;
        /* full choice string of this execution */
        int full[MAXP];
        for (uint32_t i = 0; i < r.trace_len; i++) full[i] = rtrace[i].choice;
        if (r.harness_error) {
            sched_str(full, (int)r.trace_len, ss, sizeof ss);
            if (r.harness_error == 3) { printf("VIOL kind=deadlock schedule=%s\n", ss); viol++; }
            else printf("HARNESS error=%u schedule=%s\n", r.harness_error, ss);
        }
        uint64_t oh = 1469598103934665603ull;
        for (int t = 0; t < NT; t++) {
            oh = fnv(oh, r.out[t].b, r.out[t].n); oh = fnv(oh, "|", 1);
            if (!specs[t].well_behaved) continue;
            if (r.out[t].n != solo[t].n || memcmp(r.out[t].b, solo[t].b, solo[t].n)) {
                sched_str(full, (int)r.trace_len, ss, sizeof ss);
                printf("VIOL kind=isolation client=%d beh=%s schedule=%s got=", t, specs[t].beh, ss); hexdump(&r.out[t]); printf("\n");
                viol++;
            }
        }
        if (r.active_clients != 0) {
            sched_str(full, (int)r.trace_len, ss, sizeof ss);
            printf("VIOL kind=active-clients value=%d schedule=%s\n", r.active_clients, ss); viol++;
        }
        int k; for (k = 0; k < noutcomes; k++) if (outcome_hashes[k] == oh) break;
        if (k == noutcomes && noutcomes < 64) outcome_hashes[noutcomes++] = oh;
        /* distinct interleavings: order in which threads performed socket writes */
        uint64_t ih = 1469598103934665603ull;
        { int curt = -1;
          for (uint32_t i = 0; i < r.trace_len; i++) {
              /* reconstruct who runs after choice i: not needed exactly; hash (tid, kind, choice) */
              uint8_t rec[3] = { rtrace[i].tid, (uint8_t)rtrace[i].kind, rtrace[i].choice }; ih = fnv(ih, rec, 3); (void)curt;
          } }
        for (k = 0; k < nseen; k++) if (seen_orders[k] == ih) break;
        if (k == nseen && nseen < 4096) seen_orders[nseen++] = ih;

        /* alternatives beyond the prefix within the preemption bound */
        int pre = 0;
        for (uint32_t i = 0; i < r.trace_len; i++) {
            if ((int)i >= cur.n) {
                for (int alt = 1; alt < rtrace[i].nen; alt++) {
                    int cost = pre + (rtrace[i].cur_enabled ? 1 : 0);
                    if (cost > bound) continue;
                    /* sharding: the alternatives of the root execution are dealt round-robin to the shards */
                    if (cur.n == 0 && shard_n > 1 && (alt_counter++ % shard_n) != shard_i) continue;
                    if (top == cap) { cap *= 2; stack = realloc(stack, cap * sizeof(Pfx)); }
                    int *np = malloc(sizeof(int) * (i + 1));
                    for (uint32_t j = 0; j < i; j++) np[j] = full[j];
                    np[i] = alt;
                    stack[top].p = np; stack[top].n = (int)i + 1; top++;
                }
            }
            if (rtrace[i].cur_enabled && rtrace[i].choice != 0) pre++;
        }
        for (int t = 0; t < NT; t++) free(r.out[t].b);
        free(cur.p);
    }
    printf("STAT executions=%ld violations=%ld max_points=%ld distinct_traces=%d distinct_outcomes=%d bound=%d capped=%ld threads=%d\n",
           execs, viol, maxpts, nseen, noutcomes, bound, capped, NT);
    return 0;
}
