"""Small-scope exhaustive program enumerator (DESIGN.md section 2.4).

A *case* is a dict:
  id      unique string
  items   top-level items [(kind, name, payload)] added to a nanoref.Program (names carry the case prefix)
  main    statements executed from main for this case (they print what the case observes)
  layer   'E' | 'S' | 'F' | 'D' | 'A' | 'OPM' | 'EFF'
  noref   True when NanoRef must not judge it (aliasing layer: only differential / sanitizer oracles)
Every generator is a deterministic exhaustive product below the stated bound; nothing is sampled.
"""
import itertools

from . import nanoref as nr

I, B = "int", "bool"


def V(n): return ("var", n)
def N(v): return ("int", v)
def BIN(op, a, b): return ("bin", op, a, b)
def UN(op, a): return ("un", op, a)
def CALL(f, *a): return ("call", f, list(a))


def prelude(pfx):
    """Effectful helpers: t prints its tag and returns it; tb prints its tag and returns v."""
    return [("fn", pfx + "t", ([("k", I)], I, [("println", V("k")), ("return", V("k"))])),
            ("fn", pfx + "tb", ([("k", I), ("v", B)], B, [("println", V("k")), ("return", V("v"))]))]


def build_program(cases, extra_main_tail=None):
    """One nanoref.Program holding all given cases; main prints a marker line before each case."""
    p = nr.Program()
    main = []
    for c in cases:
        for kind, name, payload in c["items"]:
            if kind == "fn":
                p.add_fn(name, *payload)
            elif kind == "struct":
                p.add_struct(name, payload)
            elif kind == "enum":
                p.add_enum(name, payload)
            elif kind == "union":
                p.add_union(name, payload)
            elif kind == "global":
                p.add_global(name, *payload)
        main.append(("println", ("str", "@@" + c["id"])))
        main.extend(c["main"])
    main.append(("println", ("str", "@@end")))
    main.append(("return", N(0)))
    p.add_fn("main", [], I, main)
    return p


# --------------------------------------------------------------------------- layer E
def _number_effects(e, counter):
    """Rename effect tags left-to-right so that the printed sequence shows evaluation order."""
    t = e[0]
    if t == "call" and e[1].endswith("t") and len(e[2]) == 1:
        counter[0] += 1
        return ("call", e[1], [N(counter[0])])
    if t == "call" and e[1].endswith("tb"):
        counter[0] += 1
        return ("call", e[1], [N(counter[0]), e[2][1]])
    if t == "bin":
        a = _number_effects(e[2], counter)
        b = _number_effects(e[3], counter)
        return ("bin", e[1], a, b)
    if t == "un":
        return ("un", e[1], _number_effects(e[2], counter))
    return e


def exprs(depth, ileaves, bleaves, arith=nr.ARITH, cmp_=nr.CMP):
    """All typed expression trees up to `depth`: returns (int_exprs, bool_exprs)."""
    ints, bools = list(ileaves), list(bleaves)
    for _ in range(depth):
        ni = [BIN(op, x, y) for op in arith for x in ints for y in ints] + [UN("-", x) for x in ints]
        nb = ([BIN(op, x, y) for op in cmp_ for x in ints for y in ints] +
              [BIN(op, x, y) for op in nr.LOGIC for x in bools for y in bools] +
              [BIN(op, x, y) for op in ("==", "!=") for x in bools for y in bools] +
              [UN("not", x) for x in bools])
        ints, bools = list(ileaves) + ni, list(bleaves) + nb
    return ints, bools


def layer_E(tier, pfx="e"):
    """Every typed expression tree of depth <= 2 over a small leaf pool, as the body of a 2-parameter function,
    called with two argument tuples."""
    t, tb = pfx + "t", pfx + "tb"
    if tier == "quick":
        il = [V("a"), N(7), CALL(t, N(0))]
        bl = [("bool", True), CALL(tb, N(0), ("bool", False))]
        i1, b1 = exprs(1, il, bl)
        # depth 2 = one operator over depth<=1 operands; full product for ints over a 2-leaf pool to bound the count
        il2 = [V("a"), CALL(t, N(0))]
        i1s, b1s = exprs(1, il2, bl, arith=("+", "-", "*", "/", "%"), cmp_=("<", "==", ">="))
        ints = i1 + [BIN(op, x, y) for op in ("-", "/", "%", "*") for x in i1s for y in i1s if x[0] == "bin" or y[0] == "bin"]
        bools = b1 + [BIN(op, x, y) for op in ("and", "or") for x in b1s for y in b1s if x[0] != "bool" and y[0] != "bool" and (x[0] == "bin" or y[0] == "bin")][:6000]
        argsets = [(3, -2), (-9, 4)]
    else:
        il = [V("a"), V("b"), N(7), N(-1), CALL(t, N(0))]
        bl = [("bool", True), ("bool", False), CALL(tb, N(0), ("bool", False)), CALL(tb, N(0), ("bool", True))]
        i1, b1 = exprs(1, il, bl)
        il2 = [V("a"), N(7), CALL(t, N(0))]
        i1s, b1s = exprs(1, il2, bl[:3])
        ints = i1 + [BIN(op, x, y) for op in nr.ARITH for x in i1s for y in i1s if x[0] == "bin" or y[0] == "bin"]
        bools = b1 + [BIN(op, x, y) for op in nr.LOGIC + ("==",) for x in b1s for y in b1s if x[0] == "bin" or y[0] == "bin"]
        argsets = [(3, -2), (-9, 4), (0, 0)]
    n = 0
    for typ, lst in ((I, ints), (B, bools)):
        for e in lst:
            e = _number_effects(e, [0])
            name = "%s%d" % (pfx, n)
            yield {"id": name, "layer": "E",
                   "items": [("fn", name, ([("a", I), ("b", I)], typ, [("return", e)]))],
                   "main": [("println", CALL(name, N(x), N(y))) for (x, y) in argsets], "uses_prelude": True}
            n += 1


# --------------------------------------------------------------------------- layer S
def layer_S(tier, pfx="s"):
    """Statement sequences over {let, set, if/else, else-if, while, for, break, continue, early return,
    shadowing let in a nested block, println, expression statement}; body of  f(a) { let mut x = a; let mut y = 1; ...; return x }."""
    t = pfx + "t"
    E = [V("a"), BIN("+", V("x"), N(1)), BIN("*", V("x"), V("y")), CALL(t, N(5))]
    C = [BIN("<", V("x"), N(3)), BIN("==", BIN("%", V("x"), N(2)), N(0))]

    def base(inloop):
        out = [("set", "x", e) for e in E[1:]] + [("set", "y", BIN("+", V("y"), V("x")))]
        out += [("println", V("x")), ("println", CALL(t, N(6)))]
        out += [("return", BIN("+", V("x"), N(100)))]
        out += [("expr", CALL(t, N(9)))]
        if inloop:
            out += [("break",), ("continue",)]
        return out

    def shadow_blocks():
        # inner let shadowing the outer x / y, used inside, outer observed afterwards by the caller's trailing prints
        out = []
        for e in (N(50), BIN("+", V("x"), N(10))):
            out.append([("let", "x", I, e, False), ("println", V("x"))])
            out.append([("let", "x", I, e, True), ("set", "x", BIN("+", V("x"), N(1))), ("println", V("x"))])
            out.append([("let", "y", I, e, False), ("set", "x", BIN("+", V("x"), V("y")))])
        return out

    def compound(level, inloop):
        """Compound statements whose bodies are drawn from level-1 material."""
        inner = base(inloop) if level == 1 else base(inloop) + compound(1, inloop)[::7]
        inner_loop = base(True) if level == 1 else base(True) + compound(1, True)[::7]
        out = []
        for c in C:
            for s1 in inner:
                for s2 in inner[::2]:
                    out.append(("if", c, [s1], [s2]))
            for s1 in inner[::2]:
                out.append(("if", c, [s1], None))
                out.append(("if", c, [s1], [("if", C[1] if c is C[0] else C[0], [inner[0]], [inner[3]], "elif")]))
            for blk in shadow_blocks():
                out.append(("if", c, blk, [("println", N(0))]))
        for s1 in inner_loop:
            # counter-bounded while: i in a fresh variable
            out.append(("while", BIN("<", V("i"), N(3)), [("set", "i", BIN("+", V("i"), N(1))), s1], "needs_i"))
            out.append(("while", BIN("<", V("i"), N(3)), [("set", "i", BIN("+", V("i"), N(1))), ("if", C[1], [s1], [("println", V("i"))])], "needs_i"))
            out.append(("for", "k", N(0), N(3), [s1]))
            out.append(("for", "k", N(0), N(4), [("if", BIN("==", V("k"), N(1)), [s1], [("println", V("k"))])]))
        for blk in shadow_blocks():
            out.append(("while", BIN("<", V("i"), N(2)), [("set", "i", BIN("+", V("i"), N(1)))] + blk, "needs_i"))
            out.append(("for", "k", N(0), N(2), blk))
        return out

    def strip(s):
        # drop the private markers
        if s[0] == "while" and len(s) == 4:
            return ("while", s[1], [strip(x) for x in s[2]])
        if s[0] == "if":
            return ("if", s[1], [strip(x) for x in s[2]], None if s[3] is None else [strip(x) for x in s[3]]) + (("elif",) if len(s) == 5 else ())
        if s[0] == "for":
            return ("for", s[1], s[2], s[3], [strip(x) for x in s[4]])
        return s

    def needs_i(s):
        if s[0] == "while" and len(s) == 4:
            return True
        if s[0] == "if":
            return any(needs_i(x) for x in s[2]) or (s[3] is not None and any(needs_i(x) for x in s[3]))
        if s[0] in ("for",):
            return any(needs_i(x) for x in s[4])
        if s[0] == "while":
            return any(needs_i(x) for x in s[2])
        return False

    l1 = compound(1, False)
    b0 = base(False)
    seqs = [[s] for s in b0 + l1]
    if tier == "quick":
        seqs += [[s1, s2] for s1 in b0 for s2 in b0]
        seqs += [[s1, s2] for s1 in l1[::3] for s2 in b0[::2]]
        seqs += [[s1, s2] for s1 in b0[::2] for s2 in l1[::3]]
        seqs += [[s] for s in compound(2, False)[::5]]
        argsets = [2, 5]
    else:
        seqs += [[s1, s2] for s1 in b0 + l1 for s2 in b0 + l1[::2]]
        seqs += [[s] for s in compound(2, False)]
        seqs += [[s1, s2, s3] for s1 in b0 for s2 in l1[::5] for s3 in b0[::2]]
        argsets = [2, 5, -3]
    # nested loops: outer {while, for, if-block} x inner {while, for} x inner exits {break, continue, conditional
    # break / continue, early return}; statements after the inner loop show whether the exit stayed local to it
    def inner_loops():
        exits = [[("break",)], [("continue",)], [("if", BIN("==", V("k2"), N(1)), [("break",)], [("println", V("k2"))])],
                 [("if", BIN("==", V("k2"), N(1)), [("continue",)], [("println", V("k2"))])],
                 [("println", V("k2")), ("if", BIN(">", V("k2"), N(0)), [("break",)], None)],
                 [("if", BIN("==", V("k2"), N(2)), [("return", BIN("+", V("x"), N(500)))], [("set", "x", BIN("+", V("x"), N(1)))])]]
        for ex in exits:
            yield ("for", "k2", N(0), N(3), ex)
            yield ("while", BIN("<", V("j"), N(3)), [("let", "k2", I, V("j"), False), ("set", "j", BIN("+", V("j"), N(1)))] + ex, "needs_j")
    for il in inner_loops():
        uses_j = (il[0] == "while")
        pre = [("set", "j", N(0))] if uses_j else []
        after = [("println", BIN("+", V("x"), N(1000))), ("set", "x", BIN("+", V("x"), N(1)))]
        inner = ("while", il[1], il[2]) if uses_j else il
        outers = [("for", "k", N(0), N(2), pre + [inner] + after),
                  ("while", BIN("<", V("i"), N(2)), [("set", "i", BIN("+", V("i"), N(1)))] + pre + [inner] + after, "needs_i"),
                  ("if", BIN("<", V("x"), N(100)), pre + [inner] + after, [("println", N(0))])]
        for o in outers:
            seqs.append([("let", "j", I, N(0), True), o] if uses_j else [o])
    n = 0
    for seq in seqs:
        body = [("let", "x", I, V("a"), True), ("let", "y", I, N(1), True)]
        if any(needs_i(s) for s in seq):
            body.append(("let", "i", I, N(0), True))
        body += [strip(s) for s in seq]
        body += [("println", V("x")), ("println", V("y")), ("return", V("x"))]
        name = "%s%d" % (pfx, n)
        yield {"id": name, "layer": "S", "items": [("fn", name, ([("a", I)], I, body))],
               "main": [("println", CALL(name, N(v))) for v in argsets], "uses_prelude": True}
        n += 1


# --------------------------------------------------------------------------- layer F
def layer_F(tier, pfx="f"):
    """Function shapes: recursion, mutual recursion, functions as values (passed, returned, stored, called
    indirectly), globals read across calls, a local with the name of a global in the caller (spec 8.1)."""
    n = [0]

    def case(items, main, **kw):
        cid = "%s%d" % (pfx, n[0]); n[0] += 1
        ren = lambda s: s.replace("$", cid + "_")
        def rn(x):
            if isinstance(x, str):
                return ren(x)
            if isinstance(x, tuple):
                return tuple(rn(y) for y in x)
            if isinstance(x, list):
                return [rn(y) for y in x]
            return x
        d = {"id": cid, "layer": "F", "items": rn(items), "main": rn(main)}
        d.update(kw)
        return d

    depths = [0, 1, 2, 10, 100] + ([500, 900] if tier == "thorough" else [400])
    for d in depths:
        yield case([("fn", "$sum", ([("n", I)], I, [("if", BIN("<=", V("n"), N(0)), [("return", N(0))], [("return", BIN("+", V("n"), CALL("$sum", BIN("-", V("n"), N(1)))))])]))],
                   [("println", CALL("$sum", N(d)))])
        yield case([("fn", "$ev", ([("n", I)], B, [("if", BIN("==", V("n"), N(0)), [("return", ("bool", True))], [("return", CALL("$od", BIN("-", V("n"), N(1))))])])),
                    ("fn", "$od", ([("n", I)], B, [("if", BIN("==", V("n"), N(0)), [("return", ("bool", False))], [("return", CALL("$ev", BIN("-", V("n"), N(1))))])]))],
                   [("println", CALL("$ev", N(d))), ("println", CALL("$od", N(d)))])
    for k in range(0, 12):
        yield case([("fn", "$fib", ([("n", I)], I, [("if", BIN("<", V("n"), N(2)), [("return", V("n"))], [("return", BIN("+", CALL("$fib", BIN("-", V("n"), N(1))), CALL("$fib", BIN("-", V("n"), N(2)))))])]))],
                   [("println", CALL("$fib", N(k)))])
    # function values: each of {double, triple, neg} x each shape
    fns = {"$dbl": BIN("*", V("x"), N(2)), "$tri": BIN("*", V("x"), N(3)), "$ng": UN("-", V("x"))}
    defs = [("fn", k, ([("x", I)], I, [("return", v)])) for k, v in fns.items()]
    FT = "fn(int) -> int"
    for f in fns:
        for arg in (0, 7, -4):
            yield case(defs + [("fn", "$ap", ([("g", FT), ("v", I)], I, [("return", CALL("g", V("v")))]))],
                       [("println", CALL("$ap", V(f), N(arg)))])
            yield case(defs + [("fn", "$tw", ([("g", FT), ("v", I)], I, [("return", CALL("g", CALL("g", V("v"))))]))],
                       [("println", CALL("$tw", V(f), N(arg)))])
            yield case(defs, [("let", "$h", FT, V(f), False), ("println", CALL("$h", N(arg)))])
            yield case(defs + [("fn", "$pick", ([("c", I)], FT, [("if", BIN("==", V("c"), N(0)), [("return", V(f))], [("return", V("$dbl"))])]))],
                       [("let", "$h", FT, CALL("$pick", N(0)), False), ("println", CALL("$h", N(arg))),
                        ("let", "$h2", FT, CALL("$pick", N(1)), False), ("println", CALL("$h2", N(arg)))])
    # effectful callees reached through function values, defined BEFORE and AFTER their (indirect) caller;
    # the callee prints before returning and itself makes direct and indirect calls
    eff = lambda nm, k: ("fn", nm, ([("x", I)], I, [("println", BIN("+", V("x"), N(k))), ("return", BIN("*", V("x"), N(k)))]))
    ap = ("fn", "$ap", ([("g", FT), ("v", I)], I, [("println", N(77)), ("let", "r", I, CALL("g", V("v")), False), ("println", V("r")), ("return", BIN("+", V("r"), N(1)))]))
    ap2 = ("fn", "$ap2", ([("g", FT), ("v", I)], I, [("return", CALL("$ap", V("g"), CALL("g", V("v"))))]))
    for order in range(4):
        items = {0: [eff("$e2", 2), eff("$e3", 3), ap, ap2], 1: [ap, ap2, eff("$e2", 2), eff("$e3", 3)],
                 2: [eff("$e2", 2), ap, eff("$e3", 3), ap2], 3: [ap2, eff("$e3", 3), ap, eff("$e2", 2)]}[order]
        for arg in (1, -6):
            yield case(items, [("println", CALL("$ap", V("$e2"), N(arg))), ("println", CALL("$ap", V("$e3"), N(arg))),
                               ("println", CALL("$ap2", V("$e3"), N(arg))),
                               ("let", "$h", FT, V("$e2"), False), ("println", CALL("$h", N(arg))), ("println", CALL("$ap2", V("$h"), N(arg)))])
    # globals and scoping (spec 8.1 shape): global g; f reads g; caller has a local named like the global
    for gv in (1, 42):
        for lv in (2, -5):
            yield case([("global", "$g", (I, N(gv), False)),
                        ("fn", "$rd", ([], I, [("return", V("$g"))])),
                        ("fn", "$cl", ([], I, [("let", "$g", I, N(lv), False), ("println", V("$g")), ("return", CALL("$rd"))]))],
                       [("println", CALL("$rd")), ("println", CALL("$cl")), ("println", V("$g"))], scoping=True)
            yield case([("global", "$g", (I, N(gv), False)),
                        ("fn", "$ad", ([("v", I)], I, [("return", BIN("+", V("v"), V("$g")))])),
                        ("fn", "$cl", ([("$g", I)], I, [("return", CALL("$ad", V("$g")))]))],
                       [("println", CALL("$cl", N(lv)))], scoping=True)
    # parameters are by value: callee's shadowing let of its parameter name in a block
    for a in (0, 3):
        yield case([("fn", "$pv", ([("p", I)], I, [("let", "q", I, V("p"), True), ("if", BIN(">", V("p"), N(1)), [("let", "p", I, N(99), False), ("set", "q", V("p"))], [("set", "q", BIN("-", V("q"), N(1)))]), ("return", BIN("+", V("p"), V("q")))]))],
                   [("println", CALL("$pv", N(a)))])
    # three-argument calls with effects in every argument (also in EFF), nested calls
    yield case([("fn", "$a3", ([("x", I), ("y", I), ("z", I)], I, [("return", BIN("-", BIN("*", V("x"), N(100)), BIN("+", BIN("*", V("y"), N(10)), V("z"))))]))],
               [("println", CALL("$a3", N(1), N(2), N(3))), ("println", CALL("$a3", CALL("$a3", N(1), N(1), N(1)), N(2), CALL("$a3", N(0), N(0), N(5))))])


# --------------------------------------------------------------------------- layer D (data, no aliasing)
def layer_D(tier, pfx="d"):
    """Data: arrays of int / string, structs (nested), enums, tagged unions + match, tuples, strings; every
    operation sequence of length <= L over one object, all prints after each operation.  No aliasing here."""
    n = [0]

    def case(items, main, **kw):
        cid = "%s%d" % (pfx, n[0]); n[0] += 1
        def rn(x):
            if isinstance(x, str):
                return x.replace("$", cid + "_")
            if isinstance(x, tuple):
                return tuple(rn(y) for y in x)
            if isinstance(x, list):
                return [rn(y) for y in x]
            return x
        d = {"id": cid, "layer": "D", "items": rn(items), "main": rn(main)}
        d.update(kw)
        return d

    L = 3 if tier == "quick" else 4
    # arrays of int inside a function: ops as statements on local 'a'
    AT = "array<int>"
    ops = {
        "push": lambda k: [("set", "a", CALL("array_push", V("a"), N(10 + k)))],
        "set0": lambda k: [("expr", CALL("array_set", V("a"), N(0), N(70 + k)))],
        "setl": lambda k: [("expr", CALL("array_set", V("a"), BIN("-", CALL("array_length", V("a")), N(1)), N(80 + k)))],
        "len": lambda k: [("println", CALL("array_length", V("a")))],
        "at0": lambda k: [("println", CALL("at", V("a"), N(0)))],
        "atl": lambda k: [("println", CALL("at", V("a"), BIN("-", CALL("array_length", V("a")), N(1))))],
        "sum": lambda k: [("let", "j%d" % k, I, N(0), True), ("let", "s%d" % k, I, N(0), True),
                          ("while", BIN("<", V("j%d" % k), CALL("array_length", V("a"))),
                           [("set", "s%d" % k, BIN("+", V("s%d" % k), CALL("at", V("a"), V("j%d" % k)))), ("set", "j%d" % k, BIN("+", V("j%d" % k), N(1)))]),
                          ("println", V("s%d" % k))],
    }
    names = sorted(ops)
    for init in ([1], [4, 5, 6]):
        for ln in range(1, L + 1):
            for seq in itertools.product(names, repeat=ln):
                if tier == "quick" and ln == L and seq[0] not in ("push", "set0"):
                    continue
                body = [("let", "a", AT, ("arrlit", I, [N(v) for v in init]), True)]
                for k, o in enumerate(seq):
                    body += ops[o](k)
                body += [("println", CALL("array_length", V("a"))), ("return", CALL("at", V("a"), N(0)))]
                yield case([("fn", "$f", ([], I, body))], [("println", CALL("$f"))])
    # strings
    ST = "string"
    sops = {
        "cat": lambda k: [("set", "s", BIN("+", V("s"), ("str", "ab")))],
        "catn": lambda k: [("set", "s", BIN("+", V("s"), CALL("int_to_string", N(k - 3))))],
        "pre": lambda k: [("set", "s", BIN("+", ("str", "<"), V("s")))],
        "len": lambda k: [("println", CALL("str_length", V("s")))],
        "eq": lambda k: [("println", BIN("==", V("s"), ("str", "xab")))],
        "pr": lambda k: [("println", V("s"))],
    }
    for init in ("", "x"):
        for ln in range(1, L + 1):
            for seq in itertools.product(sorted(sops), repeat=ln):
                if ln == L and seq[-1] not in ("pr", "len"):
                    continue
                body = [("let", "s", ST, ("str", init), True)]
                for k, o in enumerate(seq):
                    body += sops[o](k)
                body += [("println", V("s")), ("return", CALL("str_length", V("s")))]
                yield case([("fn", "$f", ([], I, body))], [("println", CALL("$f"))])
    # structs / nested structs / tuples / enums / unions: construct x read matrix
    for x, y in ((1, 2), (-7, 0), (2**40, -2**40)):
        items = [("struct", "T$P", [("x", I), ("y", I)]), ("struct", "T$L", [("a", "T$P"), ("b", "T$P"), ("nm", ST)]),
                 ("enum", "T$E", [("Red", 0), ("Green", 1), ("Blue", 2)]),
                 ("union", "T$U", [("Ci", [("r", I)]), ("Re", [("w", I), ("h", I)]), ("No", [])]),
                 ("fn", "$mk", ([("u", I), ("v", I)], "T$P", [("return", ("structlit", "T$P", [("x", V("u")), ("y", V("v"))]))])),
                 ("fn", "$sw", ([("p", "T$P")], "T$P", [("return", ("structlit", "T$P", [("x", ("field", V("p"), "y")), ("y", ("field", V("p"), "x"))]))])),
                 ("fn", "$ar", ([("s", "T$U")], I, [("match", V("s"), [("Ci", "c", [("return", BIN("*", ("field", V("c"), "r"), ("field", V("c"), "r")))]),
                                                                         ("Re", "q", [("return", BIN("*", ("field", V("q"), "w"), ("field", V("q"), "h")))]),
                                                                         ("No", "_z", [("return", N(-1))])]), ("return", N(-2))])),
                 ("fn", "$col", ([("c", "T$E")], I, [("if", BIN("==", V("c"), ("enumval", "T$E", "Blue")), [("return", N(2))], [("if", BIN("==", V("c"), ("enumval", "T$E", "Red")), [("return", N(0))], [("return", N(1))])])]))]
        main = [("let", "$p", "T$P", CALL("$mk", N(x), N(y)), False), ("println", ("field", V("$p"), "x")), ("println", ("field", V("$p"), "y")),
                ("let", "$q", "T$P", CALL("$sw", V("$p")), False), ("println", ("field", V("$q"), "x")), ("println", ("field", V("$p"), "x")),
                ("let", "$l", "T$L", ("structlit", "T$L", [("a", V("$p")), ("b", V("$q")), ("nm", ("str", "pq"))]), False),
                ("println", ("field", ("field", V("$l"), "b"), "x")), ("println", ("field", V("$l"), "nm")),
                ("println", BIN("+", ("field", ("field", V("$l"), "a"), "y"), ("field", ("field", V("$l"), "b"), "y"))),
                ("let", "$t", "(int, string, bool)", ("tuplelit", [N(x), ("str", "tu"), ("bool", y > 0)]), False),
                ("println", ("tupidx", V("$t"), 0)), ("println", ("tupidx", V("$t"), 1)), ("println", ("tupidx", V("$t"), 2)),
                ("println", CALL("$ar", ("unionlit", "T$U", "Ci", [("r", N(y))]))),
                ("println", CALL("$ar", ("unionlit", "T$U", "Re", [("w", N(x)), ("h", N(y))]))),
                ("println", CALL("$ar", ("unionlit", "T$U", "No", []))),
                ("println", CALL("$col", ("enumval", "T$E", "Blue"))), ("println", CALL("$col", ("enumval", "T$E", "Green"))),
                ("let", "$c", "T$E", ("enumval", "T$E", "Green"), False), ("println", V("$c"))]
        yield case(items, main)


# --------------------------------------------------------------------------- layer A (aliasing; differential + sanitizer oracles only)
def layer_A(tier, pfx="al"):
    """Aliasing patterns named by C14/C20: same array in two locals, passed to / returned from functions through
    1-3 frames, stored into a struct, pushed into an array of arrays, stored in a global, overwritten while aliased,
    rebuilt in a loop; arrays of strings.  Only operations that cannot fault under either value or reference
    semantics are used (arrays never shrink, reads at index 0).  NanoRef does not judge these."""
    n = [0]
    AT, AS = "array<int>", "array<string>"

    def case(items, main):
        cid = "%s%d" % (pfx, n[0]); n[0] += 1
        def rn(x):
            if isinstance(x, str):
                return x.replace("$", cid + "_")
            if isinstance(x, tuple):
                return tuple(rn(y) for y in x)
            if isinstance(x, list):
                return [rn(y) for y in x]
            return x
        return {"id": cid, "layer": "A", "noref": True, "items": rn(items), "main": rn(main)}

    helpers = [
        ("fn", "$id", ([("v", AT)], AT, [("return", V("v"))])),
        ("fn", "$id2", ([("v", AT)], AT, [("return", CALL("$id", V("v")))])),
        ("fn", "$id3", ([("v", AT)], AT, [("return", CALL("$id2", V("v")))])),
        ("fn", "$pu", ([("v", AT), ("k", I)], AT, [("let", "w", AT, V("v"), True), ("set", "w", CALL("array_push", V("w"), V("k"))), ("return", V("w"))])),
        ("fn", "$ln", ([("v", AT)], I, [("return", CALL("array_length", V("v")))])),
        ("fn", "$mk", ([("k", I)], AT, [("return", ("arrlit", I, [V("k"), BIN("+", V("k"), N(1))]))])),
        ("struct", "T$H", [("xs", AT), ("tag", I)]),
    ]
    # statements over locals a (array), b (alias), h (struct holding array)
    acts = {
        "alias": [("let", "b#", AT, V("a"), True)],
        "viaid": [("let", "b#", AT, CALL("$id", V("a")), True)],
        "via3": [("let", "b#", AT, CALL("$id3", V("a")), True)],
        "pusha": [("set", "a", CALL("array_push", V("a"), N(5)))],
        "pushf": [("set", "a", CALL("$pu", V("a"), N(6)))],
        "seta": [("expr", CALL("array_set", V("a"), N(0), N(77)))],
        "renew": [("set", "a", CALL("$mk", N(30)))],
        "relit": [("set", "a", ("arrlit", I, [N(8), N(9)]))],
        "hold": [("let", "h#", "T$H", ("structlit", "T$H", [("xs", V("a")), ("tag", N(1))]), False), ("println", CALL("$ln", ("field", V("h#"), "xs")))],
        "loop": [("for", "q#", N(0), N(3), [("set", "a", CALL("$pu", CALL("$mk", V("q#")), V("q#")))])],
        "obs": [("println", CALL("array_length", V("a"))), ("println", CALL("at", V("a"), N(0)))],
    }
    obs_b = lambda k: [("println", CALL("array_length", V("b%d" % k))), ("println", CALL("at", V("b%d" % k), N(0)))]
    L = 3 if tier == "quick" else 4
    names = sorted(acts)
    for ln in range(1, L + 1):
        for seq in itertools.product(names, repeat=ln):
            if ln >= 3 and tier == "quick" and not (seq[0] in ("alias", "viaid", "via3", "hold")):
                continue
            if ln == 4 and not (seq[0] in ("alias", "via3", "hold") and seq[-1] in ("obs", "renew", "relit", "pusha")):
                continue
            body = [("let", "a", AT, ("arrlit", I, [N(1), N(2)]), True)]
            aliases = []
            for k, o in enumerate(seq):
                for st in acts[o]:
                    def sub(x):
                        if isinstance(x, str):
                            return x.replace("#", str(k))
                        if isinstance(x, tuple):
                            return tuple(sub(y) for y in x)
                        if isinstance(x, list):
                            return [sub(y) for y in x]
                        return x
                    body.append(sub(st))
                if o in ("alias", "viaid", "via3"):
                    aliases.append(k)
            for k in aliases:
                body += obs_b(k)
            body += [("println", CALL("array_length", V("a"))), ("return", CALL("at", V("a"), N(0)))]
            yield case(helpers + [("fn", "$f", ([], I, body))], [("println", CALL("$f"))])
    # arrays of strings through calls, strings built in loops, early return from nested scopes
    sh = [("fn", "$js", ([("v", AS)], "string", [("let", "r", "string", ("str", ""), True), ("let", "i", I, N(0), True),
                                                  ("while", BIN("<", V("i"), CALL("array_length", V("v"))), [("set", "r", BIN("+", V("r"), CALL("at", V("v"), V("i")))), ("set", "i", BIN("+", V("i"), N(1)))]),
                                                  ("return", V("r"))])),
          ("fn", "$bs", ([("n", I)], AS, [("let", "v", AS, ("arrlit", "string", [("str", "s")]), True), ("for", "i", N(0), V("n"), [("set", "v", CALL("array_push", V("v"), BIN("+", ("str", "k"), CALL("int_to_string", V("i")))))]), ("return", V("v"))])),
          ("fn", "$er", ([("n", I)], "string", [("let", "v", AS, CALL("$bs", V("n")), False), ("for", "i", N(0), V("n"), [("let", "s", "string", BIN("+", CALL("at", V("v"), N(0)), CALL("int_to_string", V("i"))), False), ("if", BIN("==", V("i"), N(1)), [("return", V("s"))], [("println", V("s"))])]), ("return", CALL("$js", V("v")))]))]
    for k in (0, 1, 2, 5):
        yield case(sh, [("println", CALL("$js", CALL("$bs", N(k)))), ("println", CALL("$er", N(k)))])


# --------------------------------------------------------------------------- operator matrix / effect order (C02)
BPOOL = [0, 1, -1, 2, -2, 7, -7, 2**31 - 1, 2**31, 2**32, -2**31, nr.I64_MAX, nr.I64_MAX - 1, nr.I64_MIN + 1]


def op_matrix(tier, pfx="m"):
    """All 13 binary operators x all ordered pairs from the boundary pool (as variables, so no constant folding)
    + both unary operators; bool operators over all 4 pairs."""
    n = 0
    pool = BPOOL if tier == "thorough" else BPOOL[:12] + [nr.I64_MIN + 1]
    for op in nr.ARITH + nr.CMP:
        typ = I if op in nr.ARITH else B
        name = "%s%d" % (pfx, n); n += 1
        main = [("println", CALL(name, N(x), N(y))) for x in pool for y in pool]
        yield {"id": name, "layer": "OPM", "items": [("fn", name, ([("a", I), ("b", I)], typ, [("return", BIN(op, V("a"), V("b")))]))],
               "main": main, "split_lines": True, "op": op}
    name = "%s%d" % (pfx, n); n += 1
    yield {"id": name, "layer": "OPM", "items": [("fn", name, ([("a", I)], I, [("return", UN("-", V("a")))]))],
           "main": [("println", CALL(name, N(x))) for x in pool], "split_lines": True, "op": "neg"}
    for op in ("and", "or", "==", "!="):
        name = "%s%d" % (pfx, n); n += 1
        yield {"id": name, "layer": "OPM", "items": [("fn", name, ([("a", B), ("b", B)], B, [("return", BIN(op, V("a"), V("b")))]))],
               "main": [("println", CALL(name, ("bool", x), ("bool", y))) for x in (False, True) for y in (False, True)], "op": op}
    name = "%s%d" % (pfx, n); n += 1
    yield {"id": name, "layer": "OPM", "items": [("fn", name, ([("a", B)], B, [("return", UN("not", V("a")))]))],
           "main": [("println", CALL(name, ("bool", x))) for x in (False, True)], "op": "not"}
    # int -> string conversions over the boundary pool widened by every power-of-ten edge (number of printed characters changes there)
    cpool = sorted(set(list(pool) + [nr.I64_MIN, nr.I64_MIN + 1, nr.I64_MAX] + [s * (10 ** k) + d for k in (1, 2, 9, 10, 17, 18) for s in (1, -1) for d in (-1, 0, 1)]))
    cpool = [v for v in cpool if nr.I64_MIN <= v <= nr.I64_MAX]
    convs = [("string", CALL("int_to_string", V("a"))), (I, CALL("str_length", CALL("int_to_string", V("a")))),
             ("string", BIN("+", ("str", "<"), BIN("+", CALL("int_to_string", V("a")), ("str", ">"))))]
    for typ, body in convs:
        name = "%s%d" % (pfx, n); n += 1
        yield {"id": name, "layer": "OPM", "items": [("fn", name, ([("a", I)], typ, [("return", body)]))],
               "main": [("println", CALL(name, N(x))) for x in cpool], "split_lines": True, "op": "int_to_string"}


def effect_order(tier, pfx="o"):
    """Every binary operator with both operands effectful; calls of arity 1-3 with every argument effectful;
    nested; struct / tuple / array literals with effectful elements; and/or with each left value."""
    t, tb = pfx + "t", pfx + "tb"
    n = 0
    def T(k): return CALL(t, N(k))
    def TB(k, v): return CALL(tb, N(k), ("bool", v))
    cases = []
    for op in nr.ARITH + nr.CMP:
        typ = I if op in nr.ARITH else B
        cases.append((typ, BIN(op, T(1), T(2)), [], "binop " + op))
        cases.append((typ, BIN(op, BIN("+", T(1), T(2)), BIN("+", T(3), T(4))), [], "nested binop " + op))
    for op in nr.LOGIC:
        for lv in (False, True):
            for rv in (False, True):
                cases.append((B, BIN(op, TB(1, lv), TB(2, rv)), [], "logic " + op))
                cases.append((B, BIN(op, BIN(op, TB(1, lv), TB(2, rv)), TB(3, lv)), [], "logic3 " + op))
                cases.append((B, BIN(op, TB(1, lv), BIN("and" if op == "or" else "or", TB(2, rv), TB(3, not rv))), [], "logic-mixed " + op))
    f1 = ("fn", "$g1", ([("x", I)], I, [("return", V("x"))]))
    f2 = ("fn", "$g2", ([("x", I), ("y", I)], I, [("return", BIN("-", V("x"), V("y")))]))
    f3 = ("fn", "$g3", ([("x", I), ("y", I), ("z", I)], I, [("return", BIN("-", BIN("*", V("x"), N(100)), BIN("+", BIN("*", V("y"), N(10)), V("z"))))]))
    cases.append((I, CALL("$g1", T(1)), [f1], "call1"))
    cases.append((I, CALL("$g2", T(1), T(2)), [f2], "call2"))
    cases.append((I, CALL("$g3", T(1), T(2), T(3)), [f3], "call3"))
    cases.append((I, CALL("$g2", CALL("$g2", T(1), T(2)), CALL("$g2", T(3), T(4))), [f2], "call-nested"))
    cases.append((I, BIN("+", CALL("$g2", T(1), T(2)), T(3)), [f2], "call-in-binop"))
    cases.append((I, ("tupidx", ("tuplelit", [T(1), T(2), T(3)]), 1), [], "tuple literal"))
    cases.append((I, CALL("at", ("arrlit", I, [T(1), T(2), T(3)]), N(2)), [], "array literal"))
    st = ("struct", "T$S", [("p", I), ("q", I)])
    cases.append((I, ("field", ("structlit", "T$S", [("p", T(1)), ("q", T(2))]), "q"), [st], "struct literal"))
    for typ, e, items, what in cases:
        name = "%s%d" % (pfx, n); n += 1
        def rn(x):
            if isinstance(x, str):
                return x.replace("$", name + "_")
            if isinstance(x, tuple):
                return tuple(rn(y) for y in x)
            if isinstance(x, list):
                return [rn(y) for y in x]
            return x
        yield {"id": name, "layer": "EFF", "what": what, "uses_prelude": True,
               "items": rn(items) + [("fn", name, ([], typ, [("let", "r", typ, rn(e), False), ("return", V("r"))]))],
               "main": [("println", CALL(name))]}


def with_prelude(cases, pfx):
    """Attach the effect helpers once per batch (caller adds prelude items to the first case of a batch)."""
    return prelude(pfx)
