"""Running enumerated cases on the real engines: batching with marker lines, automatic bisection,
per-case observations (DESIGN.md 2.4 'Batching')."""
import os
import re

from . import common, enumer, nanoref as nr

_STATE = {}


class Lang:
    def __init__(self, tree, work, sanitize=False, mode="prefix"):
        self.tree = tree
        self.work = work
        self.mode = mode
        os.makedirs(work, exist_ok=True)
        self.cache = os.path.join(work, "cccache" + ("-san" if sanitize else ""))
        os.makedirs(self.cache, exist_ok=True)
        self.tmp = os.path.join(work, "tmp")
        os.makedirs(self.tmp, exist_ok=True)
        self.envx = {"NANO_CC": os.path.join(common.VERIF, "vf/ccfast"), "CCFAST_CACHE": self.cache,
                     "CCFAST_ROOT": tree.root, "CCFAST_CC": "cc"}
        if sanitize:
            self.envx["CCFAST_CC"] = "clang"
            self.envx["CCFAST_EXTRA"] = "-fsanitize=address,undefined -fno-sanitize-recover=undefined -fno-omit-frame-pointer -g -Wno-unknown-warning-option"
        self.sanitize = sanitize

    def warm(self):
        """Fill the object cache once, before the parallel phase."""
        src = os.path.join(self.work, "warm.nano")
        with open(src, "w") as f:
            f.write('fn main() -> int {\n    (println "w")\n    return 0\n}\nshadow main { assert true }\n')
        r = self.native(src)
        if r["compile_rc"] != 0 or r["rc"] != 0 or r["out"] != b"w\n":
            raise common.HarnessError("cannot build a trivial native program: %s %s" % (r, r.get("compile_err", b"")[-2000:]))

    def vm(self, src, timeout=60):
        rc, out, err = common.run([self.tree.exe("nano_virt"), src, "--run"], timeout=timeout, cwd=self.work, tmp=self.tmp)
        return {"rc": rc, "out": out, "err": err}

    def native(self, src, timeout=60, extra_args=()):
        exe = src[:-5] + ".bin"
        if os.path.exists(exe):
            os.unlink(exe)
        rc, out, err = common.run([self.tree.exe("nanoc_c"), src, "-o", exe] + list(extra_args), timeout=300, cwd=self.work, envx=self.envx, tmp=self.tmp)
        r = {"compile_rc": rc, "compile_out": out, "compile_err": err, "exe_exists": os.path.exists(exe)}
        if rc == 0 and os.path.exists(exe):
            rc2, o2, e2 = common.run([exe], timeout=timeout, cwd=self.work, tmp=self.tmp)
            r.update({"rc": rc2, "out": o2, "err": e2})
            os.unlink(exe)
        else:
            r.update({"rc": None, "out": b"", "err": b""})
        return r


def case_prelude_prefix(c):
    return re.match(r"[a-z]+", c["id"]).group(0)


def make_program(cases):
    """nanoref.Program for a batch (preludes added once per prefix)."""
    seen = set()
    cs = []
    for c in cases:
        if c.get("uses_prelude"):
            pfx = case_prelude_prefix(c)
            if pfx not in seen:
                seen.add(pfx)
                c = dict(c)
                c["items"] = enumer.prelude(pfx) + list(c["items"])
        cs.append(c)
    # de-duplicate identical top-level items shared by cases (none by construction: names are case-prefixed)
    return enumer.build_program(cs)


def expected(case, deviations=()):
    """NanoRef's observation of one case alone: (class, text)."""
    p = make_program([case])
    cls, text, _code = nr.Interp(p, deviations).run_main()
    if cls != "normal":
        return (cls, None)
    m = re.match(r"@@%s\n(.*)@@end\n$" % re.escape(case["id"]), text, re.S)
    return ("normal", m.group(1))


def split_output(cases, out):
    """Cut a batch's stdout into per-case texts; None when the marker structure is damaged."""
    text = out.decode("utf-8", errors="replace")
    res = {}
    pos = 0
    for i, c in enumerate(cases):
        mk = "@@%s\n" % c["id"]
        if not text.startswith(mk, pos):
            return None
        pos += len(mk)
        nxt = "@@%s\n" % (cases[i + 1]["id"] if i + 1 < len(cases) else "end")
        j = text.find(nxt, pos)
        if j < 0:
            return None
        res[c["id"]] = text[pos:j]
        pos = j
    if text[pos:] != "@@end\n":
        return None
    return res


def observe(lang, engine, cases, tag, mode=None, depth=0):
    """Run `cases` as one program on `engine` ('vm' | 'native'); bisect on any structural failure.
    Returns {case id: ('ok', text) | ('fail', class, detail)}."""
    prog = make_program(cases)
    src = os.path.join(lang.work, "%s_%s_%d_%d.nano" % (tag, engine, depth, os.getpid()))
    with open(src, "w") as f:
        f.write(nr.Printer(mode or lang.mode).program(prog))
    failure = None
    if engine == "vm":
        r = lang.vm(src)
        if r["rc"] == 0:
            sp = split_output(cases, r["out"])
            if sp is not None:
                return dict((k, ("ok", v)) for k, v in sp.items())
        failure = ("vm rc=%s" % r["rc"], (r["err"][-1500:] + b"\n--stdout tail--\n" + r["out"][-500:]).decode(errors="replace"))
    else:
        r = lang.native(src)
        if r["compile_rc"] == 0 and r["rc"] == 0:
            sp = split_output(cases, r["out"])
            if sp is not None:
                return dict((k, ("ok", v)) for k, v in sp.items())
        if r["compile_rc"] != 0 or not r["exe_exists"]:
            failure = ("native compile rc=%s" % r["compile_rc"], (r["compile_err"][-2500:] + b"\n--stdout tail--\n" + r["compile_out"][-800:]).decode(errors="replace"))
        else:
            failure = ("native run rc=%s" % r["rc"], (r["err"][-1500:] + b"\n--stdout tail--\n" + r["out"][-500:]).decode(errors="replace"))
    if len(cases) == 1:
        return {cases[0]["id"]: ("fail", failure[0], failure[1])}
    mid = len(cases) // 2
    res = observe(lang, engine, cases[:mid], tag, mode, depth + 1)
    res.update(observe(lang, engine, cases[mid:], tag, mode, depth + 1))
    return res


def source_of(cases, mode="prefix"):
    return nr.Printer(mode).program(make_program(cases))


# ---- parallel driver ---------------------------------------------------------------------------
def _batch_task(bi):
    st = _STATE
    cases = st["batches"][bi]
    lang = st["lang"]
    out = {}
    judged = []
    for c in cases:
        if c.get("noref"):
            exp = ("normal", None)
        else:
            exp = expected(c)
        out[c["id"]] = {"expected": exp}
        if exp[0] == "normal":
            judged.append(c)
    for eng in st["engines"]:
        if judged:
            obs = observe(lang, eng.split(":")[0], judged, "b%d" % bi, mode=(eng.split(":")[1] if ":" in eng else None))
            for k, v in obs.items():
                out[k][eng] = v
    return out


def run_all(lang, cases, engines, batch=150):
    """Returns {case id: {'expected': (class,text), engine: observation...}} for all cases."""
    batches = [cases[i:i + batch] for i in range(0, len(cases), batch)]
    _STATE.update({"batches": batches, "lang": lang, "engines": engines})
    res = {}
    for part in common.pimap(_batch_task, list(range(len(batches)))):
        res.update(part)
    return res
