"""Text-template families ("X layer"): language features outside the typed AST enumerator of enumer.py, enumerated
exhaustively over small explicit alphabets and observed on the three engines.

A *unit* is one parameterless function whose body prints lines; its expected output is computed by the family in plain
Python (a per-family reference, deliberately boring) or is None (then only the engines are compared with each other).

    unit = {"name":   unique identifier, prefixed by the family tag,
            "decls":  top-level declarations used by this unit only (their names must start with the unit's name
                      or its upper-case form, so units can share a program),
            "body":   statements of `fn <name>() -> int` (ends with `return <int expr>`),
            "expected": exact stdout of the body, or None,
            "ret":    the int the body returns (default 0; the runner prints it after the body's output),
            "engines": optional subset of ("vm", "native", "eval"),
            "what":   one line describing the element of the enumeration}

Units are packed into programs (one function + one shadow block per unit; main prints a marker and calls each);
the VM and the native binary run main, the evaluator runs the shadow blocks at compile time (`nanoc --verbose`
prints what they print).  A program that fails as a whole is split until the failing unit is isolated.
"""
import importlib
import os
import re

from . import common

ENGINES = ("vm", "native", "eval")
FAMILY_MODULES = ["xfam_core", "xfam_builtins", "xfam_scope", "xfam_data"]
_ST = {}


def all_units(tier, families=None):
    units = []
    for mod in FAMILY_MODULES:
        try:
            m = importlib.import_module("vf." + mod)
        except ImportError:
            continue
        for u in m.units(tier):
            u.setdefault("decls", "")
            u.setdefault("engines", ENGINES)
            u.setdefault("family", mod[5:])
            if families is None or u["family"] in families or u["name"].split("_")[0] in families:
                units.append(u)
    names = [u["name"] for u in units]
    if len(set(names)) != len(names):
        dup = sorted(n for n in set(names) if names.count(n) > 1)[:5]
        raise common.HarnessError("duplicate unit names: %s" % dup)
    for u in units:
        if not re.match(r"^[a-z][a-z0-9_]*$", u["name"]):
            raise common.HarnessError("bad unit name %r" % u["name"])
    return units


def program_text(units):
    parts = []
    for u in units:
        parts.append(u["decls"])
        parts.append("fn %s() -> int {\n%s}\nshadow %s {\n    (println (%s))\n}\n" % (u["name"], u["body"], u["name"], u["name"]))
    main = "fn main() -> int {\n" + "".join('    (println "@@%s")\n    (println (%s))\n' % (u["name"], u["name"]) for u in units)
    main += '    (println "@@end")\n    return 0\n}\nshadow main { assert true }\n'
    return "".join(parts) + main


def _split_markers(text):
    d = {}
    for part in text.split("@@"):
        if "\n" in part:
            nm, rest = part.split("\n", 1)
            d[nm] = rest
    return d


def _observe(lang, tag, units, engines, limit=10):
    """-> {engine: (status, {unit: text}, diagnostics)}; status 'ok' | 'fail'"""
    p = os.path.join(lang.work, "x_%s.nano" % tag)
    with open(p, "w") as f:
        f.write(program_text(units))
    out = {}
    if "vm" in engines:
        r = lang.vm(p, timeout=limit)
        d = _split_markers(r["out"].decode(errors="replace"))
        ok = r["rc"] == 0 and "end" in d
        out["vm"] = ("ok" if ok else "fail", d, "rc=%s %s" % (r["rc"], (r["err"][-800:] + r["out"][-300:]).decode(errors="replace")))
    if "native" in engines or "eval" in engines:
        exe = p[:-5] + ".bin"
        rc, o, e = common.run([lang.tree.exe("nanoc_c"), p, "-o", exe, "--verbose"], timeout=600, cwd=lang.work, envx=lang.envx, tmp=lang.tmp)
        txt = o.decode(errors="replace")
        ev = {}
        for u in units:
            m = re.search(r"Testing %s\.\.\. (.*?)(PASSED|FAILED)\n" % re.escape(u["name"]), txt, re.S)
            if m:
                ev[u["name"]] = m.group(1)
        diag = "rc=%s %s" % (rc, (e[-1200:] + o[-400:]).decode(errors="replace"))
        if "eval" in engines:
            out["eval"] = ("ok" if len(ev) == len(units) else "fail", ev, diag)
        if "native" in engines:
            d = {}
            ok = False
            if rc == 0 and os.path.exists(exe):
                rc2, o2, e2 = common.run([exe], timeout=limit, cwd=lang.work, tmp=lang.tmp)
                d = _split_markers(o2.decode(errors="replace"))
                ok = rc2 == 0 and "end" in d
                diag2 = "run rc=%s %s" % (rc2, (e2[-600:] + o2[-200:]).decode(errors="replace"))
            else:
                diag2 = "compile " + diag
            out["native"] = ("ok" if ok else "fail", d, diag2)
        if os.path.exists(exe):
            os.unlink(exe)
    return out


def _task(args):
    bi, units, engines = args
    res = dict((u["name"], {}) for u in units)      # unit name -> {engine: ("ok", text) | ("fail", diagnostics)}
    _bisect(_ST["lang"], "b%d" % bi, units, engines, res)
    return res


def _bisect(lang, tag, us, engines, res):
    obs = _observe(lang, tag, us, engines)
    bad = tuple(e for e in obs if obs[e][0] != "ok")
    for u in us:
        for e in obs:
            if e in u["engines"] and e not in bad:
                res[u["name"]][e] = ("ok", obs[e][1].get(u["name"], ""))
    if not bad:
        return
    if len(us) == 1:
        u = us[0]
        if any("timeout" in obs[e][2] for e in bad) and _ST.get("confirmed_hangs", 0) < 2:
            # a run that hit its limit is repeated alone with a 12 x longer one before it counts as a failure
            # (a loaded machine must not look like a hanging program)
            obs2 = _observe(lang, tag + "t", us, bad, limit=120)
            for e in obs2:
                obs[e] = obs2[e]
            bad = tuple(e for e in bad if obs[e][0] != "ok")
            if any("timeout" in obs[e][2] for e in bad):
                _ST["confirmed_hangs"] = _ST.get("confirmed_hangs", 0) + 1      # per worker process: two confirmations are enough
            for e in obs2:
                if e in u["engines"] and e not in bad:
                    res[u["name"]][e] = ("ok", obs[e][1].get(u["name"], ""))
        for e in bad:
            if e not in u["engines"]:
                continue
            if e == "eval" and u["name"] in obs[e][1]:
                res[u["name"]][e] = ("ok", obs[e][1][u["name"]])      # the shadow test ran; only a later stage failed
            else:
                res[u["name"]][e] = ("fail", obs[e][2])
        return
    h = len(us) // 2
    _bisect(lang, tag + "a", us[:h], bad, res)
    _bisect(lang, tag + "b", us[h:], bad, res)


def run_units(lang, units, engines=ENGINES, batch=40):
    """-> {unit name: {engine: ("ok", text) | ("fail", diagnostics)}}; the text is what the unit printed followed by the
    line with its return value"""
    _ST["lang"] = lang
    # units of one family stay together (their programs then share declarations' style and fail together)
    jobs = []
    shared = [u for u in units if not u.get("own_program")]
    for i in range(0, len(shared), batch):
        jobs.append((len(jobs), shared[i:i + batch], tuple(engines)))
    for u in units:
        if u.get("own_program"):      # a unit whose point is the SIZE of the program around it (symbol / table capacities)
            jobs.append((len(jobs), [u], tuple(engines)))
    res = {}
    for part in common.pmap(_task, jobs):
        res.update(part)
    return res


def expected_text(u):
    """what an engine prints for the unit: its output, then the returned int (the runner prints it); None = not modelled"""
    if u.get("expected") is None:
        return None
    return u["expected"] + "%d\n" % u.get("ret", 0)


def source_of(u):
    return program_text([u])


def judge(rep, prop, lang, tier, families=None):
    """Runs the X layer for one property and reports:
       C01  vm vs native (both ran: same text; one ran: the other must run too)
       C02  vm / native vs the family's reference text
       C03  evaluator (shadow block) vs the compiled program and vs the reference text"""
    units = all_units(tier, families)
    engines = {"C01": ("vm", "native"), "C02": ("vm", "native"), "C03": ("eval", "native")}[prop]
    res = run_units(lang, units, engines)
    judged = 0
    fams = {}
    for u in units:
        r = res.get(u["name"], {})
        exp = expected_text(u)
        fams[u["family"]] = fams.get(u["family"], 0) + 1
        files = {"program.nano": source_of(u), "what.txt": u["what"] + "\n"}
        if exp is not None:
            files["expected.txt"] = exp
        for e, v in r.items():
            files["observed_%s.txt" % e] = v[1]
        how = "bin/nano_virt program.nano --run ; bin/nanoc_c program.nano -o p --verbose && ./p   # text between the @@ markers / after 'Testing %s...'" % u["name"]
        ok = dict((e, v[1]) for e, v in r.items() if v[0] == "ok")
        failed = dict((e, v[1]) for e, v in r.items() if v[0] != "ok")
        judged += 1
        rep.count("transitions", len(r))
        key = "x:%s:%s" % (u["family"], re.sub(r"\d+", "N", u["name"]))
        if prop == "C01":
            if "vm" in ok and "native" in ok:
                if ok["vm"] != ok["native"]:
                    rep.violation(key + ":differ", files, "X-layer unit %s (%s): vm prints %r, native prints %r" % (u["name"], u["what"], ok["vm"][:100], ok["native"][:100]), how)
            elif len(ok) == 1 and len(failed) == 1:
                e_bad = list(failed)[0]
                rep.violation(key + ":onefails", files, "X-layer unit %s (%s): %s fails while the other backend runs the program: %s" % (
                    u["name"], u["what"], e_bad, failed[e_bad].strip()[-200:].replace("\n", " | ")), how)
        elif prop == "C02":
            if exp is None:
                continue
            for e in ("vm", "native"):
                if e in ok and ok[e] != exp:
                    rep.violation(key + ":" + e, files, "X-layer unit %s (%s): %s prints %r, the reference gives %r" % (u["name"], u["what"], e, ok[e][:100], exp[:100]), how)
                elif e in failed:
                    rep.violation(key + ":" + e + ":fails", files, "X-layer unit %s (%s): %s fails on a program the reference defines: %s" % (
                        u["name"], u["what"], e, failed[e].strip()[-200:].replace("\n", " | ")), how)
        elif prop == "C03":
            if "eval" in failed:
                rep.violation(key + ":evalfails", files, "X-layer unit %s (%s): the shadow block could not be evaluated: %s" % (u["name"], u["what"], failed["eval"].strip()[-200:].replace("\n", " | ")), how)
            elif "eval" in ok:
                if exp is not None and ok["eval"] != exp:
                    rep.violation(key + ":eval", files, "X-layer unit %s (%s): the evaluator prints %r in the shadow block, the reference gives %r (compiled program: %r)" % (
                        u["name"], u["what"], ok["eval"][:100], exp[:100], ok.get("native", "?")[:60]), how)
                elif exp is None and "native" in ok and ok["eval"] != ok["native"]:
                    rep.violation(key + ":evalnative", files, "X-layer unit %s (%s): the evaluator prints %r in the shadow block, the compiled program prints %r" % (
                        u["name"], u["what"], ok["eval"][:100], ok["native"][:100]), how)
    rep.count("states", judged)
    rep.count("traces_validated_against_impl", judged)
    rep.coverage["x_layer_units"] = judged
    rep.coverage["x_layer_families"] = fams
    if judged < 100:
        raise common.HarnessError("vacuous X layer: %d units" % judged)
    return judged
