"""X-layer family `da`: DATA SHAPES - enums with explicit values, calls through function values, match expressions,
field / tuple-index access on call results, structs by value, unions, cond expressions.

Every sub-family is the full product of a few small explicit alphabets (listed next to it), simplest element first.
The expected text of every unit is computed here by a plain Python model of docs/SPECIFICATION.md (ints are 64-bit,
bools print as true/false, strings print as they are, an enum variant is the integer given in its definition).

Excluded on purpose (each was tried on the unchanged /repo; the reason is repeated next to the alphabet it concerns):
  * match-expression arms that are blocks (the three engines do not agree on them; match STATEMENTS with block arms
    that print or return are used, as the core family does);
  * enum values outside the signed 32-bit range (parser and AST keep them in a C int; the spec's examples stay small),
    two variants with the same value (the native name-table switch cannot hold duplicate cases); enums mixing
    explicit and implicit values are enumerated but only compared between the engines (the spec does not say how the
    implicit values continue);
  * struct field assignment (`set p.x ..` is not in the grammar) - "mutation of a copy" is `set copy <new struct value>`;
  * function values / tuples / enums as struct or union FIELDS and field access on a tuple element (`(f 1).0.x`):
    refused by the type checker or not compiled natively; non-int tuple elements read from a call result (the type
    checker types `(f 1).N` as int, a TODO it documents; tuples are "in development", spec 12);
  * a call as function-typed argument `(app (get) x)` ("Function parameter expects a function name"), function types
    mentioning function types ("Nested function types not yet supported"), calling a fn() -> T value (`(f)` without
    arguments denotes the value itself);
  * floats other than 2.5 and -0.25 (100.0 prints as 100.0 on the VM and as 100 in the evaluator; the spec is silent).

Field-name collisions are part of the alphabets on purpose (a struct declared earlier, another variant, another union
using the same field / variant names at other positions): every unit carries its own colliding declarations, because a
unit that only fails next to ANOTHER unit's declarations cannot be isolated by the runner.
"""
import itertools

M64 = (1 << 64) - 1


def _w(v):
    """64-bit wrapping"""
    v &= M64
    return v - (1 << 64) if v >> 63 else v


def _show(v):
    if v is True:
        return "true"
    if v is False:
        return "false"
    if isinstance(v, float):
        return {2.5: "2.5", -0.25: "-0.25"}[v]
    return str(v)


def _lit(v):
    """nano source text of a Python value"""
    if isinstance(v, bool):
        return "true" if v else "false"
    if isinstance(v, str):
        return '"%s"' % v
    return _show(v)


class Body:
    """statements of the unit's function + the text they print"""

    def __init__(self):
        self.src = []
        self.out = []

    def s(self, stmt):
        self.src.append("    " + stmt + "\n")

    def pr(self, expr, value):
        """(println expr) which must print value"""
        self.s("(println %s)" % expr)
        self.out.append(_show(value) + "\n")

    def emit(self, text):
        """the model says that running the statements added so far / next prints this line"""
        self.out.append(text + "\n")

    def unit(self, name, decls, what, ret=0, engines=None):
        u = {"name": name, "decls": decls, "body": "".join(self.src) + "    return %d\n" % ret, "expected": "".join(self.out),
             "ret": ret, "what": what}
        if engines:
            u["engines"] = engines
        return u


def _fn(name, params, rtype, body_lines):
    """a top-level function with the obligatory shadow block"""
    return "fn %s(%s) -> %s {\n%s}\nshadow %s { assert true }\n" % (name, params, rtype, "".join("    " + ln + "\n" for ln in body_lines), name)


def _ty(uname, suffix=""):
    """type name belonging to a unit (capitalised unit name)"""
    return uname[0].upper() + uname[1:] + suffix


# ================================================================================================ (1) enums
# alphabet: value pattern x use.  A value of None = no explicit value (then the variant's position, as in the spec's
# `enum Color { Red, Green, Blue }` example of examples/language/nl_enum.nano).
ENUM_PATTERNS_QUICK = [
    ("implicit", [None, None, None]),
    ("ascending from 0", [0, 1, 2]),
    ("ascending from 1", [1, 2, 3]),
    ("descending to 0", [2, 1, 0]),
    ("descending with gaps", [5, 3, 1]),
    ("ascending with gaps", [10, 20, 30]),
    ("first non-zero, then values equal to the position", [7, 1, 2]),
    ("first two swapped, last equal to its position", [1, 0, 2]),
    ("negative, zero, positive", [-1, 0, 1]),
    ("all negative, unordered", [-3, -10, -5]),
    ("beyond 16 bits", [70000, -70000, 65536]),
    ("32-bit edges", [2147483647, -2147483648, 0]),
    ("two variants, descending", [1, 0]),
    ("four variants, rotated", [1, 2, 3, 0]),
]


def _enum_patterns(tier):
    pats = list(ENUM_PATTERNS_QUICK)
    if tier != "quick":
        seen = set(tuple(p[1]) for p in pats)
        alpha = [-1, 0, 1, 2, 5]
        for n in (1, 2, 3):
            for vs in itertools.permutations(alpha, n):
                if vs not in seen:
                    seen.add(vs)
                    pats.append(("values %s" % (list(vs),), list(vs)))
        for vs in itertools.permutations([0, 1, 2, 3], 4):
            if vs not in seen:
                seen.add(vs)
                pats.append(("values %s" % (list(vs),), list(vs)))
        for vs in ([255, 256, 257], [32767, 32768, 32769], [65535, 65536, 65537], [-32768, -32769, -1], [-65535, -65536, -65537],
                   [2147483646, 2147483647, -2147483647], [1000000, 1, 1000]):
            pats.append(("values %s" % (vs,), vs))
    return pats


def _enum_decl(en, vals):
    return "enum %s { %s }\n" % (en, ", ".join("V%d" % i if v is None else "V%d = %d" % (i, v) for i, v in enumerate(vals)))


def enum_units(tier):
    n = 0
    for pname, raw in _enum_patterns(tier):
        vals = [i if v is None else v for i, v in enumerate(raw)]
        k = len(vals)
        for use in ("print", "compare", "arith", "fn"):
            name = "da_en%d" % n
            n += 1
            en = _ty(name, "E")
            decls = _enum_decl(en, raw)
            b = Body()
            if use == "print":
                for i, v in enumerate(vals):
                    b.pr("%s.V%d" % (en, i), v)
                for i, v in enumerate(vals):
                    b.s("let a%d: %s = %s.V%d" % (i, en, en, i))
                    b.pr("a%d" % i, v)
                    b.s("let i%d: int = %s.V%d" % (i, en, i))
                    b.pr("i%d" % i, v)
                b.pr('(+ "v=" (int_to_string %s.V%d))' % (en, k - 1), "v=%d" % vals[-1])
                ret = vals[0]
                b.src.append("    return %s.V0\n" % en)
            elif use == "compare":
                b.s("let a: %s = %s.V0" % (en, en))
                b.s("let z: %s = %s.V%d" % (en, en, k - 1))
                for i in range(k):
                    for j in range(k):
                        b.pr("(== %s.V%d %s.V%d)" % (en, i, en, j), vals[i] == vals[j])
                        b.pr("(!= %s.V%d %s.V%d)" % (en, i, en, j), vals[i] != vals[j])
                        b.pr("(< %s.V%d %s.V%d)" % (en, i, en, j), vals[i] < vals[j])
                    b.pr("(== a %s.V%d)" % (en, i), vals[0] == vals[i])
                    b.pr("(!= %s.V%d z)" % (en, i), vals[i] != vals[-1])
                    b.pr("(== %s.V%d %d)" % (en, i, vals[i]), True)
                    b.s("if (== z %s.V%d) { (println \"z is V%d\") } else { (println \"z is not V%d\") }" % (en, i, i, i))
                    b.emit("z is V%d" % i if vals[-1] == vals[i] else "z is not V%d" % i)
                ret = k
                b.src.append("    return %d\n" % k)
            elif use == "arith":
                b.s("let a: %s = %s.V0" % (en, en))
                for i in range(k):
                    j = (i + 1) % k
                    b.pr("(+ %s.V%d %s.V%d)" % (en, i, en, j), _w(vals[i] + vals[j]))
                    b.pr("(- %s.V%d %s.V%d)" % (en, i, en, j), _w(vals[i] - vals[j]))
                    b.pr("(* %s.V%d 3)" % (en, i), _w(vals[i] * 3))
                    b.pr("(+ a %s.V%d)" % (en, i), _w(vals[0] + vals[i]))
                    b.pr("(+ (* %s.V%d 1000) 7)" % (en, i), _w(vals[i] * 1000 + 7))
                b.s("let mut sum: int = 0")
                for i in range(k):
                    b.s("set sum (+ sum %s.V%d)" % (en, i))
                b.pr("sum", _w(sum(vals)))
                # enum-typed locals and parameters as operands (the result may be negative or exceed 32 bits)
                for i in range(k):
                    j = (i + 1) % k
                    b.s("let p%d: %s = %s.V%d" % (i, en, en, i))
                    b.s("let q%d: %s = %s.V%d" % (i, en, en, j))
                    b.pr("(- p%d q%d)" % (i, i), _w(vals[i] - vals[j]))
                    b.pr("(- q%d p%d)" % (i, i), _w(vals[j] - vals[i]))
                    b.pr("(+ p%d q%d)" % (i, i), _w(vals[i] + vals[j]))
                    b.pr("(- p%d 5)" % i, _w(vals[i] - 5))
                    b.pr("(* p%d -3)" % i, _w(vals[i] * -3))
                    b.pr("(< (- p%d q%d) 0)" % (i, i), vals[i] - vals[j] < 0)
                    b.pr("(%s_neg p%d)" % (name, i), _w(-vals[i]))
                    b.pr("(%s_diff p%d q%d)" % (name, i, i), _w(vals[i] - vals[j]))
                decls += _fn(name + "_neg", "e: %s" % en, "int", ["return (- 0 e)"])
                decls += _fn(name + "_diff", "a: %s, b: %s" % (en, en), "int", ["return (- a b)"])
                ret = _w(vals[0] + 1)
                b.src.append("    return (+ a 1)\n")
            else:
                # the helpers: enum -> int, int -> int fed with an enum, k -> enum, enum -> enum, enum -> its name
                decls += _fn(name + "_toint", "e: %s" % en, "int", ["return (+ e 100)"])
                decls += _fn(name + "_plain", "i: int", "int", ["return (* i 2)"])
                pick = []
                for i in range(k - 1):
                    pick.append("if (== k %d) { return %s.V%d } else {}" % (i, en, i))
                pick.append("return %s.V%d" % (en, k - 1))
                decls += _fn(name + "_pick", "k: int", en, pick)
                decls += _fn(name + "_id", "e: %s" % en, en, ["return e"])
                decls += _fn(name + "_nm", "e: %s" % en, "string", ["return (cond\n%s        (else \"?\"))" % "".join(
                    "        ((== e %s.V%d) \"V%d\")\n" % (en, i, i) for i in range(k))])
                for i in range(k):
                    b.pr("(%s_toint %s.V%d)" % (name, en, i), _w(vals[i] + 100))
                    b.pr("(%s_plain %s.V%d)" % (name, en, i), _w(vals[i] * 2))
                    b.pr("(%s_pick %d)" % (name, i), vals[i])
                    b.pr("(%s_id %s.V%d)" % (name, en, i), vals[i])
                    b.pr("(== (%s_pick %d) %s.V%d)" % (name, i, en, i), True)
                    b.pr("(%s_nm %s.V%d)" % (name, en, i), "V%d" % i)
                    b.pr("(%s_nm (%s_id (%s_pick %d)))" % (name, name, name, i), "V%d" % i)
                b.s("let mut cnt: int = 0")
                b.s("for j in (range 0 %d) {" % k)
                b.s("    if (== (%s_pick j) %s.V%d) { set cnt (+ cnt 1) } else {}" % (name, en, k - 1))
                b.s("}")
                b.pr("cnt", 1)
                ret = _w(vals[-1] + 100)
                b.src.append("    return (%s_toint (%s_pick %d))\n" % (name, name, k - 1))
            u = {"name": name, "decls": decls, "body": "".join(b.src), "expected": "".join(b.out), "ret": ret,
                 "what": "enum with %s %s: %s" % (pname, [v for v in raw], {"print": "every variant printed directly / through an enum-typed / an int-typed local",
                                                                           "compare": "every pair of variants under == != <, variant against local and literal",
                                                                           "arith": "variants as operands of + - *",
                                                                           "fn": "variants as function arguments and results, name table through cond"}[use])}
            yield u
    # explicit and implicit values mixed: the spec does not say how the implicit ones continue -> engines compared only
    for raw in ([5, None, None], [None, 5, None], [None, None, 5], [-2, None, None]) if tier != "quick" else ([5, None, None], [None, 5, None]):
        name = "da_en%d" % n
        n += 1
        en = _ty(name, "E")
        b = Body()
        for i in range(len(raw)):
            b.s("(println %s.V%d)" % (en, i))
            b.s("let a%d: %s = %s.V%d" % (i, en, en, i))
            b.s("(println (+ a%d 1))" % i)
        u = b.unit(name, _enum_decl(en, raw), "enum mixing explicit and implicit values %s (continuation not specified: engines compared with each other)" % (raw,))
        u["expected"] = None
        yield u


# ================================================================================================ (2) function values
# alphabet: what the callee does x callee defined before / after its users x route the function value takes
FV_EFFECTS = [("pure", False, False), ("prints", True, False), ("asserts", False, True), ("prints and asserts", True, True)]
# not in the alphabet: a call as function-typed ARGUMENT, `(app1 (get) x)` - the type checker demands "a function
# identifier or a function-typed variable" there (the route `returned` binds it to a local first); a function value whose
# own type mentions a function type, `let h: fn(fn(int) -> int, int) -> int = hof` - "Nested function types not yet
# supported" (parser); the higher-order callee is still called directly in `callee-calls-value`.
FV_ROUTES = ["local", "pass1", "pass2", "local-pass", "returned", "returned-local-pass", "twice-nested", "twice-seq",
             "callee-calls-value", "recursion-carrying", "recursion-through-self", "selected"]


def fv_units(tier):
    n = 0
    FT = "fn(int) -> int"
    for route in FV_ROUTES:
        for ename, prints, asserts in FV_EFFECTS:
            if tier == "quick" and ename == "asserts":
                continue        # quick keeps pure / prints / prints and asserts
            for pos in ("before", "after"):
                name = "da_fv%d" % n
                n += 1
                out = []

                def cb(x, tag="cb"):
                    if prints:
                        out.append(tag)
                        out.append(str(x))
                    return _w(x * 2 + 1)

                def cb_src(fname, tag, mul):
                    lines = []
                    if prints:
                        lines += ['(println "%s")' % tag, "(println x)"]
                    if asserts:
                        lines += ["assert (> x -1000)"]
                    lines += ["return (+ (* x %d) 1)" % mul]
                    return _fn(fname, "x: int", "int", lines)

                callee = cb_src(name + "_cb", "cb", 2)
                helpers = ""
                app1 = _fn(name + "_app1", "f: %s, x: int" % FT, "int", ["return (f x)"])
                app2 = _fn(name + "_app2", "f: %s, x: int" % FT, "int", ["return (%s_app1 f (+ x 1))" % name])
                get = _fn(name + "_get", "", FT, ["return %s_cb" % name])
                X = 3
                if route == "local":
                    use = ["let f: %s = %s_cb" % (FT, name), "return (f x)"]
                    res = cb(X)
                elif route == "pass1":
                    helpers = app1
                    use = ["return (%s_app1 %s_cb x)" % (name, name)]
                    res = cb(X)
                elif route == "pass2":
                    helpers = app1 + app2
                    use = ["return (%s_app2 %s_cb x)" % (name, name)]
                    res = cb(X + 1)
                elif route == "local-pass":
                    helpers = app1
                    use = ["let f: %s = %s_cb" % (FT, name), "return (%s_app1 f x)" % name]
                    res = cb(X)
                elif route == "returned":
                    helpers = get
                    use = ["let f: %s = (%s_get)" % (FT, name), "return (f x)"]
                    res = cb(X)
                elif route == "returned-local-pass":
                    helpers = get + app1 + app2
                    use = ["let f: %s = (%s_get)" % (FT, name), "return (%s_app2 f x)" % name]
                    res = cb(X + 1)
                elif route == "twice-nested":
                    use = ["let f: %s = %s_cb" % (FT, name), "return (f (f x))"]
                    res = cb(cb(X))
                elif route == "twice-seq":
                    use = ["let f: %s = %s_cb" % (FT, name), "let a: int = (f x)", "let b: int = (f (+ x 10))", "return (- a b)"]
                    r1 = cb(X)
                    r2 = cb(X + 10)
                    res = _w(r1 - r2)
                elif route == "callee-calls-value":
                    hl = []
                    if prints:
                        hl += ['(println "hof")', "(println x)"]
                    if asserts:
                        hl += ["assert (< x 1000)"]
                    hl += ["return (+ (g (+ x 5)) 1000)"]
                    helpers = _fn(name + "_hof", "g: %s, x: int" % FT, "int", hl)
                    use = ["return (%s_hof %s_cb x)" % (name, name)]
                    if prints:
                        out.append("hof")
                        out.append(str(X))
                    res = _w(cb(X + 5) + 1000)
                elif route == "recursion-carrying":
                    helpers = _fn(name + "_rec", "f: %s, k: int" % FT, "int", ["if (<= k 0) { return 0 } else {}", "return (+ (f k) (%s_rec f (- k 1)))" % name])
                    use = ["return (%s_rec %s_cb x)" % (name, name)]
                    res = 0
                    for kk in range(X, 0, -1):
                        res = _w(res + cb(kk))
                elif route == "recursion-through-self":
                    # the callee reaches itself through a local holding its own function value
                    lines = []
                    if prints:
                        lines += ['(println "cb")', "(println x)"]
                    if asserts:
                        lines += ["assert (> x -1000)"]
                    lines += ["if (<= x 0) { return 1 } else {}", "let me: %s = %s_cb" % (FT, name), "return (+ (* x 2) (me (- x 1)))"]
                    callee = _fn(name + "_cb", "x: int", "int", lines)

                    def selfrec(x):
                        if prints:
                            out.append("cb")
                            out.append(str(x))
                        if x <= 0:
                            return 1
                        return _w(x * 2 + selfrec(x - 1))
                    use = ["let f: %s = %s_cb" % (FT, name), "return (f x)"]
                    res = selfrec(X)
                else:   # selected: one of two callees chosen at run time, both called
                    helpers = cb_src(name + "_cb3", "cb3", 3) + _fn(name + "_sel", "k: int", FT, [
                        "if (== k 0) { return %s_cb } else { return %s_cb3 }" % (name, name)])
                    use = ["let f: %s = (%s_sel 0)" % (FT, name), "let g: %s = (%s_sel 1)" % (FT, name), "return (+ (* (f x) 100) (g x))"]
                    r1 = cb(X)
                    if prints:
                        out.append("cb3")
                        out.append(str(X))
                    res = _w(r1 * 100 + (X * 3 + 1))
                user = _fn(name + "_use", "x: int", "int", use)
                if route == "selected":
                    # the second callee stays next to the first one
                    second, rest = helpers.split("fn %s_sel" % name)
                    callee = callee + second
                    helpers = "fn %s_sel" % name + rest
                decls = (callee + helpers + user) if pos == "before" else (helpers + user + callee)
                body = "    let r: int = (%s_use %d)\n    (println r)\n    return (+ r 1)\n" % (name, X)
                exp = "".join(s + "\n" for s in out) + "%d\n" % res
                yield {"name": name, "decls": decls, "body": body, "expected": exp, "ret": _w(res + 1),
                       "what": "function value, route [%s], callee %s, callee defined %s its users" % (route, ename, pos)}
    if tier == "quick":
        return
    # other signatures (thorough): route x signature, callee prints and is defined after its user
    sigs = [
        ("string to string", "fn(string) -> string", "s: string", "string", ['(println (+ "cb " s))', 'return (+ s "!")'], '"ab"', lambda o, a: (o.append("cb " + a), a + "!")[1], '"ab"'),
        ("two ints to int", "fn(int, int) -> int", "a: int, b: int", "int", ["(println a)", "(println b)", "return (- a b)"], "10 3", lambda o, a: (o.append("10"), o.append("3"), 7)[2], None),
        # not in the alphabet: fn() -> int values - `(f)` with no argument denotes the function value itself, not a call
        # ("If this is a call with no arguments (just getting the function), return TYPE_FUNCTION", typechecker.c)
        ("int to bool", "fn(int) -> bool", "x: int", "bool", ["(println x)", "return (> x 2)"], "3", lambda o, a: (o.append("3"), True)[1], None),
        ("int to void", "fn(int) -> void", "x: int", "void", ['(println "cb")', "(println x)"], "3", lambda o, a: (o.append("cb"), o.append("3"), None)[2], None),
    ]
    for sname, ft, params, rt, lines, args, model, strarg in sigs:
        for route in ("local", "pass1", "returned", "twice-seq"):
            for pos in ("before", "after"):
                name = "da_fv%d" % n
                n += 1
                out = []
                pnames = ", ".join(p.split(":")[0].strip() for p in params.split(",")) if params else ""
                pn = pnames.replace(",", "")
                callee = _fn(name + "_cb", params, rt, lines)
                fparams = ("f: %s, %s" % (ft, params)) if params else "f: %s" % ft
                call_f = "(f %s)" % pn if pn else "(f)"
                if route == "local":
                    helpers = ""
                    use = ["let f: %s = %s_cb" % (ft, name), "RET " + call_f]
                    cnt = 1
                elif route == "pass1":
                    helpers = _fn(name + "_app1", fparams, rt, ["RET " + call_f])
                    use = ["RET (%s_app1 %s_cb%s)" % (name, name, " " + pn if pn else "")]
                    cnt = 1
                elif route == "returned":
                    helpers = _fn(name + "_get", "", ft, ["return %s_cb" % name])
                    use = ["let f: %s = (%s_get)" % (ft, name), "RET " + call_f]
                    cnt = 1
                else:
                    helpers = ""
                    use = ["let f: %s = %s_cb" % (ft, name), call_f if rt == "void" else "let first: %s = %s" % (rt, call_f), "RET " + call_f]
                    cnt = 2
                fix = lambda ls: [ln.replace("RET ", "" if rt == "void" else "return ") for ln in ls]
                helpers = helpers.replace("RET ", "" if rt == "void" else "return ")
                user = _fn(name + "_use", params, rt, fix(use))
                decls = (callee + helpers + user) if pos == "before" else (helpers + user + callee)
                r = None
                for _ in range(cnt):
                    r = model(out, "ab")
                if rt == "void":
                    body = "    (%s_use %s)\n    (println \"after\")\n    return 0\n" % (name, args)
                    out.append("after")
                else:
                    body = "    (println (%s_use%s))\n    return 0\n" % (name, " " + args if args else "")
                    out.append(_show(r))
                yield {"name": name, "decls": decls, "body": body, "expected": "".join(s + "\n" for s in out), "ret": 0,
                       "what": "function value of type %s (%s), route [%s], printing callee defined %s its users" % (ft, sname, route, pos)}


# ================================================================================================ (3) match expressions
# alphabet: result type x arm expression kind x place where the match expression stands; every unit runs it for a
# value of every variant.  Arms are plain expressions (block arms are excluded, see the module comment).
def _mx_arms(rt, kind, b=("a", "b", "c")):
    """-> (arm texts for A / B / C, python function (variant index, v, s) -> value)"""
    ba, bb, bc = b
    if rt == "int":
        if kind == "literal":
            return ["1", "2", "3"], lambda i, v, s: (1, 2, 3)[i]
        if kind == "field":
            return ["%s.v" % ba, "(str_length %s.s)" % bb, "0"], lambda i, v, s: (v, len(s), 0)[i]
        return ["(+ %s.v 10)" % ba, "(* (str_length %s.s) 2)" % bb, "(- 0 1)"], lambda i, v, s: (v + 10, len(s) * 2, -1)[i]
    if rt == "string":
        if kind == "literal":
            return ['"a"', '"b"', '"c"'], lambda i, v, s: ("a", "b", "c")[i]
        if kind == "field":
            return ["(int_to_string %s.v)" % ba, "%s.s" % bb, '"none"'], lambda i, v, s: (str(v), s, "none")[i]
        return ['(+ "<" (int_to_string %s.v))' % ba, '(+ %s.s ">")' % bb, '(+ "n" "o")'], lambda i, v, s: ("<" + str(v), s + ">", "no")[i]
    if kind == "literal":
        return ["true", "false", "true"], lambda i, v, s: (True, False, True)[i]
    if kind == "field":
        return ["(> %s.v 5)" % ba, '(== %s.s "hi")' % bb, "false"], lambda i, v, s: (v > 5, s == "hi", False)[i]
    return ["(and (> %s.v 0) (< %s.v 5))" % (ba, ba), '(not (== %s.s "hi"))' % bb, "(or false true)"], lambda i, v, s: (0 < v < 5, s != "hi", True)[i]


MX_PLACES = ["initialiser", "println-argument", "call-argument", "operand", "return-value", "set-value", "nested-in-arm", "with-cond", "if-condition"]


def mx_units(tier):
    n = 0
    V, S = 7, "hi"
    kinds = ("literal", "field", "computed")
    for rt in ("int", "string", "bool"):
        for place in MX_PLACES:
            if place == "if-condition" and rt != "bool":
                continue
            for kind in kinds:
                for bind, pre in ((("a", "b", "c"), False), (("x", "x", "x"), False), (("a", "b", "c"), True)):
                    if tier == "quick" and (kind == "computed" or (bind[0] == "x" and place not in ("initialiser", "nested-in-arm"))):
                        continue
                    if tier == "quick" and kind == "literal" and place not in ("initialiser", "operand", "return-value"):
                        continue
                    if pre and (kind != "field" or (tier == "quick" and place not in ("initialiser", "return-value"))):
                        continue
                    name = "da_mx%d" % n
                    n += 1
                    un = _ty(name, "U")
                    # pre: a struct declared before the union uses the same field names at other positions
                    decls = ("struct %s { s: string, k: int, v: int }\n" % _ty(name, "S") if pre else "") + "union %s { A { v: int }, B { s: string }, C {} }\n" % un
                    arms, f = _mx_arms(rt, kind, bind)

                    def mtext(subject, arms=arms):
                        return "match %s { A(%s) => %s, B(%s) => %s, C(%s) => %s }" % (subject, bind[0], arms[0], bind[1], arms[1], bind[2], arms[2])
                    b = Body()
                    b.s("let u0: %s = %s.A { v: %d }" % (un, un, V))
                    b.s('let u1: %s = %s.B { s: "%s" }' % (un, un, S))
                    b.s("let u2: %s = %s.C {}" % (un, un))
                    if place == "call-argument":
                        decls += _fn(name + "_id", "p: %s" % rt, rt, ["return p"])
                    if place == "return-value":
                        decls += _fn(name + "_r", "u: %s" % un, rt, ["return " + mtext("u")])
                    if place == "set-value":
                        b.s("let mut r: %s = %s" % (rt, {"int": "-5", "string": '"init"', "bool": "false"}[rt]))
                    for i in range(3):
                        val = f(i, V, S)
                        m = mtext("u%d" % i)
                        if place == "initialiser":
                            b.s("let r%d: %s = %s" % (i, rt, m))
                            b.pr("r%d" % i, val)
                        elif place == "println-argument":
                            b.pr("(%s)" % m, val)
                            b.pr(m, val)
                        elif place == "call-argument":
                            b.pr("(%s_id %s)" % (name, m), val)
                        elif place == "operand":
                            if rt == "int":
                                b.pr("(+ 100 %s)" % m, 100 + val)
                                b.pr("(* (%s) 2)" % m, val * 2)
                            elif rt == "string":
                                b.pr('(+ "[" (+ %s "]"))' % m, "[" + val + "]")
                                b.pr("(str_length (%s))" % m, len(val))
                            else:
                                b.pr("(not %s)" % m, not val)
                                b.pr("(and true (%s))" % m, val)
                        elif place == "return-value":
                            b.pr("(%s_r u%d)" % (name, i), val)
                        elif place == "set-value":
                            b.s("set r %s" % m)
                            b.pr("r", val)
                        elif place == "nested-in-arm":
                            # the arm of variant A of the outer match is itself a match over a second value
                            for j in range(3):
                                inner = "match u%d { A(p) => %s, B(q) => %s, C(w) => %s }" % (j, arms[0].replace(bind[0] + ".", "p."), arms[1].replace(bind[1] + ".", "q."), arms[2])
                                outer = "match u%d { A(%s) => %s, B(%s) => %s, C(%s) => %s }" % (i, bind[0], inner, bind[1], arms[1], bind[2], arms[2])
                                b.s("let n%d%d: %s = %s" % (i, j, rt, outer))
                                b.pr("n%d%d" % (i, j), f(j, V, S) if i == 0 else val)
                        elif place == "with-cond":
                            # a cond as arm expression, and the match as clause value of a cond
                            dflt = {"int": "-1", "string": '"dflt"', "bool": "false"}[rt]
                            dv = {"int": -1, "string": "dflt", "bool": False}[rt]
                            carms = ["(cond ((> %s.v 100) %s) (else %s))" % (bind[0], dflt, arms[0]), arms[1], "(cond ((== %d %d) %s) (else %s))" % (i, i, arms[2], dflt)]
                            b.s("let c%d: %s = %s" % (i, rt, mtext("u%d" % i, carms)))
                            b.pr("c%d" % i, val)
                            for sel in (0, 1):
                                b.s("let d%d%d: %s = (cond ((== %d 1) %s) (else %s))" % (i, sel, rt, sel, m, dflt))
                                b.pr("d%d%d" % (i, sel), val if sel == 1 else dv)
                        else:
                            b.s('if (%s) { (println "yes %d") } else { (println "no %d") }' % (m, i, i))
                            b.emit(("yes %d" if val else "no %d") % i)
                    yield b.unit(name, decls, "match expression of type %s, %s arms, bindings %s, as %s%s; one value per variant" % (
                        rt, kind, "/".join(bind), place, ", field names shared with an earlier struct" if pre else ""), ret=n % 7)


# ================================================================================================ (4) access on a call result
# alphabet: access path x place.  P { x s b f }, Q { inner: P, k, t }, R { q: Q, z }, tuples of 2 / 3 elements.
def _ac_decls(name, needs, pre=False):
    P, Q, R = _ty(name, "P"), _ty(name, "Q"), _ty(name, "R")
    d = ""
    if pre:
        # an unrelated struct, declared first, that has every field name used below at ANOTHER index
        d += "struct %s { f: float, b: bool, s: string, x: int, t: string, z: int, k: int, q: int, inner: int }\n" % _ty(name, "Z")
    if "P" in needs or "Q" in needs or "R" in needs:
        d += "struct %s { x: int, s: string, b: bool, f: float }\n" % P
    if "Q" in needs or "R" in needs:
        d += "struct %s { inner: %s, k: int, t: string }\n" % (Q, P)
    if "R" in needs:
        d += "struct %s { q: %s, z: int }\n" % (R, Q)
    if "P" in needs or "Q" in needs or "R" in needs:
        d += _fn(name + "_mk", "a: int", P, ['return %s { x: (+ a 10), s: (+ "s" (int_to_string a)), b: (> a 0), f: 2.5 }' % P])
    if "Q" in needs or "R" in needs:
        d += _fn(name + "_mk2", "a: int", Q, ['return %s { inner: (%s_mk (+ a 1)), k: (* a 7), t: (+ "t" (int_to_string a)) }' % (Q, name)])
    if "R" in needs:
        d += _fn(name + "_mk3", "a: int", R, ["return %s { q: (%s_mk2 (+ a 1)), z: (- 0 a) }" % (R, name)])
    if "W" in needs:
        d += _fn(name + "_wrap", "a: int", P, ["return (%s_mk (+ a 100))" % name])
        d += _fn(name + "_wrap2", "a: int", P, ["let p: %s = (%s_wrap (+ a 1000))" % (P, name), "return p"])
    if "T" in needs:
        d += _fn(name + "_pair", "a: int", "(int, string)", ['return ((+ a 1), (+ "p" (int_to_string a)))'])
        d += _fn(name + "_rpair", "a: int", "(string, int)", ['return ((+ "r" (int_to_string a)), (* a 3))'])
        d += _fn(name + "_tri", "a: int", "(int, int, int)", ["return (a, (+ a 1), (+ a 2))"])
        d += _fn(name + "_bpair", "a: int", "(bool, int)", ["return ((> a 0), a)"])
    return d


# (access text with @ for the unit name, needs, type, value) for argument 4
AC_ACCESSES = [
    ("(@_mk 4).x", "P", "int", 14), ("(@_mk 4).s", "P", "string", "s4"), ("(@_mk 4).b", "P", "bool", True), ("(@_mk 4).f", "P", "float", 2.5),
    ("(@_mk2 4).k", "Q", "int", 28), ("(@_mk2 4).t", "Q", "string", "t4"), ("(@_mk2 4).inner.x", "Q", "int", 15), ("(@_mk2 4).inner.s", "Q", "string", "s5"),
    ("(@_mk2 4).inner.b", "Q", "bool", True),
    ("(@_mk3 4).z", "R", "int", -4), ("(@_mk3 4).q.k", "R", "int", 35), ("(@_mk3 4).q.t", "R", "string", "t5"), ("(@_mk3 4).q.inner.x", "R", "int", 16),
    ("(@_mk3 4).q.inner.s", "R", "string", "s6"),
    ("(@_wrap 4).x", "PW", "int", 114), ("(@_wrap 4).s", "PW", "string", "s104"), ("(@_wrap2 4).x", "PW", "int", 1114), ("(@_wrap2 4).s", "PW", "string", "s1104"),
    # tuple elements of a call result: int elements only.  The type checker types `(f 1).N` as int whatever the element
    # is ("we can't statically determine the type ... TODO" in typechecker.c; tuples are "in development", spec 12), so
    # `let s: string = (pair 4).1` is refused by every engine and `(println (pair 4).1)` is accepted but miscompiled natively.
    ("(@_pair 4).0", "T", "int", 5), ("(@_rpair 4).1", "T", "int", 12),
    ("(@_tri 4).0", "T", "int", 4), ("(@_tri 4).1", "T", "int", 5), ("(@_tri 4).2", "T", "int", 6), ("(@_bpair 4).1", "T", "int", 4),
]
AC_PLACES = ["println-argument", "initialiser", "operand", "call-argument", "return-value", "condition"]


def ac_units(tier):
    n = 0
    for acc, needs, ty, val in AC_ACCESSES:
        for place, pre in itertools.product(AC_PLACES, (False, True)):
            if tier == "quick" and (place in ("call-argument", "condition") or (place == "return-value" and ty != "string")):
                continue
            if tier == "quick" and (pre == ("T" in needs)):
                continue       # quick: struct accesses only with the earlier struct, tuple accesses only without
            if ty == "float" and place in ("operand", "condition"):
                continue
            name = "da_ac%d" % n
            n += 1
            e = acc.replace("@", name)
            decls = _ac_decls(name, needs, pre)
            b = Body()
            if place == "println-argument":
                b.pr(e, val)
                b.pr(e, val)
            elif place == "initialiser":
                b.s("let r: %s = %s" % (ty, e))
                b.pr("r", val)
                b.s("let mut m: %s = %s" % (ty, e))
                b.s("set m %s" % e)
                b.pr("m", val)
            elif place == "operand":
                if ty == "int":
                    b.pr("(+ %s 1)" % e, val + 1)
                    b.pr("(- 1000 %s)" % e, 1000 - val)
                    b.pr("(+ %s %s)" % (e, e), val * 2)
                elif ty == "string":
                    b.pr('(+ "<" %s)' % e, "<" + val)
                    b.pr('(+ %s ">")' % e, val + ">")
                    b.pr("(str_length %s)" % e, len(val))
                    b.pr("(+ %s %s)" % (e, e), val + val)
                else:
                    b.pr("(not %s)" % e, not val)
                    b.pr("(and %s true)" % e, val)
            elif place == "call-argument":
                decls += _fn(name + "_id", "p: %s" % ty, ty, ["return p"])
                b.pr("(%s_id %s)" % (name, e), val)
                b.pr("(%s_id (%s_id %s))" % (name, name, e), val)
            elif place == "return-value":
                decls += _fn(name + "_r", "", ty, ["return %s" % e])
                b.pr("(%s_r)" % name, val)
            else:
                cmpv = _lit(val) if ty != "bool" else "true"
                b.s('if (== %s %s) { (println "eq") } else { (println "ne") }' % (e, cmpv))
                b.emit("eq" if (ty != "bool" or val) else "ne")
                b.pr("(!= %s %s)" % (e, cmpv), False if ty != "bool" else (not val))
            yield b.unit(name, decls, "%s (%s) read from a temporary, used as %s%s" % (
                acc.replace("@", "f"), ty, place, "; an earlier struct has the same field names at other positions" if pre else ""), ret=n % 5)


# ================================================================================================ (5) structs by value
# alphabet: struct shape x scenario.  There is no field assignment in the language: a copy is "mutated" by `set`-ting
# the whole variable to a new struct value.
def sv_units(tier):
    n = 0
    shapes = ["int", "int+string", "nested"]
    scenarios = ["copy-then-set-copy", "copy-then-set-original", "set-from-own-fields", "set-to-itself", "copy-of-copy", "swap", "function-returns-modified-copy",
                 "function-twice", "loop-accumulate", "inner-then-set-inner", "copy-out-of-outer", "param-copy-in-callee"]
    for shape in shapes:
        for sc in scenarios:
            if sc in ("inner-then-set-inner", "copy-out-of-outer") and shape != "nested":
                continue
            name = "da_sv%d" % n
            n += 1
            P, Q = _ty(name, "P"), _ty(name, "Q")
            if shape == "int":
                decls = "struct %s { x: int, y: int }\n" % P
                mk = lambda a, t: "%s { x: %s, y: %s }" % (P, a, "(str_length %s)" % t if not t.startswith('"') else str(len(t) - 2))
                show = lambda b, var, v: (b.pr(var + ".x", v[0]), b.pr(var + ".y", len(v[1])))
                fx, fs = ".x", None
            elif shape == "int+string":
                decls = "struct %s { x: int, s: string }\n" % P
                mk = lambda a, t: "%s { x: %s, s: %s }" % (P, a, t)
                show = lambda b, var, v: (b.pr(var + ".x", v[0]), b.pr(var + ".s", v[1]))
                fx, fs = ".x", ".s"
            else:
                decls = "struct %s { x: int, s: string }\nstruct %s { inner: %s, k: int }\n" % (P, Q, P)
                mk = lambda a, t: "%s { x: %s, s: %s }" % (P, a, t)
                show = lambda b, var, v: (b.pr(var + ".x", v[0]), b.pr(var + ".s", v[1]))
                fx, fs = ".x", ".s"
            # model values are (x, s) pairs
            bump_src = _fn(name + "_bump", "p: %s" % P, P, ["let mut q: %s = p" % P, "set q %s" % mk("(+ p.x 100)", '"bumped"'), "return q"])
            b = Body()
            p = (1, "one")
            b.s("let mut p: %s = %s" % (P, mk("1", '"one"')))
            if sc == "copy-then-set-copy":
                b.s("let mut c: %s = p" % P)
                b.s("set c %s" % mk("9", '"nine9"'))
                show(b, "p", p)
                show(b, "c", (9, "nine9"))
                show(b, "p", p)
            elif sc == "copy-then-set-original":
                b.s("let c: %s = p" % P)
                b.s("set p %s" % mk("9", '"nine9"'))
                show(b, "c", p)
                show(b, "p", (9, "nine9"))
                show(b, "c", p)
            elif sc == "set-from-own-fields":
                b.s("let c: %s = p" % P)
                b.s("set p %s" % mk("(+ p.x 1)", "p.s" if shape != "int" else '"one"'))
                b.s("set p %s" % mk("(+ p.x 1)", "p.s" if shape != "int" else '"one"'))
                show(b, "p", (3, "one"))
                show(b, "c", p)
            elif sc == "set-to-itself":
                b.s("let c: %s = p" % P)
                b.s("set p p")
                show(b, "p", p)
                b.s("set p c")
                show(b, "p", p)
                show(b, "c", p)
            elif sc == "copy-of-copy":
                b.s("let mut c: %s = p" % P)
                b.s("let mut d: %s = c" % P)
                b.s("set c %s" % mk("2", '"two22"'))
                b.s("set d %s" % mk("3", '"three"'))
                show(b, "p", p)
                show(b, "c", (2, "two22"))
                show(b, "d", (3, "three"))
            elif sc == "swap":
                b.s("let mut o: %s = %s" % (P, mk("2", '"two22"')))
                b.s("let t: %s = p" % P)
                b.s("set p o")
                b.s("set o t")
                show(b, "p", (2, "two22"))
                show(b, "o", p)
                show(b, "t", p)
            elif sc == "function-returns-modified-copy":
                decls += bump_src
                b.s("let r: %s = (%s_bump p)" % (P, name))
                show(b, "p", p)
                show(b, "r", (101, "bumped"))
                b.pr("(%s_bump p).x" % name, 101)
                show(b, "p", p)
            elif sc == "function-twice":
                decls += bump_src
                b.s("let r: %s = (%s_bump (%s_bump p))" % (P, name, name))
                show(b, "r", (201, "bumped"))
                show(b, "p", p)
                b.s("set p (%s_bump p)" % name)
                show(b, "p", (101, "bumped"))
                show(b, "r", (201, "bumped"))
            elif sc == "loop-accumulate":
                decls += bump_src
                b.s("let first: %s = p" % P)
                b.s("for i in (range 0 3) {")
                b.s("    set p (%s_bump p)" % name)
                b.s("    (println p.x)")
                b.s("}")
                for i in range(3):
                    b.emit(str(1 + 100 * (i + 1)))
                show(b, "p", (301, "bumped"))
                show(b, "first", p)
            elif sc == "inner-then-set-inner":
                b.s("let mut q: %s = %s { inner: p, k: 5 }" % (Q, Q))
                b.s("set p %s" % mk("9", '"nine9"'))
                show(b, "q.inner", p)
                b.pr("q.k", 5)
                show(b, "p", (9, "nine9"))
                b.s("let q2: %s = q" % Q)
                b.s("set q %s { inner: p, k: 6 }" % Q)
                show(b, "q.inner", (9, "nine9"))
                show(b, "q2.inner", p)
                b.pr("q2.k", 5)
                b.pr("q.k", 6)
            elif sc == "copy-out-of-outer":
                b.s("let mut q: %s = %s { inner: p, k: 5 }" % (Q, Q))
                b.s("let mut i: %s = q.inner" % P)
                b.s("set i %s" % mk("9", '"nine9"'))
                show(b, "q.inner", p)
                show(b, "i", (9, "nine9"))
                b.s("set q %s { inner: i, k: 6 }" % Q)
                b.s("set i %s" % mk("10", '"ten"'))
                show(b, "q.inner", (9, "nine9"))
                show(b, "i", (10, "ten"))
                show(b, "p", p)
            else:
                decls += _fn(name + "_both", "p: %s" % P, "int", ["let mut q: %s = p" % P, "set q %s" % mk("(* p.x 50)", '"callee"'), "(println p.x)", "(println q.x)", "return (+ p.x q.x)"])
                b.pr("(%s_both p)" % name, "1\n50\n51")
                show(b, "p", p)
            yield b.unit(name, decls, "struct by value, fields %s, scenario %s" % (shape, sc), ret=n % 3)


# ================================================================================================ (6) unions
# alphabet: union shape x operation; every unit constructs every variant.  A shape is a list of variants
# (name, [(field, type)]) plus optional structs declared BEFORE the union (field names shared between variants, between
# a variant and a struct, and variant names shared between two unions are the interesting part of the alphabet).
UN_SHAPES_QUICK = [
    ("int and string variant", [], [("A", [("v", "int")]), ("B", [("s", "string")])]),
    ("int, string and empty variant", [], [("A", [("v", "int")]), ("B", [("s", "string")]), ("C", [])]),
    ("only empty variants", [], [("X", []), ("Y", []), ("Z", [])]),
    ("one variant", [], [("A", [("v", "int")])]),
    ("strings only", [], [("A", [("s", "string")]), ("B", [("t", "string"), ("w", "string")])]),
    ("same field name, same position", [], [("A", [("v", "int")]), ("B", [("v", "int")])]),
    ("same field name, other position", [], [("A", [("x", "int"), ("y", "int")]), ("B", [("y", "int")])]),
    ("same field names, swapped", [], [("A", [("x", "int"), ("y", "int")]), ("B", [("y", "int"), ("x", "int")])]),
    ("same field name, other type and position", [], [("A", [("n", "int"), ("s", "string")]), ("B", [("s", "string"), ("n", "int")])]),
    ("field name shared with a struct (other position)", [("S", [("k", "int"), ("s", "string")])], [("A", [("v", "int")]), ("B", [("s", "string")])]),
    ("field name shared with a struct (same position)", [("S", [("v", "int")])], [("A", [("v", "int")]), ("B", [("s", "string")])]),
    ("three mixed fields, reversed in the second variant", [], [("A", [("a", "int"), ("b", "string"), ("c", "bool")]), ("B", [("c", "bool"), ("b", "string"), ("a", "int")])]),
    ("four variants", [], [("A", [("v", "int")]), ("B", [("s", "string")]), ("C", []), ("D", [("p", "int"), ("q", "int")])]),
    ("struct payload", [("S", [("k", "int"), ("s", "string")])], [("A", [("p", "@S")]), ("B", [("v", "int")])]),
    ("struct payload whose field names an earlier struct has in another order", [("Z", [("s", "string"), ("v", "int"), ("k", "int")]), ("S", [("k", "int"), ("s", "string")])],
     [("A", [("p", "@S")]), ("B", [("v", "int")])]),
]
UN_OPS = ["match-statement", "match-expression", "through-function", "returned-from-function", "reassigned", "tag-name"]


def _un_value(ty, seed):
    if ty == "int":
        return 10 + seed
    if ty == "string":
        return "s%d" % seed
    if ty == "bool":
        return seed % 2 == 0
    raise ValueError(ty)


def un_units(tier):
    n = 0
    shapes = list(UN_SHAPES_QUICK)
    if tier != "quick":
        # every distribution of the field names {x, y} over two variants of up to two int fields
        fl = [[], ["x"], ["y"], ["x", "y"], ["y", "x"]]
        for fa in fl:
            for fb in fl:
                shapes.append(("int fields %s / %s" % (fa, fb), [], [("A", [(f, "int") for f in fa]), ("B", [(f, "int") for f in fb])]))
        for sf in (["x"], ["y", "x"], ["z", "y", "x"]):
            shapes.append(("struct fields %s before union fields x y / y" % sf, [("S", [(f, "int") for f in sf])], [("A", [("x", "int"), ("y", "int")]), ("B", [("y", "int")])]))
    for sname, structs, variants in shapes:
        for op in UN_OPS:
            if tier == "quick" and op in ("reassigned", "tag-name") and sname not in ("int, string and empty variant", "only empty variants"):
                continue
            name = "da_un%d" % n
            n += 1
            U = _ty(name, "U")
            decls = ""
            sty = {}
            for st, fields in structs:
                sty["@" + st] = _ty(name, st)
                decls += "struct %s { %s }\n" % (_ty(name, st), ", ".join("%s: %s" % f for f in fields))
            decls += "union %s { %s }\n" % (U, ", ".join("%s { %s }" % (vn, ", ".join("%s: %s" % (f, sty.get(t, t)) for f, t in fs)) if fs else "%s {}" % vn for vn, fs in variants))
            # one value per variant: (constructor text, [(access path after the binding, type, python value)])
            vals = []
            for vi, (vn, fs) in enumerate(variants):
                inits, reads = [], []
                for fi, (f, t) in enumerate(fs):
                    if t.startswith("@"):
                        sfields = dict(structs)[t[1:]]
                        svals = [_un_value(ft, vi * 10 + fi * 3 + k) for k, (fn_, ft) in enumerate(sfields)]
                        inits.append("%s: %s { %s }" % (f, sty[t], ", ".join("%s: %s" % (fn_, _lit(v)) for (fn_, ft), v in zip(sfields, svals))))
                        for (fn_, ft), v in zip(sfields, svals):
                            reads.append(("%s.%s" % (f, fn_), ft, v))
                    else:
                        v = _un_value(t, vi * 10 + fi * 3)
                        inits.append("%s: %s" % (f, _lit(v)))
                        reads.append((f, t, v))
                vals.append(("%s.%s { %s }" % (U, vn, ", ".join(inits)) if inits else "%s.%s {}" % (U, vn), reads))

            def summary_expr(bind, reads):
                """an int summarising every field of the bound variant"""
                e = "0"
                for path, t, v in reads:
                    term = {"int": "%s.%s" % (bind, path), "string": "(str_length %s.%s)" % (bind, path), "bool": "(cond (%s.%s 1) (else 2))" % (bind, path)}[t]
                    e = "(+ (* %s 3) %s)" % (e, term)
                return e

            def summary_val(reads):
                r = 0
                for path, t, v in reads:
                    r = r * 3 + (v if t == "int" else len(v) if t == "string" else (1 if v else 2))
                return r

            def stmt_match(subject, ind="    "):
                lines = ["match %s {" % subject]
                for vi, (vn, fs) in enumerate(variants):
                    lines.append("    %s(b%d) => {" % (vn, vi))
                    lines.append('        (println "%s")' % vn)
                    for path, t, v in vals[vi][1]:
                        lines.append("        (println b%d.%s)" % (vi, path))
                    lines.append("    }")
                lines.append("}")
                return lines

            def stmt_out(vi):
                return [variants[vi][0]] + [_show(v) for path, t, v in vals[vi][1]]

            def expr_match(subject):
                return "match %s { %s }" % (subject, ", ".join("%s(b%d) => (+ %d %s)" % (vn, vi, 1000 * (vi + 1), summary_expr("b%d" % vi, vals[vi][1])) for vi, (vn, fs) in enumerate(variants)))

            def expr_val(vi):
                return 1000 * (vi + 1) + summary_val(vals[vi][1])
            b = Body()
            for vi in range(len(variants)):
                b.s("let u%d: %s = %s" % (vi, U, vals[vi][0]))
            if op == "match-statement":
                for vi in range(len(variants)):
                    for ln in stmt_match("u%d" % vi):
                        b.s(ln)
                    for o in stmt_out(vi):
                        b.emit(o)
            elif op == "match-expression":
                for vi in range(len(variants)):
                    b.s("let r%d: int = %s" % (vi, expr_match("u%d" % vi)))
                    b.pr("r%d" % vi, expr_val(vi))
            elif op == "through-function":
                decls += _fn(name + "_show", "u: %s" % U, "int", stmt_match("u") + ["return 1"])
                lines = ["match u {"] + ["    %s(b%d) => { return (+ %d %s) }" % (vn, vi, 1000 * (vi + 1), summary_expr("b%d" % vi, vals[vi][1])) for vi, (vn, fs) in enumerate(variants)] + ["}"]
                decls += _fn(name + "_sum", "u: %s" % U, "int", lines)
                for vi in range(len(variants)):
                    b.s("let k%d: int = (%s_show u%d)" % (vi, name, vi))
                    for o in stmt_out(vi):
                        b.emit(o)
                    b.pr("(%s_sum u%d)" % (name, vi), expr_val(vi))
                    b.pr("(%s_sum %s)" % (name, vals[vi][0]), expr_val(vi))
            elif op == "returned-from-function":
                lines = ["if (== k %d) { return %s } else {}" % (vi, vals[vi][0]) for vi in range(len(variants) - 1)] + ["return %s" % vals[-1][0]]
                decls += _fn(name + "_make", "k: int", U, lines)
                for vi in range(len(variants)):
                    b.s("let m%d: %s = (%s_make %d)" % (vi, U, name, vi))
                    for ln in stmt_match("m%d" % vi):
                        b.s(ln)
                    for o in stmt_out(vi):
                        b.emit(o)
                    b.pr("(%s)" % expr_match("(%s_make %d)" % (name, vi)), expr_val(vi))
            elif op == "reassigned":
                b.s("let mut cur: %s = u0" % U)
                order = list(range(len(variants))) + list(range(len(variants) - 1, -1, -1))
                for vi in order:
                    b.s("set cur u%d" % vi)
                    b.pr("(%s)" % expr_match("cur"), expr_val(vi))
                    b.pr("(%s)" % expr_match("u0"), expr_val(0))
                b.s("set cur %s" % vals[-1][0])
                for ln in stmt_match("cur"):
                    b.s(ln)
                for o in stmt_out(len(variants) - 1):
                    b.emit(o)
            else:
                decls += _fn(name + "_tag", "u: %s" % U, "string", ["return match u { %s }" % ", ".join('%s(b%d) => "%s"' % (vn, vi, vn.lower()) for vi, (vn, fs) in enumerate(variants))])
                for vi in range(len(variants)):
                    b.pr("(%s_tag u%d)" % (name, vi), variants[vi][0].lower())
                    b.pr('(+ "tag=" (%s_tag %s))' % (name, vals[vi][0]), "tag=" + variants[vi][0].lower())
                    b.pr('(== (%s_tag u%d) "%s")' % (name, vi, variants[0][0].lower()), vi == 0)
            yield b.unit(name, decls, "union with %s: every variant constructed, %s" % (sname, op), ret=len(variants))
    # two unions sharing their variant names (fields differ)
    for op in ("match-statement", "match-expression"):
        for order in ((0, 1), (1, 0)):
            name = "da_un%d" % n
            n += 1
            U1, U2 = _ty(name, "U"), _ty(name, "W")
            d = ["union %s { A { v: int }, B { s: string } }\n" % U1, "union %s { B { v: int }, A { s: string }, C { v: int, s: string } }\n" % U2]
            decls = d[order[0]] + d[order[1]]
            b = Body()
            b.s("let p0: %s = %s.A { v: 11 }" % (U1, U1))
            b.s('let p1: %s = %s.B { s: "p1" }' % (U1, U1))
            b.s("let q0: %s = %s.B { v: 22 }" % (U2, U2))
            b.s('let q1: %s = %s.A { s: "q1" }' % (U2, U2))
            b.s('let q2: %s = %s.C { v: 33, s: "q2" }' % (U2, U2))
            if op == "match-statement":
                for var, o in (("p0", ["A", "11"]), ("p1", ["B", "p1"])):
                    b.s("match %s {" % var)
                    b.s('    A(a) => { (println "A") (println a.v) }')
                    b.s('    B(b) => { (println "B") (println b.s) }')
                    b.s("}")
                    for x in o:
                        b.emit(x)
                for var, o in (("q0", ["B", "22"]), ("q1", ["A", "q1"]), ("q2", ["C", "33", "q2"])):
                    b.s("match %s {" % var)
                    b.s('    B(b) => { (println "B") (println b.v) }')
                    b.s('    A(a) => { (println "A") (println a.s) }')
                    b.s('    C(c) => { (println "C") (println c.v) (println c.s) }')
                    b.s("}")
                    for x in o:
                        b.emit(x)
            else:
                for var, v in (("p0", 11), ("p1", 102)):
                    b.pr("(match %s { A(a) => a.v, B(b) => (+ 100 (str_length b.s)) })" % var, v)
                for var, v in (("q0", 22), ("q1", 102), ("q2", 35)):
                    b.pr("(match %s { B(b) => b.v, A(a) => (+ 100 (str_length a.s)), C(c) => (+ c.v (str_length c.s)) })" % var, v)
            yield b.unit(name, decls, "two unions sharing the variant names A and B with different fields (declared %s first), %s" % ("U" if order[0] == 0 else "W", op), ret=2)


# ================================================================================================ (7) cond expressions
# alphabet: result type x place x quiet / noisy conditions (noisy: every condition goes through a printing function,
# so the clauses evaluated before the taken one - and nothing after it - are visible); every unit takes each clause once.
CD_PLACES = ["initialiser", "println-argument", "call-argument", "operand", "return-value", "set-value", "nested-in-value", "nested-in-condition", "if-condition"]


def cd_units(tier):
    n = 0
    vals = {"int": [10, 20, 30, -1], "string": ["ten", "twenty", "thirty", "other"], "bool": [True, False, True, False]}
    for rt in ("int", "string", "bool"):
        for place in CD_PLACES:
            if place == "if-condition" and rt != "bool":
                continue
            for noisy in (False, True):
                for nclauses in ((3,) if tier == "quick" else (1, 2, 3)):
                    if nclauses != 3 and place not in ("initialiser", "operand", "return-value"):
                        continue
                    name = "da_cd%d" % n
                    n += 1
                    vs = vals[rt][:nclauses] + [vals[rt][3]]
                    decls = ""
                    if noisy:
                        decls += _fn(name + "_is", "k: int, want: int", "bool", ['(println (+ "test " (int_to_string want)))', "return (== k want)"])
                        decls += _fn(name + "_val", "v: %s" % rt, rt, ['(println "value")', "return v"])

                    def cnd(subject, vs=vs, nclauses=nclauses):
                        cl = []
                        for i in range(nclauses):
                            c = "(%s_is %s %d)" % (name, subject, i) if noisy else "(== %s %d)" % (subject, i)
                            v = "(%s_val %s)" % (name, _lit(vs[i])) if noisy else _lit(vs[i])
                            cl.append("(%s %s)" % (c, v))
                        return "(cond %s (else %s))" % (" ".join(cl), "(%s_val %s)" % (name, _lit(vs[-1])) if noisy else _lit(vs[-1]))

                    def trace(k, nclauses=nclauses):
                        """lines printed while evaluating the cond for selector k"""
                        if not noisy:
                            return []
                        out = []
                        for i in range(nclauses):
                            out.append("test %d" % i)
                            if i == k:
                                break
                        out.append("value")
                        return out

                    def val(k, vs=vs, nclauses=nclauses):
                        return vs[k] if k < nclauses else vs[-1]
                    b = Body()
                    if place == "call-argument":
                        decls += _fn(name + "_id", "p: %s" % rt, rt, ["return p"])
                    if place == "return-value":
                        decls += _fn(name + "_r", "k: int", rt, ["return " + cnd("k")])
                    if place == "set-value":
                        b.s("let mut r: %s = %s" % (rt, {"int": "-5", "string": '"init"', "bool": "false"}[rt]))
                    for k in range(nclauses + 1):
                        b.s("let k%d: int = %d" % (k, k))
                        c = cnd("k%d" % k)
                        v = val(k)

                        def tr():
                            for t in trace(k):
                                b.emit(t)
                        if place == "initialiser":
                            b.s("let r%d: %s = %s" % (k, rt, c))
                            tr()
                            b.pr("r%d" % k, v)
                        elif place == "println-argument":
                            b.s("(println %s)" % c)
                            tr()
                            b.emit(_show(v))
                        elif place == "call-argument":
                            b.s("(println (%s_id %s))" % (name, c))
                            tr()
                            b.emit(_show(v))
                        elif place == "operand":
                            if rt == "int":
                                b.s("(println (+ 1000 %s))" % c)
                                tr()
                                b.emit(str(1000 + v))
                            elif rt == "string":
                                b.s('(println (+ "[" (+ %s "]")))' % c)
                                tr()
                                b.emit("[" + v + "]")
                            else:
                                b.s("(println (not %s))" % c)
                                tr()
                                b.emit(_show(not v))
                        elif place == "return-value":
                            b.s("(println (%s_r k%d))" % (name, k))
                            tr()
                            b.emit(_show(v))
                        elif place == "set-value":
                            b.s("set r %s" % c)
                            tr()
                            b.pr("r", v)
                        elif place == "nested-in-value":
                            # the value of the first clause and the else value are conds themselves (over a second selector)
                            for j in (0, nclauses):
                                inner = cnd("%d" % j)
                                outer = "(cond ((== k%d 0) %s) ((== k%d 1) %s) (else %s))" % (k, inner, k, _lit(vs[-1]), inner)
                                b.s("let n%d%d: %s = %s" % (k, j, rt, outer))
                                if k != 1:
                                    for t in trace(j):
                                        b.emit(t)
                                b.pr("n%d%d" % (k, j), vs[-1] if k == 1 else val(j))
                        elif place == "nested-in-condition":
                            # the condition of the first clause is a bool cond
                            bc = "(cond ((== k%d 0) true) ((== k%d 1) false) (else (> k%d 2)))" % (k, k, k)
                            first = k == 0 or k > 2
                            b.s("let m%d: %s = (cond (%s %s) (else %s))" % (k, rt, bc, _lit(vs[0]), c))
                            if not first:
                                tr()
                            b.pr("m%d" % k, vs[0] if first else v)
                        else:
                            b.s('if %s { (println "yes %d") } else { (println "no %d") }' % (c, k, k))
                            tr()
                            b.emit(("yes %d" if v else "no %d") % k)
                    yield b.unit(name, decls, "cond expression of type %s with %d clauses + else, %s conditions, as %s; every clause taken once" % (
                        rt, nclauses, "printing" if noisy else "plain", place), ret=nclauses)


def units(tier):
    for u in itertools.chain(enum_units(tier), fv_units(tier), mx_units(tier), ac_units(tier), sv_units(tier), un_units(tier), cd_units(tier)):
        yield u
