"""Shared machinery of the daemon checks (C17, C18): building the scheduler harness vmd_mc against a tree,
compiling the client corpus, running one explorer job, private real daemons, raw protocol clients."""
import glob
import os
import re
import signal
import socket
import struct
import subprocess
import time

from . import common

MC_SRC = os.path.join(common.VERIF, "vf/probes/vmd_mc.c")
WRAP = ["-Wl,--wrap=read", "-Wl,--wrap=write", "-Wl,--wrap=close", "-Wl,--wrap=pthread_mutex_lock",
        "-Wl,--wrap=pthread_mutex_unlock", "-Wl,--wrap=malloc", "-Wl,--wrap=calloc", "-lpthread"]

MSG = {"LOAD_EXEC": 1, "PING": 2, "STATUS": 3, "SHUTDOWN": 4, "OUTPUT": 0x10, "EXIT": 0x11, "ERROR": 0x12, "PONG": 0x13, "STATUS_RSP": 0x14}
VMD_MAX_PAYLOAD = 100 * 1024 * 1024


def build_mc(tree):
    return tree.build_probe(MC_SRC, "vmd_mc", extra_objs=[os.path.join(tree.root, "obj/nanovm/vmd_protocol.o")], extra_flags=WRAP)


def compile_corpus(tree, work, extra_sources=()):
    """-> {name: path.nvm} for vf/corpus_vmd/*.nano (+ extra)"""
    os.makedirs(work, exist_ok=True)
    out = {}
    for src in sorted(glob.glob(os.path.join(common.VERIF, "vf/corpus_vmd/*.nano"))) + list(extra_sources):
        name = os.path.basename(src)[:-5]
        nvm = os.path.join(work, name + ".nvm")
        rc, o, e = common.run([tree.exe("nano_virt"), src, "--emit-nvm", "-o", nvm], timeout=120, cwd=tree.root)
        if rc != 0 or not os.path.exists(nvm):
            raise common.HarnessError("corpus module %s does not compile: %s" % (name, (o + e)[-800:].decode(errors="replace")))
        out[name] = nvm
    return out


STAT = re.compile(r"^STAT executions=(\d+) violations=(\d+) max_points=(\d+) distinct_traces=(\d+) distinct_outcomes=(\d+) bound=(\d+) capped=(\d+) threads=(\d+)")


def run_mc(args):
    """one explorer job: (mc_exe, bound, maxexec, specs[list of 'file[:beh]'], env_extra, timeout) -> dict"""
    mc, bound, maxexec, specs, envx, timeout = args
    t0 = time.time()
    rc, o, e = common.run([mc, str(bound), str(maxexec)] + list(specs), timeout=timeout, envx=envx)
    text = o.decode(errors="replace")
    res = {"specs": specs, "bound": bound, "rc": rc, "viol": [], "harness": [], "solo": {}, "stat": None, "wall": time.time() - t0,
           "stderr": e.decode(errors="replace")[-3000:]}
    for l in text.splitlines():
        if l.startswith("VIOL "):
            res["viol"].append(l)
        elif l.startswith("HARNESS "):
            res["harness"].append(l)
        elif l.startswith("SOLO "):
            p = l.split(" ", 3)
            res["solo"][int(p[1])] = p[3].strip() if len(p) > 3 else ""
        else:
            m = STAT.match(l)
            if m:
                res["stat"] = dict(zip(("executions", "violations", "max_points", "distinct_traces", "distinct_outcomes", "bound", "capped", "threads"), map(int, m.groups())))
    return res


def decode_frames(hexs):
    """reply byte stream -> (stdout bytes, [error texts], exit code or None, well_formed)"""
    b = bytes.fromhex(hexs)
    out, errs, code, pos = b"", [], None, 0
    while pos + 8 <= len(b):
        ver, typ, _fl, ln = struct.unpack_from("<BBHI", b, pos)
        pos += 8
        pl = b[pos:pos + ln]
        if len(pl) < ln:
            return out, errs, code, False
        pos += ln
        if typ == MSG["OUTPUT"]:
            out += pl
        elif typ == MSG["ERROR"]:
            errs.append(pl.decode(errors="replace"))
        elif typ == MSG["EXIT"] and ln == 4:
            code = struct.unpack("<i", pl)[0]
    return out, errs, code, pos == len(b)


# ------------------------------------------------------------------------------- real daemon
class Daemon:
    """A private nano_vmd (own socket / pid file through hook H2), foreground, stderr captured."""

    def __init__(self, tree, workdir, tag="d", extra_env=None, args=("--foreground", "--no-timeout")):
        self.tree = tree
        self.dir = workdir
        os.makedirs(workdir, exist_ok=True)
        self.sock = os.path.join(workdir, tag + ".sock")
        self.pidfile = os.path.join(workdir, tag + ".pid")
        self.errpath = os.path.join(workdir, tag + ".stderr")
        if len(self.sock) > 100:
            raise common.HarnessError("socket path too long: " + self.sock)
        for p in (self.sock, self.pidfile):
            if os.path.exists(p):
                os.unlink(p)
        self.envx = {"NANOLANG_VMD_SOCKET": self.sock, "NANOLANG_VMD_PIDFILE": self.pidfile,
                     "PATH": tree.bin + ":" + common.CLEAN_ENV["PATH"]}
        if extra_env:
            self.envx.update(extra_env)
        self.errf = open(self.errpath, "wb")
        self.p = subprocess.Popen([tree.exe("nano_vmd")] + list(args), stdin=subprocess.DEVNULL, stdout=subprocess.DEVNULL,
                                  stderr=self.errf, env=common.env(self.envx), cwd=workdir, start_new_session=True)
        t0 = time.time()
        while not os.path.exists(self.sock):
            if self.p.poll() is not None:
                raise common.HarnessError("daemon exited at start: rc=%s %s" % (self.p.returncode, open(self.errpath, "rb").read()[-500:]))
            if time.time() - t0 > 30:
                raise common.HarnessError("daemon did not create its socket")
            time.sleep(0.01)

    def alive(self):
        return self.p.poll() is None

    def connect(self, timeout=5.0):
        s = socket.socket(socket.AF_UNIX, socket.SOCK_STREAM)
        s.settimeout(timeout)
        s.connect(self.sock)
        return s

    def stderr_text(self):
        if not self.errf.closed:
            self.errf.flush()
        return open(self.errpath, "rb").read().decode(errors="replace")

    def stop(self):
        if self.p.poll() is None:
            try:
                os.killpg(self.p.pid, signal.SIGTERM)
            except ProcessLookupError:
                pass
            try:
                self.p.wait(timeout=10)
            except subprocess.TimeoutExpired:
                os.killpg(self.p.pid, signal.SIGKILL)
                self.p.wait()
        self.errf.close()
        return self.p.returncode


def frame(typ, payload=b"", version=1, length=None):
    return struct.pack("<BBHI", version, typ, 0, len(payload) if length is None else length) + payload


def recv_all(s, limit=1 << 24):
    """read until the peer closes (or timeout); -> bytes, closed_cleanly"""
    buf = b""
    try:
        while len(buf) < limit:
            d = s.recv(65536)
            if not d:
                return buf, True
            buf += d
    except socket.timeout:
        return buf, False
    except ConnectionResetError:
        return buf, True
    return buf, False


def transact(daemon, request, timeout=5.0):
    """send request bytes, read the whole reply until the server closes -> (stdout, errs, code, wellformed, closed)"""
    s = daemon.connect(timeout)
    try:
        s.sendall(request)
        data, closed = recv_all(s)
    finally:
        s.close()
    o, e, c, wf = decode_frames(data.hex())
    return o, e, c, wf, closed
