"""X-layer family `sc`: the NAME-RESOLUTION MATRIX.

Every unit is first written as a tiny AST (tuples, see below), then (a) rendered as NanoLang text and (b) executed by
the boring lexical-scoping interpreter of this file (`_Model`): a chain of dictionaries, one per block / loop iteration /
function activation, function values closing over the scope they were defined in.  The expected text is what (b) prints.
Nothing here is copied from an engine.

Sub-families (the part of the unit name before the first `_` after `sc`):
  scm   the matrix proper: (outer binding kind) x (inner binding kind) of ONE identifier, with reads / writes before,
        inside (before and after the inner binding appears) and after the inner scope, over int / string / bool
  scr   the same programs with an additional *reader function* of the top-level binding called from inside the inner
        scope (lexical scoping: the reader sees the top-level binding).  The evaluator resolves free variables
        dynamically (known, recorded) -> engines = (vm, native)
  scg   a function-level local with the name of a top-level binding (SPECIFICATION 8.1): reads before / after the
        local's `let`, other functions keep seeing the top-level binding; with a reader called while the local is
        alive -> engines = (vm, native), same known evaluator behaviour
  scc   closures: a variable captured 1, 2, 3 function levels out, the intermediate functions capturing / not
        capturing something themselves (vm + eval: nested functions do not compile natively)
  scf   a local shadowing a function name (int local, function-typed local), callers elsewhere unaffected
  sct   two functions with locals of the same name (calls interleaved with writes; recursion: one binding per activation)
  scs   the same name in sibling blocks with different types

What is deliberately NOT enumerated (outside the specified domain, or known engine limits - see the task notes):
  * a bare `{ ... }` block: the parser of every engine rejects it as a statement; `unsafe { ... }` is the only
    free-standing block the language has, so it stands for "bare nested block";
  * `let x` at function level when `x` is a parameter of the same function (same scope, not an inner scope);
  * writing to a `for` variable; writing to a captured variable from the nested function or after the nested function
    has been defined (capture by value or by reference is not specified: the VM copies, the evaluator shares);
  * nested functions on the native engine (do not compile: known);
  * a function-typed local holding ANOTHER function than the one it is named after, while a third function calls
    the shadowed function by name: on the evaluator that is the same known dynamic resolution (the callee finds the
    caller's local) -> those scf units are (vm, native).

Genuine defects this family isolated when it was written (units kept; repairs /var/tmp/fix-X-sc-<n>.diff,
reproducers /var/tmp/repro-X-sc-<n>.nano):
  1 VM: a `let` in an unsafe block (and a match-arm binding) stays visible after the block / arm
  2 type checker: the range bounds of a `for` are checked with the loop variable already in scope
  3 native: `for x in (range x (+ x 2))` initialises the C loop variable from itself (garbage start, endless loop)
  4 native + type checker: later passes look names up by source position without regard to where a scope ENDS
    (after an inner scope that re-declares a name with another type the outer variable gets the inner type);
    a parameter of a nested function does not hide an outer variable of the same name
  5 native: a local / parameter named like a function is emitted as the function and calls through it go to the
    function; a function-typed local inside an unsafe block / match arm has no C type
  6 native: str_length is C's unsigned strlen: `(< i (str_length s))`, `for i in (range 0 (str_length s))` do not compile
"""
import itertools

I64 = 1 << 64


def _wrap(v):
    v &= I64 - 1
    return v - I64 if v >= I64 >> 1 else v


# ------------------------------------------------------------------------------------------ the tiny language
# expressions:  ("i", 5) ("s", "ab") ("b", True) ("v", name) ("+", a, b) ("not", a) ("==", a, b) ("<", a, b)
#               ("its", a) = int_to_string, ("len", a) = str_length, ("call", fname, [args]), ("fld", e, field),
#               ("mk", Union, Variant, [(field, e)])
# statements:   ("let", name, type, mut, e) ("set", name, e) ("p", e) ("for", name, lo, hi, body) ("if", c, then, else)
#               ("while", c, body) ("blk", body) ("match", e, [(Variant, binder, body)]) ("fn", name, params, ret, body)
#               ("ret", e) ("do", e)
# top level:    ("let", ...) ("fn", ...) ("union", Name, [(Variant, [(field, type)])])


class _Ret(Exception):
    def __init__(self, v):
        self.v = v


class _Scope(object):
    def __init__(self, parent):
        self.d = {}
        self.parent = parent

    def find(self, name):
        s = self
        while s is not None:
            if name in s.d:
                return s
            s = s.parent
        raise KeyError("model: unbound " + name)


class _Model(object):
    """lexical scoping, nothing else"""

    def __init__(self):
        self.out = []
        self.glob = _Scope(None)

    def show(self, v):
        if isinstance(v, bool):
            return "true" if v else "false"
        return "%s" % (v,)

    def ev(self, e, sc):
        k = e[0]
        if k in ("i", "s", "b"):
            return e[1]
        if k == "v":
            return sc.find(e[1]).d[e[1]][0]
        if k == "+":
            a, b = self.ev(e[1], sc), self.ev(e[2], sc)
            if isinstance(a, str):
                assert isinstance(b, str)
                return a + b
            assert not isinstance(a, bool) and not isinstance(b, bool)
            return _wrap(a + b)
        if k == "not":
            a = self.ev(e[1], sc)
            assert isinstance(a, bool)
            return not a
        if k == "==":
            return self.ev(e[1], sc) == self.ev(e[2], sc)
        if k == "<":
            return self.ev(e[1], sc) < self.ev(e[2], sc)
        if k == "its":
            return "%d" % self.ev(e[1], sc)
        if k == "len":
            return len(self.ev(e[1], sc))
        if k == "fld":
            return self.ev(e[1], sc)[e[2]]
        if k == "mk":
            d = {"_tag": e[2]}
            for f, x in e[3]:
                d[f] = self.ev(x, sc)
            return d
        if k == "call":
            fv = sc.find(e[1]).d[e[1]][0]
            assert isinstance(fv, tuple) and fv[0] == "closure", "model: calling a non-function"
            args = [self.ev(a, sc) for a in e[2]]
            act = _Scope(fv[3])                      # the scope the function was DEFINED in
            for (pn, _pt), a in zip(fv[1], args):
                act.d[pn] = [a, False]
            try:
                self.run(fv[2], _Scope(act))
            except _Ret as r:
                return r.v
            return None
        raise AssertionError("model: expression " + k)

    def run(self, stmts, sc):
        for s in stmts:
            k = s[0]
            if k == "let":
                v = self.ev(s[4], sc)                # the initialiser still sees the outer binding
                assert s[1] not in sc.d, "model: redefinition in one scope"
                sc.d[s[1]] = [v, s[3]]
            elif k == "set":
                v = self.ev(s[2], sc)
                cell = sc.find(s[1]).d[s[1]]
                assert cell[1], "model: write to immutable " + s[1]
                cell[0] = v
            elif k == "p":
                self.out.append(self.show(self.ev(s[1], sc)) + "\n")
            elif k == "do":
                self.ev(s[1], sc)
            elif k == "for":
                lo, hi = self.ev(s[2], sc), self.ev(s[3], sc)
                for i in range(lo, hi):
                    it = _Scope(sc)
                    it.d[s[1]] = [i, False]
                    self.run(s[4], _Scope(it))
            elif k == "if":
                self.run(s[2] if self.ev(s[1], sc) else s[3], _Scope(sc))
            elif k == "while":
                n = 0
                while self.ev(s[1], sc):
                    self.run(s[2], _Scope(sc))
                    n += 1
                    assert n < 1000
            elif k == "blk":
                self.run(s[1], _Scope(sc))
            elif k == "match":
                v = self.ev(s[1], sc)
                for variant, binder, body in s[2]:
                    if variant == v["_tag"]:
                        arm = _Scope(sc)
                        arm.d[binder] = [v, False]
                        self.run(body, _Scope(arm))
                        break
                else:
                    raise AssertionError("model: no arm")
            elif k == "fn":
                assert s[1] not in sc.d
                sc.d[s[1]] = [("closure", s[2], s[4], sc), False]
            elif k == "ret":
                raise _Ret(self.ev(s[1], sc))
            else:
                raise AssertionError("model: statement " + k)

    def program(self, top, body):
        for d in top:
            if d[0] == "union":
                continue
            self.run([d], self.glob)
        try:
            self.run(body, _Scope(_Scope(self.glob)))
        except _Ret as r:
            return "".join(self.out), r.v
        raise AssertionError("model: unit without return")


# ------------------------------------------------------------------------------------------ rendering
def _rx(e):
    k = e[0]
    if k == "i":
        return "%d" % e[1]
    if k == "s":
        return '"%s"' % e[1]
    if k == "b":
        return "true" if e[1] else "false"
    if k == "v":
        return e[1]
    if k in ("+", "==", "<"):
        return "(%s %s %s)" % (k, _rx(e[1]), _rx(e[2]))
    if k == "not":
        return "(not %s)" % _rx(e[1])
    if k == "its":
        return "(int_to_string %s)" % _rx(e[1])
    if k == "len":
        return "(str_length %s)" % _rx(e[1])
    if k == "fld":
        return "%s.%s" % (_rx(e[1]), e[2])
    if k == "mk":
        return "%s.%s { %s }" % (e[1], e[2], ", ".join("%s: %s" % (f, _rx(x)) for f, x in e[3]))
    if k == "call":
        return "(%s%s)" % (e[1], "".join(" " + _rx(a) for a in e[2]))
    raise AssertionError(k)


def _rs(stmts, ind):
    pad = "    " * ind
    o = []
    for s in stmts:
        k = s[0]
        if k == "let":
            o.append("%slet %s%s: %s = %s\n" % (pad, "mut " if s[3] else "", s[1], s[2], _rx(s[4])))
        elif k == "set":
            o.append("%sset %s %s\n" % (pad, s[1], _rx(s[2])))
        elif k == "p":
            o.append("%s(println %s)\n" % (pad, _rx(s[1])))
        elif k == "do":
            o.append("%s%s\n" % (pad, _rx(s[1])))
        elif k == "for":
            o.append("%sfor %s in (range %s %s) {\n%s%s}\n" % (pad, s[1], _rx(s[2]), _rx(s[3]), _rs(s[4], ind + 1), pad))
        elif k == "if":
            o.append("%sif %s {\n%s%s} else {\n%s%s}\n" % (pad, _rx(s[1]), _rs(s[2], ind + 1), pad, _rs(s[3], ind + 1), pad))
        elif k == "while":
            o.append("%swhile %s {\n%s%s}\n" % (pad, _rx(s[1]), _rs(s[2], ind + 1), pad))
        elif k == "blk":
            o.append("%sunsafe {\n%s%s}\n" % (pad, _rs(s[1], ind + 1), pad))
        elif k == "match":
            o.append("%smatch %s {\n" % (pad, _rx(s[1])))
            for variant, binder, body in s[2]:
                o.append("%s    %s(%s) => {\n%s%s    }\n" % (pad, variant, binder, _rs(body, ind + 2), pad))
            o.append("%s}\n" % pad)
        elif k == "fn":
            o.append("%sfn %s(%s) -> %s {\n%s%s}\n" % (pad, s[1], ", ".join("%s: %s" % p for p in s[2]), s[3], _rs(s[4], ind + 1), pad))
            if ind == 0:
                o.append("shadow %s { assert true }\n" % s[1])
        elif k == "ret":
            o.append("%sreturn %s\n" % (pad, _rx(s[1])))
        elif k == "union":
            o.append("union %s { %s }\n" % (s[1], ", ".join("%s { %s }" % (vn, ", ".join("%s: %s" % f for f in fl)) for vn, fl in s[2])))
        else:
            raise AssertionError(k)
    return "".join(o)


def _has_nested_fn(stmts):
    for s in stmts:
        k = s[0]
        if k == "fn":
            return True
        kids = {"for": s[4:5], "if": s[2:4], "while": s[2:3], "blk": s[1:2]}.get(k, ())
        if k == "match":
            kids = [arm[2] for arm in s[2]]
        if any(_has_nested_fn(c) for c in kids):
            return True
    return False


def _unit(name, top, body, what, engines=None):
    out, ret = _Model().program(top, body)
    nested = _has_nested_fn(body) or any(d[0] == "fn" and _has_nested_fn(d[4]) for d in top)
    if engines is None:
        engines = ("vm", "eval") if nested else ("vm", "native", "eval")
    elif nested:
        engines = tuple(e for e in engines if e != "native")
    for d in top:
        assert d[1].lower().startswith(name), (name, d[1])
    u = {"name": name, "decls": _rs(top, 0), "body": _rs(body, 1), "expected": out, "ret": ret, "what": what}
    if tuple(engines) != ("vm", "native", "eval"):
        u["engines"] = tuple(engines)
        u["what"] += " [engines: %s]" % ",".join(engines)
    return u


# ------------------------------------------------------------------------------------------ values per type
OUT0 = {"int": ("i", 7), "string": ("s", "o"), "bool": ("b", True)}
IN0 = {"int": ("i", 20), "string": ("s", "n"), "bool": ("b", False)}


def _bump(t, x):
    """the write used everywhere: x+1, x+"!", not x"""
    return {"int": ("+", x, ("i", 1)), "string": ("+", x, ("s", "!")), "bool": ("not", x)}[t]


def _derive(to, ti, x):
    """an inner initialiser of type ti computed from the OUTER binding x of type to"""
    if to == ti:
        return {"int": ("+", x, ("i", 100)), "string": ("+", x, ("s", "+")), "bool": ("not", x)}[ti]
    if to == "int" and ti == "string":
        return ("its", x)
    if to == "string" and ti == "int":
        return ("len", x)
    if to == "bool" and ti == "int":
        return ("len", ("s", "abc"))            # no conversion from bool: constant
    if to == "bool" and ti == "string":
        return ("+", ("s", "b"), ("s", "b"))
    if ti == "bool":
        return ("==", x, x)
    raise AssertionError((to, ti))


OUTERS = ("const", "gmut", "param", "let", "letmut")
INNERS = ("for", "iflet", "elselet", "whilemut", "blk", "arm", "callee", "nparam", "nlocal")
OUTER_WHAT = {"const": "top-level constant", "gmut": "top-level mutable", "param": "function parameter", "let": "function-level let",
              "letmut": "function-level let mut"}
INNER_WHAT = {"for": "for-loop variable", "iflet": "let in an if-branch", "elselet": "let in an else-branch", "whilemut": "let mut in a while body",
              "blk": "let in a bare (unsafe) block", "arm": "match-arm binding", "callee": "parameter of a called function",
              "nparam": "parameter of a nested function", "nlocal": "local of a nested function"}


def _matrix_unit(name, outer, inner, to, ti, derive, wbefore, wafter, reader):
    """one cell of the matrix.  X = the identifier.  Returns None when the combination does not exist
    (e.g. writes to an immutable outer binding)."""
    X = name + "_x"
    xv = ("v", X)
    omut = outer in ("gmut", "letmut")
    if (wbefore or wafter) and not omut:
        return None
    if reader and outer not in ("const", "gmut"):
        return None
    if inner == "for" and ti != "int":
        return None
    top = []
    pre = []            # statements of the function that owns the outer binding, before the probe
    if outer in ("const", "gmut"):
        top.append(("let", X, to, omut, OUT0[to]))
    elif outer in ("let", "letmut"):
        pre.append(("let", X, to, omut, OUT0[to]))
    rd = []
    if reader:
        top.append(("fn", name + "_rd", [], to, [("ret", xv)]))
        rd = [("p", ("call", name + "_rd", []))]
        if omut:
            top.append(("fn", name + "_wr", [], "int", [("set", X, _bump(to, xv)), ("ret", ("i", 0))]))
            rd = rd + [("do", ("call", name + "_wr", [])), ("p", ("call", name + "_rd", []))]
    init = _derive(to, ti, xv) if derive else IN0[ti]
    b = [("p", xv)]
    if wbefore:
        b += [("set", X, _bump(to, xv)), ("p", xv)]
    # ---- the inner scope
    head = [("p", xv)] + ([("set", X, _bump(to, xv)), ("p", xv)] if wbefore else [])     # inside the block, before the inner let: still the outer one
    if inner == "for":
        lo = init
        b.append(("for", X, lo, ("+", lo, ("i", 2)), [("p", xv)] + rd + [("p", ("+", xv, ("i", 1)))]))
    elif inner in ("iflet", "elselet"):
        blk = head + [("let", X, ti, False, init), ("p", xv)] + rd + [("p", _bump(ti, xv))]
        other = [("p", ("s", "other"))]
        b.append(("if", ("b", inner == "iflet"), blk if inner == "iflet" else other, other if inner == "iflet" else blk))
    elif inner == "whilemut":
        c = name + "_c"
        b.append(("let", c, "int", True, ("i", 0)))
        b.append(("while", ("<", ("v", c), ("i", 2)),
                  head + [("let", X, ti, True, init), ("p", xv), ("set", X, _bump(ti, xv)), ("p", xv)] + rd + [("set", c, ("+", ("v", c), ("i", 1)))]))
    elif inner == "blk":
        b.append(("blk", head + [("let", X, ti, False, init), ("p", xv)] + rd + [("p", _bump(ti, xv))]))
    elif inner == "arm":
        un = name.capitalize() + "u"
        top.append(("union", un, [("A", [("v", ti)]), ("B", [("w", "int")])]))
        m = name + "_m"
        b.append(("let", m, un, False, ("mk", un, "A", [("v", init)])))
        b.append(("match", ("v", m), [("A", X, [("p", ("fld", xv, "v"))] + rd + [("p", _bump(ti, ("fld", xv, "v")))]),
                                      ("B", X, [("p", ("fld", xv, "w"))])]))
    elif inner == "callee":
        top.append(("fn", name + "_g", [(X, ti)], "int", [("p", xv)] + rd + [("p", _bump(ti, xv)), ("ret", ("i", 1))]))
        b.append(("p", ("call", name + "_g", [init])))
    elif inner == "nparam":
        b.append(("fn", name + "_n", [(X, ti)], "int", [("p", xv)] + rd + [("p", _bump(ti, xv)), ("ret", ("i", 1))]))
        b.append(("p", ("call", name + "_n", [init])))
        b.append(("p", ("call", name + "_n", [IN0[ti]])))
    elif inner == "nlocal":
        # the nested function first reads the outer binding (a capture unless it is top-level), then binds its own
        b.append(("fn", name + "_n", [(name + "_q", "int")], "int",
                  [("p", xv), ("let", X, ti, False, init), ("p", xv)] + rd + [("p", _bump(ti, xv)), ("ret", ("v", name + "_q"))]))
        b.append(("p", ("call", name + "_n", [("i", 3)])))
        b.append(("p", ("call", name + "_n", [("i", 4)])))
    else:
        raise AssertionError(inner)
    # ---- after
    b.append(("p", xv))
    if wafter:
        b += [("set", X, _bump(to, xv)), ("p", xv)]
    b += rd
    what = "%s %s (%s) shadowed by %s (%s)%s%s%s%s" % (
        OUTER_WHAT[outer], X, to, INNER_WHAT[inner], ti, ", inner initialised from the outer one" if derive else "",
        ", outer written before and inside-before" if wbefore else "", ", outer written after" if wafter else "",
        ", a reader function of the top-level binding called inside and after" if reader else "")
    if outer == "param":
        top.append(("fn", name + "_f", [(X, to)], "int", pre + b + [("ret", ("i", 2))]))
        body = [("p", ("call", name + "_f", [OUT0[to]])), ("ret", ("i", 3))]
    elif outer in ("let", "letmut"):
        # the owner is a helper function too, so that the unit function itself stays trivial
        top.append(("fn", name + "_f", [(name + "_p", "int")], "int", pre + b + [("ret", ("v", name + "_p"))]))
        body = [("p", ("call", name + "_f", [("i", 5)])), ("ret", ("i", 3))]
    else:
        body = b + [("ret", ("i", 3))]
    eng = ("vm", "native") if reader else None
    return _unit(name, top, body, what, eng)


def _matrix(tier, reader):
    tag = "scr" if reader else "scm"
    if tier == "quick":
        # (to, ti, derive, wbefore, wafter)
        var = [("int", "int", False, False, False), ("int", "int", True, True, True), ("string", "string", True, False, False),
               ("int", "string", True, False, True), ("string", "int", False, True, False), ("bool", "bool", True, False, False)]
        # (the bool variant only for the parameter / let mut outer kinds, the else-branch only in the thorough tier)
        if reader:
            var = [("int", "int", False, False, False), ("string", "int", True, True, True)]
    else:
        types = [("int", "int"), ("string", "string"), ("int", "string"), ("string", "int"), ("bool", "bool"), ("bool", "int"), ("int", "bool")]
        var = [(to, ti, d, wb, wa) for (to, ti) in types for d in (False, True) for wb in (False, True) for wa in (False, True)]
    n = 0
    for outer in OUTERS:
        for inner in INNERS:
            for (to, ti, d, wb, wa) in var:
                omut = outer in ("gmut", "letmut")
                if tier == "quick" and not omut:
                    wb = wa = False                 # the quick variants differ in their write pattern only where a write exists
                if tier == "quick" and (inner == "elselet" or (to == "bool" and outer not in ("param", "letmut"))):
                    continue
                u = _matrix_unit("%s_%d" % (tag, n), outer, inner, to, ti, d, wb, wa, reader)
                if u is not None:
                    n += 1
                    yield u


# ------------------------------------------------------------------------------------------ top-level binding vs function-level local
def _global_local_units(tier):
    """SPECIFICATION 8.1: `let x = 1  fn f() { return x }  fn g() { let x = 2  return (f) }` -> g returns 1.
    The function-level local lives from its `let` to the end of the function; before it the top-level binding is read.
    Every unit with a call of the reader / writer of the top-level binding while the local is alive is exactly the shape
    the evaluator is known to get wrong (it resolves free variables dynamically) -> engines (vm, native)."""
    n = 0
    types = [("int", "int"), ("string", "string"), ("int", "string"), ("string", "int"), ("bool", "bool")]
    if tier != "quick":
        types += [("bool", "int"), ("int", "bool"), ("string", "bool"), ("bool", "string")]
    for gmut in (False, True):
        for lmut in (False, True):
            for to, ti in types:
                for derive in (False, True):
                    for reader in (False, True):
                        if tier == "quick" and (((to, ti) not in (("int", "int"), ("int", "string")) and (derive != reader))
                                                or to == "bool" or (gmut and not lmut)):
                            continue
                        name = "scg_%d" % n
                        n += 1
                        X = name + "_x"
                        xv = ("v", X)
                        top = [("let", X, to, gmut, OUT0[to]), ("fn", name + "_rd", [], to, [("ret", xv)])]
                        if gmut:
                            top.append(("fn", name + "_wr", [], "int", [("set", X, _bump(to, xv)), ("ret", ("i", 0))]))
                        b = [("p", xv), ("p", ("call", name + "_rd", []))]
                        if gmut:
                            b += [("set", X, _bump(to, xv)), ("p", xv), ("do", ("call", name + "_wr", [])), ("p", xv)]
                        b += [("let", X, ti, lmut, _derive(to, ti, xv) if derive else IN0[ti]), ("p", xv)]
                        if lmut:
                            b += [("set", X, _bump(ti, xv)), ("p", xv)]
                        if reader:
                            b += [("p", ("call", name + "_rd", []))]
                            if gmut:
                                b += [("do", ("call", name + "_wr", [])), ("p", ("call", name + "_rd", [])), ("p", xv)]
                        # a second function with no local of that name still sees the top-level binding
                        top.append(("fn", name + "_other", [], "int", [("p", xv), ("ret", ("i", 8))]))
                        body = b + [("ret", ("i", 4))]
                        tail = [("p", ("call", name + "_other", []))]
                        top.append(("fn", name + "_f", [], "int", body))
                        yield _unit(name, top, [("p", ("call", name + "_f", []))] + tail + [("ret", ("i", 5))],
                                    "top-level %s%s %s, function-level local %s%s of the same name%s%s" % (
                                        "mut " if gmut else "", to, X, "mut " if lmut else "", ti, ", initialised from the top-level one" if derive else "",
                                        "; reader/writer of the top-level binding called while the local is alive (evaluator: known dynamic resolution)" if reader else ""),
                                    ("vm", "native") if reader else None)


# ------------------------------------------------------------------------------------------ closures
def _closure_units(tier):
    """f0 (the unit's helper) defines f1 defines f2 defines f3; the innermost function reads a variable that lives
    `dist` levels out; every intermediate function either captures something itself (reads a variable of an outer
    function) or not; variable kinds: parameter / let / let mut (written before the nested definition only)."""
    n = 0
    kinds = ("param", "let", "letmut")
    types = ("int", "string") if tier == "quick" else ("int", "string", "bool")
    for depth in (1, 2, 3):
        for dist in range(1, depth + 1):
            for mids in itertools.product((False, True), repeat=depth - 1):
                for kind in kinds:
                    for t in types:
                        if tier == "quick" and t != "int" and kind != "let" and depth > 1:
                            continue
                        if tier == "quick" and depth == 3 and (kind == "letmut" or t != "int") and mids != (True, True):
                            continue
                        name = "scc_%d" % n
                        n += 1
                        # level L function is name_fL; the captured variable V lives in level (depth - dist)
                        home = depth - dist
                        V = name + "_v"

                        def level(L):
                            pn = name + "_p%d" % L
                            params = [(pn, "int")]
                            st = []
                            if L == home:
                                if kind == "param":
                                    params.append((V, t))
                                elif kind == "let":
                                    st.append(("let", V, t, False, OUT0[t]))
                                else:
                                    st.append(("let", V, t, True, OUT0[t]))
                                    st.append(("set", V, _bump(t, ("v", V))))
                            st.append(("let", name + "_l%d" % L, "int", False, ("+", ("v", pn), ("i", 10 * (L + 1)))))
                            if 0 < L < depth and mids[L - 1]:
                                # intermediate function captures the local of its parent
                                st.append(("p", ("+", ("v", name + "_l%d" % (L - 1)), ("i", 1000))))
                            if L == depth:
                                st.append(("p", ("v", V)))
                                st.append(("p", _bump(t, ("v", V))))
                                st.append(("p", ("v", pn)))
                                st.append(("ret", ("+", ("v", pn), ("i", 1))))
                            else:
                                st.append(level(L + 1))
                                args = [("+", ("v", pn), ("i", 1))]
                                if L + 1 == home and kind == "param":
                                    args.append(OUT0[t])
                                st.append(("p", ("call", name + "_f%d" % (L + 1), args)))
                                # a second call: the capture must still be intact
                                args2 = [("+", ("v", pn), ("i", 5))] + args[1:]
                                st.append(("p", ("call", name + "_f%d" % (L + 1), args2)))
                                if L >= home:
                                    st.append(("p", ("v", V)))
                                st.append(("ret", ("v", name + "_l%d" % L)))
                            return ("fn", name + "_f%d" % L, params, "int", st)

                        top = [level(0)]
                        args = [("i", 1)] + ([OUT0[t]] if home == 0 and kind == "param" else [])
                        body = [("p", ("call", name + "_f0", args)), ("ret", ("i", depth))]
                        yield _unit(name, top, body, "closure: %s %s read %d function level(s) out of a depth-%d nest, intermediates capture: %s" % (
                            kind, t, dist, depth, ",".join("yes" if m else "no" for m in mids) or "-"))


# ------------------------------------------------------------------------------------------ function names shadowed by locals
def _fname_units(tier):
    n = 0
    for where in ("fnlevel", "if", "blk", "while", "for", "arm"):
        for kind in ("int", "string", "fnvalue", "fnvalue-self"):
            for call_before in (False, True):
                if tier == "quick" and where != "fnlevel" and not call_before:
                    continue
                # `via`: another function that calls the shadowed function while the shadowing local is alive.  For a
                # function-valued local holding ANOTHER function this is the evaluator's known dynamic resolution of
                # free names (the callee finds the caller's local) -> that variant is vm + native only.
                for via in ((False, True) if kind == "fnvalue" else (True,)):
                    name = "scf_%d" % n
                    n += 1
                    H, H2 = name + "_h", name + "_k"
                    top = [("fn", H, [], "int", [("p", ("s", "h")), ("ret", ("i", 3))]),
                           ("fn", H2, [], "int", [("p", ("s", "k")), ("ret", ("i", 4))]),
                           ("fn", name + "_via", [], "int", [("ret", ("+", ("call", H, []), ("i", 100)))])]
                    inner = []
                    if call_before:
                        inner.append(("p", ("call", H, [])))
                    if kind == "int":
                        inner += [("let", H, "int", False, ("i", 50)), ("p", ("v", H)), ("p", ("+", ("v", H), ("i", 1)))]
                    elif kind == "string":
                        inner += [("let", H, "string", False, ("s", "loc")), ("p", ("v", H)), ("p", ("+", ("v", H), ("s", "!")))]
                    elif kind == "fnvalue":
                        # a function-typed local named like function h but holding function k: the call goes to k
                        inner += [("let", H, "fn() -> int", False, ("v", H2)), ("p", ("call", H, []))]
                    else:
                        # ... holding h itself (the initialiser is resolved before the new binding exists)
                        inner += [("let", H, "fn() -> int", False, ("v", H)), ("p", ("call", H, []))]
                    if via:
                        inner.append(("p", ("call", name + "_via", [])))      # another function still reaches the function
                    if where == "fnlevel":
                        st = inner
                        after = []
                    else:
                        after = [("p", ("call", H, [])), ("p", ("call", name + "_via", []))]      # the function name is visible again
                        if where == "if":
                            st = [("if", ("b", True), inner, [])]
                        elif where == "blk":
                            st = [("blk", inner)]
                        elif where == "while":
                            c = name + "_c"
                            st = [("let", c, "int", True, ("i", 0)), ("while", ("<", ("v", c), ("i", 2)), inner + [("set", c, ("+", ("v", c), ("i", 1)))])]
                        elif where == "for":
                            st = [("for", name + "_i", ("i", 0), ("i", 2), inner)]
                        else:
                            un = name.capitalize() + "u"
                            top.append(("union", un, [("A", [("v", "int")]), ("B", [("w", "int")])]))
                            st = [("let", name + "_m", un, False, ("mk", un, "A", [("v", ("i", 1))])),
                                  ("match", ("v", name + "_m"), [("A", name + "_a", inner), ("B", name + "_b", [("p", ("s", "no"))])])]
                    body = st + after + [("ret", ("i", 6))]
                    eng = ("vm", "native") if (kind == "fnvalue" and via) else None
                    yield _unit(name, top, body, "function name shadowed by a %s local %s, %s the function first; %s" % (
                        kind, {"fnlevel": "at function level", "if": "in an if-branch", "blk": "in a bare (unsafe) block", "while": "in a while body",
                               "for": "in a for body", "arm": "in a match arm"}[where], "calling" if call_before else "not calling",
                        "another function calls it meanwhile" + (" (evaluator: known dynamic resolution of free names)" if eng else "") if via
                        else "no call through another function meanwhile"), eng)
    # a parameter named like a function
    for kind in ("int", "string", "fnvalue"):
        name = "scf_%d" % n
        n += 1
        H, H2 = name + "_h", name + "_k"
        top = [("fn", H, [], "int", [("p", ("s", "h")), ("ret", ("i", 3))]),
               ("fn", H2, [], "int", [("p", ("s", "k")), ("ret", ("i", 4))])]
        if kind == "fnvalue":
            top.append(("fn", name + "_g", [(H, "fn() -> int")], "int", [("ret", ("+", ("call", H, []), ("i", 10)))]))
            arg = ("v", H2)
        else:
            top.append(("fn", name + "_g", [(H, kind)], "int", [("p", ("v", H)), ("p", _bump(kind, ("v", H))), ("ret", ("i", 10))]))
            arg = IN0[kind]
        body = [("p", ("call", H, [])), ("p", ("call", name + "_g", [arg])), ("p", ("call", H, [])), ("ret", ("i", 7))]
        yield _unit(name, top, body, "parameter (%s) named like a function; the function is called before and after" % kind)


# ------------------------------------------------------------------------------------------ two functions, same local name
def _twofn_units(tier):
    n = 0
    types = ("int", "string", "bool")
    for ta in types:
        for tb in types:
            for mut_a in (False, True):
                for mut_b in (False, True):
                    if tier == "quick" and ((ta != tb and (mut_a != mut_b)) or "bool" in (ta, tb)):
                        continue
                    name = "sct_%d" % n
                    n += 1
                    X = name + "_x"
                    xv = ("v", X)
                    gb = [("let", X, tb, mut_b, IN0[tb]), ("p", xv)]
                    if mut_b:
                        gb += [("set", X, _bump(tb, xv)), ("p", xv)]
                    gb.append(("ret", ("i", 1)))
                    fa = [("let", X, ta, mut_a, OUT0[ta]), ("p", xv), ("p", ("call", name + "_g", [])), ("p", xv)]
                    if mut_a:
                        fa += [("set", X, _bump(ta, xv)), ("p", ("call", name + "_g", [])), ("p", xv)]
                    fa.append(("ret", ("i", 2)))
                    top = [("fn", name + "_g", [], "int", gb), ("fn", name + "_f", [], "int", fa)]
                    body = [("p", ("call", name + "_f", [])), ("p", ("call", name + "_g", [])), ("ret", ("i", 0))]
                    yield _unit(name, top, body, "two functions with a local %s: caller %s%s, callee %s%s; calls interleaved with writes" % (
                        X, "mut " if mut_a else "", ta, "mut " if mut_b else "", tb))
    # recursion: one binding per activation
    for t in types:
        for depth in ((2, 4) if tier == "quick" else (1, 2, 3, 4, 6)):
            name = "sct_%d" % n
            n += 1
            X = name + "_x"
            xv = ("v", X)
            N = name + "_n"
            init = {"int": ("+", ("v", N), ("i", 100)), "string": ("its", ("v", N)), "bool": ("==", ("v", N), ("i", 2))}[t]
            rec = [("let", X, t, True, init), ("p", xv),
                   ("if", ("<", ("i", 0), ("v", N)), [("p", ("call", name + "_r", [("+", ("v", N), ("i", -1))]))], []),
                   ("p", xv), ("set", X, _bump(t, xv)), ("p", xv), ("ret", ("v", N))]
            top = [("fn", name + "_r", [(N, "int")], "int", rec)]
            body = [("p", ("call", name + "_r", [("i", depth)])), ("ret", ("i", depth))]
            yield _unit(name, top, body, "recursion depth %d: every activation has its own mutable local (%s), read and written after the inner call returns" % (depth, t))


# ------------------------------------------------------------------------------------------ sibling blocks, different types
def _sibling_units(tier):
    n = 0
    blocks = ("if", "else", "blk", "while", "for", "arm")
    types = ("int", "string", "bool")
    pairs = [(a, b) for a in blocks for b in blocks]
    for ba, bb in pairs:
        for ta, tb in ((("int", "string"), ("string", "int")) if tier == "quick" else [(x, y) for x in types for y in types if x != y]):
            if tier == "quick" and (((ta, tb) == ("string", "int") and ba != bb) or blocks.index(ba) > blocks.index(bb)):
                continue
            name = "scs_%d" % n
            n += 1
            X = name + "_x"
            xv = ("v", X)
            top = []
            body = []

            def block(kind, t, idx):
                use = [("let", X, t, True, IN0[t]), ("p", xv), ("set", X, _bump(t, xv)), ("p", xv)]
                if kind == "if":
                    return [("if", ("b", True), use, [])]
                if kind == "else":
                    return [("if", ("b", False), [], use)]
                if kind == "blk":
                    return [("blk", use)]
                if kind == "while":
                    c = name + "_c%d" % idx
                    return [("let", c, "int", True, ("i", 0)), ("while", ("<", ("v", c), ("i", 2)), use + [("set", c, ("+", ("v", c), ("i", 1)))])]
                if kind == "for":
                    return [("for", name + "_i%d" % idx, ("i", 0), ("i", 2), use)]
                un = name.capitalize() + "u"
                if not top:
                    top.append(("union", un, [("A", [("v", "int")]), ("B", [("w", "int")])]))
                m = name + "_m%d" % idx
                return [("let", m, un, False, ("mk", un, "AB"[idx], [("vw"[idx], ("i", idx))])),
                        ("match", ("v", m), [("A", name + "_a", use if idx == 0 else [("p", ("s", "no"))]),
                                             ("B", name + "_b", use if idx == 1 else [("p", ("s", "no"))])])]
            body += block(ba, ta, 0)
            body += block(bb, tb, 1)
            body.append(("ret", ("i", 9)))
            yield _unit(name, top, body, "sibling blocks [%s] then [%s] each with its own mutable %s: %s in the first, %s in the second" % (ba, bb, X, ta, tb))
    # the two branches of ONE if / the two arms of ONE match
    for ta, tb in [(x, y) for x in types for y in types if x != y]:
        if tier == "quick" and (ta, tb) not in (("int", "string"), ("string", "int"), ("int", "bool")):
            continue
        for taken in (True, False):
            name = "scs_%d" % n
            n += 1
            X = name + "_x"
            xv = ("v", X)
            ua = [("let", X, ta, True, IN0[ta]), ("p", xv), ("set", X, _bump(ta, xv)), ("p", xv)]
            ub = [("let", X, tb, True, IN0[tb]), ("p", xv), ("set", X, _bump(tb, xv)), ("p", xv)]
            yield _unit(name, [], [("if", ("b", taken), ua, ub), ("ret", ("i", 1))],
                        "the two branches of one if bind %s as %s / %s; the %s branch runs" % (X, ta, tb, "first" if taken else "second"))
            name = "scs_%d" % n
            n += 1
            X = name + "_x"
            xv = ("v", X)
            ua = [("let", X, ta, True, IN0[ta]), ("p", xv), ("set", X, _bump(ta, xv)), ("p", xv)]
            ub = [("let", X, tb, True, IN0[tb]), ("p", xv), ("set", X, _bump(tb, xv)), ("p", xv)]
            un = name.capitalize() + "u"
            top = [("union", un, [("A", [("v", "int")]), ("B", [("w", "int")])])]
            m = name + "_m"
            yield _unit(name, top, [("let", m, un, False, ("mk", un, "A" if taken else "B", [("v" if taken else "w", ("i", 1))])),
                                    ("match", ("v", m), [("A", name + "_a", ua), ("B", name + "_b", ub)]), ("ret", ("i", 1))],
                        "the two arms of one match bind %s as %s / %s; the %s arm runs" % (X, ta, tb, "first" if taken else "second"))


def units(tier):
    for u in itertools.chain(_matrix(tier, False), _matrix(tier, True), _global_local_units(tier), _closure_units(tier),
                             _fname_units(tier), _twofn_units(tier), _sibling_units(tier)):
        yield u
