"""NanoRef - reference model of the nanolang core language (DESIGN.md section 2.3).

Written from docs/SPECIFICATION.md sections 4-8 (and formal/Semantics.v for the arithmetic
corner cases), not from any engine:
  * strict left-to-right evaluation of operands and call arguments (4.9)
  * short-circuit and / or (8.5)
  * static scoping, block-scoped let, shadowing (8.1, 8.2)
  * immutable by default, parameters by value (5.1, 6.2)
  * for i in (range a b)  ==  the while desugaring of 5.4 (continue advances i)
  * 64-bit wrapping integers (3.1), / and % truncating; x/0, x%0 and INT64_MIN/-1 are
    *undefined partial operations* (the run leaves the domain: class 'div0')
  * enums are integers (3.4.2)

Programs are Python data (tuples); `Printer` renders them as nano source in prefix or infix
notation, `Interp` computes the observable trace (stdout text, exit status, termination
class).  Deviation switches reproduce, one at a time, *known* engine defects so that a
known finding is matched by cause, never by property (DESIGN 2.7).
"""
import sys

sys.setrecursionlimit(20000)

I64_MIN, I64_MAX = -2**63, 2**63 - 1
ARITH = ("+", "-", "*", "/", "%")
CMP = ("==", "!=", "<", "<=", ">", ">=")
LOGIC = ("and", "or")
BINOPS = ARITH + CMP + LOGIC


def wrap(v):
    v &= (1 << 64) - 1
    return v - (1 << 64) if v >> 63 else v


class Fault(Exception):
    """The run leaves the defined domain (class in .kind)."""

    def __init__(self, kind, msg=""):
        Exception.__init__(self, kind + ": " + msg)
        self.kind = kind


class _Break(Exception):
    pass


class _Continue(Exception):
    pass


class _Return(Exception):
    def __init__(self, v):
        self.v = v


# --------------------------------------------------------------------------- program model
class Program:
    def __init__(self):
        self.structs = {}     # name -> [(field, type)]
        self.enums = {}       # name -> [(variant, value)]
        self.unions = {}      # name -> [(variant, [(field, type)])]
        self.globals = []     # (name, type, expr, mutable)
        self.funcs = {}       # name -> (params [(n,t)], rettype, body [stmts])
        self.order = []       # top-level item order: ('struct',n) ('enum',n) ('union',n) ('global',i) ('fn',n)
        self.shadows = {}     # fn name -> [stmts]   (default: assert true)

    def add_struct(self, name, fields):
        self.structs[name] = fields; self.order.append(("struct", name))

    def add_enum(self, name, variants):
        self.enums[name] = variants; self.order.append(("enum", name))

    def add_union(self, name, variants):
        self.unions[name] = variants; self.order.append(("union", name))

    def add_global(self, name, typ, expr, mutable=False):
        self.globals.append((name, typ, expr, mutable)); self.order.append(("global", len(self.globals) - 1))

    def add_fn(self, name, params, ret, body, shadow=None):
        self.funcs[name] = (params, ret, body); self.order.append(("fn", name))
        if shadow is not None:
            self.shadows[name] = shadow


# --------------------------------------------------------------------------- printer
class Printer:
    """mode 'prefix': every operator fully parenthesised prefix form.
    mode 'infix': operators infix, left-assoc equal precedence, minimal parentheses:
      a right operand that is itself an operator expression is parenthesised, a left one is not."""

    def __init__(self, mode="prefix"):
        self.mode = mode

    def lit_int(self, v):
        return str(v)

    def expr(self, e, top=False):
        t = e[0]
        if t == "int":
            return self.lit_int(e[1])
        if t == "bool":
            return "true" if e[1] else "false"
        if t == "str":
            return '"%s"' % e[1]
        if t == "float":
            return repr(float(e[1]))
        if t == "var":
            return e[1]
        if t == "bin":
            if self.mode == "prefix":
                return "(%s %s %s)" % (e[1], self.expr(e[2]), self.expr(e[3]))
            txt = self.infix(e)
            if txt.startswith("-") or txt.startswith("not "):
                # '(' followed by an operator token is the prefix form by definition: a parenthesised infix
                # expression cannot begin with a unary operator, so this node is spelled in prefix form
                return "(%s %s %s)" % (e[1], self.expr(e[2]), self.expr(e[3]))
            return "(" + txt + ")"
        if t == "un":
            if self.mode == "prefix":
                return "(%s %s)" % (e[1], self.expr(e[2]))
            return "(%s %s)" % (e[1], self.expr(e[2]))   # '(- x)' / '(not x)' is the one unambiguous spelling inside parentheses
        if t == "call":
            return "(" + " ".join([e[1]] + [self.expr(a) for a in e[2]]) + ")"
        if t == "field":
            return "%s.%s" % (self.expr(e[1]), e[2])
        if t == "tupidx":
            return "%s.%d" % (self.expr(e[1]), e[2])
        if t == "structlit":
            return "%s { %s }" % (e[1], ", ".join("%s: %s" % (f, self.expr(x)) for f, x in e[2]))
        if t == "tuplelit":
            return "(" + ", ".join(self.expr(x) for x in e[1]) + ")"
        if t == "arrlit":
            return "[" + ", ".join(self.expr(x) for x in e[2]) + "]"
        if t == "enumval":
            return "%s.%s" % (e[1], e[2])
        if t == "unionlit":
            return "%s.%s { %s }" % (e[1], e[2], ", ".join("%s: %s" % (f, self.expr(x)) for f, x in e[3]))
        raise ValueError("expr " + repr(e))

    def infix(self, e):
        """a op b with a's own operator chain unparenthesised (left-assoc), b parenthesised if compound."""
        a, b = e[2], e[3]
        left = self.infix(a) if (a[0] == "bin") else self.infix_operand(a)
        right = self.infix_operand(b)
        return "%s %s %s" % (left, e[1], right)

    def infix_operand(self, x):
        if x[0] == "bin":
            return "(" + self.infix(x) + ")"
        if x[0] == "un":
            # unary binds to the operand that follows; operand rendered as a primary
            return "%s%s" % ("-" if x[1] == "-" else "not ", self.infix_operand(x[2]))
        return self.expr(x)

    def stmt_expr(self, e):
        """Expression in statement / initialiser position (no surrounding call parentheses)."""
        if self.mode == "infix" and e[0] == "bin":
            return self.infix(e)
        if self.mode == "infix" and e[0] == "un":
            return self.infix_operand(e)
        return self.expr(e)

    def block(self, stmts, ind):
        return "{\n" + "".join(self.stmt(s, ind + 1) for s in stmts) + "    " * ind + "}"

    def stmt(self, s, ind=1):
        p = "    " * ind
        t = s[0]
        if t == "let":
            return "%slet %s%s: %s = %s\n" % (p, "mut " if s[4] else "", s[1], s[2], self.stmt_expr(s[3]))
        if t == "set":
            return "%sset %s %s\n" % (p, s[1], self.expr(s[2]))
        if t == "if":
            out = "%sif %s %s" % (p, self.expr(s[1]), self.block(s[2], ind))
            if s[3] is not None:
                if len(s[3]) == 1 and s[3][0][0] == "if" and s[3][0][-1] == "elif":
                    out += " else " + self.stmt(s[3][0], ind).lstrip()
                    return out
                out += " else " + self.block(s[3], ind)
            return out + "\n"
        if t == "while":
            return "%swhile %s %s\n" % (p, self.expr(s[1]), self.block(s[2], ind))
        if t == "for":
            return "%sfor %s in (range %s %s) %s\n" % (p, s[1], self.expr(s[2]), self.expr(s[3]), self.block(s[4], ind))
        if t == "break":
            return p + "break\n"
        if t == "continue":
            return p + "continue\n"
        if t == "return":
            return "%sreturn %s\n" % (p, self.stmt_expr(s[1]))
        if t == "println":
            return "%s(println %s)\n" % (p, self.expr(s[1]))
        if t == "print":
            return "%s(print %s)\n" % (p, self.expr(s[1]))
        if t == "expr":
            return "%s%s\n" % (p, self.expr(s[1]))
        if t == "assert":
            return "%sassert %s\n" % (p, self.expr(s[1]))
        if t == "match":
            arms = "".join("%s    %s(%s) => %s\n" % (p, v, b, self.block(body, ind + 1)) for v, b, body in s[2])
            return "%smatch %s {\n%s%s}\n" % (p, self.expr(s[1]), arms, p)
        raise ValueError("stmt " + repr(s))

    def program(self, prog):
        out = []
        for kind, ref in prog.order:
            if kind == "struct":
                out.append("struct %s { %s }\n" % (ref, ", ".join("%s: %s" % ft for ft in prog.structs[ref])))
            elif kind == "enum":
                out.append("enum %s { %s }\n" % (ref, ", ".join("%s = %d" % vv for vv in prog.enums[ref])))
            elif kind == "union":
                out.append("union %s {\n%s\n}\n" % (ref, ",\n".join("    %s { %s }" % (v, ", ".join("%s: %s" % ft for ft in fs)) for v, fs in prog.unions[ref])))
            elif kind == "global":
                n, t, e, m = prog.globals[ref]
                out.append("let %s%s: %s = %s\n" % ("mut " if m else "", n, t, self.stmt_expr(e)))
            else:
                params, ret, body = prog.funcs[ref]
                out.append("fn %s(%s) -> %s %s\n" % (ref, ", ".join("%s: %s" % pt for pt in params), ret, self.block(body, 0)))
                sh = prog.shadows.get(ref, [("assert", ("bool", True))])
                out.append("shadow %s %s\n" % (ref, self.block(sh, 0)))
        return "".join(out)


# --------------------------------------------------------------------------- interpreter
class Interp:
    MAX_DEPTH = 900
    MAX_STEPS = 2000000

    def __init__(self, prog, deviations=()):
        self.p = prog
        self.dev = set(deviations)
        self.out = []
        self.globals = {}
        self.depth = 0
        self.steps = 0
        self.stack = []   # dynamic chain of local scope lists (only used by the 'dynamic_scope' deviation)

    # -- values: int, bool, str, float, list (array), ('struct', name, dict), ('tuple', [..]), ('union', uname, variant, dict), ('fn', name), ('enum', v)
    def show(self, v):
        if isinstance(v, bool):
            return "true" if v else "false"
        if isinstance(v, int):
            return str(v)
        if isinstance(v, str):
            return v
        if isinstance(v, tuple) and v[0] == "enum":
            return str(v[1])
        raise Fault("unprintable", repr(v))

    def tick(self):
        self.steps += 1
        if self.steps > self.MAX_STEPS:
            raise Fault("steps", "step budget")

    # -- scopes
    def lookup(self, env, name):
        for sc in reversed(env):
            if name in sc:
                return sc
        if "dynamic_scope" in self.dev:
            for caller_env in reversed(self.stack[:-1]):
                for sc in reversed(caller_env):
                    if name in sc:
                        return sc
        if name in self.globals:
            return self.globals
        return None

    def ev(self, e, env):
        self.tick()
        t = e[0]
        if t in ("int", "bool", "str", "float"):
            return e[1]
        if t == "var":
            sc = self.lookup(env, e[1])
            if sc is None:
                if e[1] in self.p.funcs:
                    return ("fn", e[1])
                raise Fault("unbound", e[1])
            return sc[e[1]][0]
        if t == "bin":
            op = e[1]
            if op == "and":
                a = self.ev(e[2], env)
                return self.ev(e[3], env) if a else False
            if op == "or":
                a = self.ev(e[2], env)
                return True if a else self.ev(e[3], env)
            a = self.ev(e[2], env)
            b = self.ev(e[3], env)
            return self.binop(op, a, b)
        if t == "un":
            a = self.ev(e[2], env)
            if e[1] == "-":
                return -a if isinstance(a, float) else wrap(-a)
            return not a
        if t == "call":
            return self.call(e[1], e[2], env)
        if t == "field":
            v = self.ev(e[1], env)
            if v[0] == "struct":
                return v[2][e[2]]
            if v[0] == "union":
                return v[3][e[2]]
            raise Fault("type", "field of " + repr(v))
        if t == "tupidx":
            return self.ev(e[1], env)[1][e[2]]
        if t == "structlit":
            return ("struct", e[1], dict((f, self.ev(x, env)) for f, x in e[2]))
        if t == "tuplelit":
            return ("tuple", [self.ev(x, env) for x in e[1]])
        if t == "arrlit":
            return [self.ev(x, env) for x in e[2]]
        if t == "enumval":
            return ("enum", dict(self.p.enums[e[1]])[e[2]])
        if t == "unionlit":
            return ("union", e[1], e[2], dict((f, self.ev(x, env)) for f, x in e[3]))
        raise Fault("expr", repr(e))

    def num(self, v):
        return v[1] if isinstance(v, tuple) and v[0] == "enum" else v

    def binop(self, op, a, b):
        if op in ("==", "!="):
            r = (self.num(a) == self.num(b))
            return r if op == "==" else not r
        a, b = self.num(a), self.num(b)
        if isinstance(a, str) and op == "+":
            return a + b
        if isinstance(a, float) or isinstance(b, float):
            if op == "+": return a + b
            if op == "-": return a - b
            if op == "*": return a * b
            if op == "/":
                if b == 0.0:
                    raise Fault("div0", "float")
                return a / b
            if op == "<": return a < b
            if op == "<=": return a <= b
            if op == ">": return a > b
            if op == ">=": return a >= b
            raise Fault("type", op)
        if op == "+": return wrap(a + b)
        if op == "-": return wrap(a - b)
        if op == "*": return wrap(a * b)
        if op in ("/", "%"):
            if b == 0:
                raise Fault("div0", "%d %s 0" % (a, op))
            if a == I64_MIN and b == -1:
                raise Fault("div0", "INT64_MIN %s -1" % op)
            q = abs(a) // abs(b)
            if (a < 0) != (b < 0):
                q = -q
            return q if op == "/" else a - q * b
        if op == "<": return a < b
        if op == "<=": return a <= b
        if op == ">": return a > b
        if op == ">=": return a >= b
        raise Fault("op", op)

    # -- builtins that the core language documents
    def builtin(self, name, args):
        if name == "println":
            self.out.append(self.show(args[0]) + "\n"); return None
        if name == "print":
            self.out.append(self.show(args[0])); return None
        if name == "at":
            arr, i = args
            if not (0 <= i < len(arr)):
                raise Fault("oob", "at %d of %d" % (i, len(arr)))
            return arr[i]
        if name == "array_length":
            return len(args[0])
        if name == "array_push":
            args[0].append(args[1]); return args[0]
        if name == "array_set":
            arr, i, v = args
            if not (0 <= i < len(arr)):
                raise Fault("oob", "set %d of %d" % (i, len(arr)))
            arr[i] = v; return None
        if name == "array_pop":
            if not args[0]:
                raise Fault("oob", "pop empty")
            return args[0].pop()
        if name == "str_length":
            return len(args[0].encode())
        if name == "int_to_string":
            return str(args[0])
        raise Fault("nobuiltin", name)

    BUILTINS = ("println", "print", "at", "array_length", "array_push", "array_set", "array_pop", "str_length", "int_to_string")

    def call(self, name, argexprs, env):
        order = range(len(argexprs))
        if "args_rtl" in self.dev and name not in self.BUILTINS:
            vals = [None] * len(argexprs)
            for i in reversed(order):
                vals[i] = self.ev(argexprs[i], env)
        else:
            vals = [self.ev(a, env) for a in argexprs]
        target = name
        if name not in self.p.funcs and name not in self.BUILTINS:
            sc = self.lookup(env, name)
            if sc is None:
                raise Fault("unbound", name)
            fv = sc[name][0]
            if not (isinstance(fv, tuple) and fv[0] == "fn"):
                raise Fault("type", "call of non-function")
            target = fv[1]
        if target in self.BUILTINS and target not in self.p.funcs:
            return self.builtin(target, vals)
        params, ret, body = self.p.funcs[target]
        self.depth += 1
        if self.depth > self.MAX_DEPTH:
            raise Fault("depth", "call depth")
        fenv = [dict((pn, [v, False]) for (pn, _pt), v in zip(params, vals))]
        self.stack.append(fenv)
        try:
            try:
                self.block(body, fenv, new_scope=False)
                r = None
            except _Return as rv:
                r = rv.v
        finally:
            self.stack.pop()
            self.depth -= 1
        return r

    def block(self, stmts, env, new_scope=True):
        if new_scope and "no_block_scope" not in self.dev:
            env.append({})
            try:
                for s in stmts:
                    self.st(s, env)
            finally:
                env.pop()
        else:
            for s in stmts:
                self.st(s, env)

    def st(self, s, env):
        self.tick()
        t = s[0]
        if t == "let":
            v = self.ev(s[3], env)
            env[-1][s[1]] = [v, bool(s[4])]
        elif t == "set":
            v = self.ev(s[2], env)
            sc = self.lookup(env, s[1])
            if sc is None:
                raise Fault("unbound", s[1])
            sc[s[1]][0] = v
        elif t == "if":
            if self.ev(s[1], env):
                self.block(s[2], env)
            elif s[3] is not None:
                self.block(s[3], env)
        elif t == "while":
            while self.ev(s[1], env):
                try:
                    self.block(s[2], env)
                except _Break:
                    break
                except _Continue:
                    continue
        elif t == "for":
            a = self.ev(s[2], env)
            b = self.ev(s[3], env)
            i = a
            while i < b:
                if "no_block_scope" in self.dev:
                    # deviation: ONE scope for the whole loop (restored when the loop ends); the body block
                    # does not get a scope per iteration, so a let inside it survives into the next iteration
                    if i == a:
                        env.append({})
                        pushed_loop_scope = True
                    env[-1][s[1]] = [i, False]
                    try:
                        self.block(s[4], env)
                    except _Break:
                        break
                    except _Continue:
                        pass
                    except BaseException:
                        env.pop()
                        raise
                    i += 1
                    continue
                env.append({s[1]: [i, False]})
                try:
                    try:
                        self.block(s[4], env)
                    except _Break:
                        break
                    except _Continue:
                        pass
                finally:
                    env.pop()
                i += 1
            if "no_block_scope" in self.dev and a < b:
                env.pop()
        elif t == "break":
            raise _Break()
        elif t == "continue":
            raise _Continue()
        elif t == "return":
            raise _Return(self.ev(s[1], env))
        elif t == "println":
            self.out.append(self.show(self.ev(s[1], env)) + "\n")
        elif t == "print":
            self.out.append(self.show(self.ev(s[1], env)))
        elif t == "expr":
            self.ev(s[1], env)
        elif t == "assert":
            ok = self.ev(s[1], env)
            self.asserts_executed = getattr(self, "asserts_executed", 0) + 1
            if not ok:
                if "assert_records" in self.dev:      # shadow-test semantics: record the failure, keep going
                    self.asserts_failed = getattr(self, "asserts_failed", 0) + 1
                else:
                    raise Fault("assert", "assertion failed")
        elif t == "match":
            v = self.ev(s[1], env)
            for variant, bind, body in s[2]:
                if v[2] == variant:
                    env.append({bind: [v, False]})
                    try:
                        self.block(body, env)
                    finally:
                        env.pop()
                    break
        else:
            raise Fault("stmt", repr(s))

    def init_globals(self):
        for n, _t, e, m in self.p.globals:
            self.globals[n] = [self.ev(e, [{}]), m]

    def run_main(self):
        """Returns (class, stdout_text, exit_status or None)."""
        try:
            self.init_globals()
            r = self.call("main", [], [{}])
            code = (r & 0xFF) if isinstance(r, int) and not isinstance(r, bool) else 0
            return ("normal", "".join(self.out), code)
        except Fault as f:
            return (f.kind, "".join(self.out), None)
        except RecursionError:
            return ("depth", "".join(self.out), None)

    def run_fn(self, name, args):
        """Evaluate one function on literal argument values; returns (class, stdout, value)."""
        self.out = []
        try:
            if not self.globals and self.p.globals:
                self.init_globals()
            r = self.call(name, [("int", a) if isinstance(a, int) and not isinstance(a, bool) else ("bool", a) if isinstance(a, bool) else ("str", a) for a in args], [{}])
            return ("normal", "".join(self.out), r)
        except Fault as f:
            return (f.kind, "".join(self.out), None)


def selftest():
    # spec 8.1 static scoping, 5.4 for/continue, 8.5 short circuit, wrapping
    p = Program()
    p.add_global("x", "int", ("int", 1))
    p.add_fn("f", [], "int", [("return", ("var", "x"))])
    p.add_fn("g", [], "int", [("let", "x", "int", ("int", 2), False), ("return", ("call", "f", []))])
    p.add_fn("t", [("k", "int")], "int", [("println", ("var", "k")), ("return", ("var", "k"))])
    p.add_fn("main", [], "int", [
        ("println", ("call", "g", [])),
        ("for", "i", ("int", 0), ("int", 4), [("if", ("bin", "==", ("var", "i"), ("int", 1)), [("continue",)], [("println", ("var", "i"))])]),
        ("println", ("bin", "and", ("bin", "<", ("call", "t", [("int", 7)]), ("int", 0)), ("bin", "<", ("call", "t", [("int", 8)]), ("int", 0)))),
        ("println", ("bin", "+", ("int", I64_MAX), ("int", 1))),
        ("println", ("bin", "/", ("int", -7), ("int", 2))),
        ("println", ("bin", "%", ("int", -7), ("int", 2))),
        ("return", ("int", 300))])
    r = Interp(p).run_main()
    assert r == ("normal", "1\n0\n2\n3\n7\nfalse\n-9223372036854775808\n-3\n-1\n", 44), r
    assert Interp(p, ["dynamic_scope"]).run_main()[1].startswith("2\n")
    return True


if __name__ == "__main__":
    print(selftest())
    p = Printer("infix")
    print(p.stmt_expr(("bin", "+", ("bin", "*", ("var", "a"), ("un", "-", ("var", "b"))), ("bin", "-", ("int", 1), ("int", 2)))))
