"""C13 extension (used by vf/checks/c13.py only): function-extent enumeration and the VM's
resource limits at their exact boundary.

(a) EXTENT  every function of every corpus module x every code_length 0..len+8 (each byte, so
    every instruction is cut at every operand byte) x every code_offset delta in -K..K, on the
    module as compiled and on a copy whose code section is followed by 12 more valid
    instruction bytes (so the last function is also followed by code).  Run by the ordinary
    hostile-module probe (crash / sanitizer / hang / decode error on a verified path).

(b) LIMITS  whole programs that reach a resource limit of the VM exactly, judged against a
    plain Python model of the program:
      depth   call depth VM_MAX_FRAMES through every call-like construct, separately:
              source programs (direct CALL, function value, function parameter trampoline,
              map / filter / reduce, closure with capture, mutual recursion, global
              initialiser) and hand-built modules (CALL, CLOSURE_NEW+CALL_INDIRECT with 0/1
              captures, CLOSURE_CALL with 0/1 captures, CALL_MODULE into the module itself
              and ping-pong with a second module, every ordered pair of kinds in mutual
              recursion, the limit reached inside __init__), each x function-table layouts x
              one extra wrapper frame (parity) x depths needing limit-3 .. limit+2 frames
              (+ shallow and very deep controls); host re-entry on a VmState left with
              limit-2 / limit-1 / limit live frames.
      stack   operand stack reallocation (VM_STACK_INITIAL doublings): for every opcode that
              can make the stack deeper (PUSH_*, DUP, LOAD_*, container / closure / enum
              constructors, ARR_POP, OPAQUE_NULL, the local reservation of CALL /
              CALL_INDIRECT / CLOSURE_CALL / CALL_MODULE, RET's result push, the implicit
              return) the stack is filled to capacity-2 .. capacity+1 before it executes, at
              every capacity doubling of the tier; callee local_count at the u16 boundaries;
              source recursions with fat frames, every alignment phase 0..15.
      globals STORE_GLOBAL / LOAD_GLOBAL at VM_MAX_GLOBALS-2 .. VM_MAX_GLOBALS+1, 2^32-1.
      locals  LOAD_LOCAL / STORE_LOCAL of slot local_count-1 / local_count for local_count at
              1, 255..257, 65535; source programs with 254..257 lets.
      nest    value nesting depth around the printer's limit (VAL_PRINT_MAX_DEPTH) for arrays,
              tuples, structs, unions and their rotation, and (never printed) hashmaps and
              closures; then the ladder 1000, 10000, 100000 (thorough 1000000), where no limit
              is declared: printed, compared, converted, released.
    Oracle: the run completes with the model's output, or stops with the documented error of
    that limit (result code + message) after the model's output prefix; below the limit it must
    complete.  No crash, sanitizer report, hang, other error text, broken state invariant
    (frame_count within 1..VM_MAX_FRAMES and moving by at most one frame per instruction, top
    frame == current function, ip inside the current function, stack_size <= capacity).
"""
import os
import re
import struct
import sys

from . import common, corpus, nvmfmt

VM_OK, ERR_CALL_DEPTH, ERR_TYPE, ERR_OOB, ERR_ASSERT = 0, 3, 5, 6, 8
DEPTH_MSG = "Call depth exceeded"
PAD_CODE = None  # set by init(): PUSH_I64 7; RET; NOP NOP


# ----------------------------------------------------------------------------- (a) extent
def rebuild_with_code(data, new_code):
    """Re-serialise `data` with its code section replaced (directory offsets + header string pool
    offset recomputed).  Returns None when the image does not have the serializer's layout."""
    h = struct.unpack_from("<4sIIIIIII", data, 0)
    nsec = h[4]
    secs = [struct.unpack_from("<III", data, 32 + 12 * i) for i in range(nsec)]
    pos = 32 + 12 * nsec
    for (_t, o, s) in secs:          # payloads must tile the rest of the file in directory order
        if o != pos:
            return None
        pos += s
    if pos != len(data):
        return None
    off = 32 + 12 * nsec
    directory, body = b"", b""
    spo, spl = h[5], h[6]
    for (t, o, s) in secs:
        payload = bytes(new_code) if t == nvmfmt.SEC_CODE else data[o:o + s]
        directory += struct.pack("<III", t, off, len(payload))
        if t == nvmfmt.SEC_STRINGS:
            spo, spl = off, len(payload)
        body += payload
        off += len(payload)
    rest = directory + body
    return data[:4] + struct.pack("<IIIIIII", h[1], h[2], h[3], nsec, spo, spl, nvmfmt.crc32(rest)) + rest


def extent_family(data, optable, tier):
    """(line, description) edits of function-table extents for one image."""
    lay = nvmfmt.Layout(data, optable)
    fields = {n: off for (n, off, _w) in lay.fields}
    K = 4 if tier == "quick" else 16
    out = []
    for fi, (co, cl) in enumerate(lay.functions):
        o_off = fields["function[%d].code_offset" % fi]
        l_off = fields["function[%d].code_length" % fi]
        for d in range(-K, K + 1):
            no = co + d
            if no < 0:
                continue
            for v in range(0, cl + 9):
                if d == 0 and v == cl:
                    continue
                edit = "P%d:%s" % (l_off, nvmfmt.le(v, 4))
                if d:
                    edit = "P%d:%s;" % (o_off, nvmfmt.le(no, 4)) + edit
                out.append((edit, "function[%d] extent (offset %d%+d, length %d -> %d)" % (fi, co, d, cl, v)))
            if d:
                # the end stays where it was
                v = cl - d
                if v >= 0 and v > cl + 8:
                    out.append(("P%d:%s;P%d:%s" % (o_off, nvmfmt.le(no, 4), l_off, nvmfmt.le(v, 4)),
                                "function[%d] extent (offset %d%+d, end kept, length %d -> %d)" % (fi, co, d, cl, v)))
    return out, lay


# ----------------------------------------------------------------------------- mini assembler
class Asm:
    def __init__(self, optable):
        self.inv = {v[0]: (k, v[1]) for k, v in optable.items()}

    def code(self, items):
        """items: ("OP", operands..) | ("label", name); a jump operand may be a label name."""
        pos, labels, sized = 0, {}, []
        for it in items:
            if it[0] == "label":
                labels[it[1]] = pos
                continue
            op, types = self.inv[it[0]]
            if len(it) - 1 != len(types):
                raise common.HarnessError("asm: operand count of %s" % (it,))
            sized.append((pos, it, op, types))
            pos += 1 + sum(nvmfmt.OPSIZE[t] for t in types)
        out = bytearray()
        for (p, it, op, types) in sized:
            out.append(op)
            for v, t in zip(it[1:], types):
                if isinstance(v, str):
                    v = labels[v] - p
                if t == 6:
                    out += struct.pack("<d", float(v))
                else:
                    w = nvmfmt.OPSIZE[t]
                    out += (int(v) & ((1 << (8 * w)) - 1)).to_bytes(w, "little")
        return bytes(out)

    def module(self, fns, extra_strings=(), entry="main"):
        """fns: list of (name, arity, locals, upvalues, items).  Strings: function names first, then
        extra_strings (so extra string i has index len(fns)+i)."""
        strings = [f[0].encode() for f in fns] + [s if isinstance(s, bytes) else s.encode() for s in extra_strings]
        code, table = b"", []
        for i, (name, arity, nloc, nup, items) in enumerate(fns):
            c = self.code(items)
            table.append((i, arity, len(code), len(c), nloc, nup))
            code += c
        names = [f[0] for f in fns]
        return nvmfmt.build_image(strings, code, table, flags=1, entry=names.index(entry))


# ----------------------------------------------------------------------------- expectation helpers
def hx(b):
    return b.hex() if b else "-"


def alt_ok(out, **kw):
    d = {"st": "ok", "res": VM_OK, "out": out}
    d.update(kw)
    return d


def alt_err(res, msg, out, **kw):
    d = {"st": "ok", "res": res, "msg": msg, "out": out}
    d.update(kw)
    return d


class Case:
    __slots__ = ("name", "family", "images", "flags", "alts", "note", "src", "tool")

    def __init__(self, name, family, images, alts, flags="-", note="", src=None, tool=True):
        self.name, self.family, self.images, self.alts, self.flags, self.note, self.src, self.tool = name, family, images, alts, flags, note, src, tool


# ----------------------------------------------------------------------------- depth model
class DepthExceeded(Exception):
    pass


class Mach:
    """Plain model of the call stack: every call needs one frame; the limit is VM_MAX_FRAMES."""

    def __init__(self, limit):
        self.limit, self.d, self.maxd, self.out = limit, 0, 0, []

    def call(self, f, *a):
        if self.d >= self.limit:
            raise DepthExceeded()
        self.d += 1
        if self.d > self.maxd:
            self.maxd = self.d
        r = f(*a)
        self.d -= 1
        return r

    def println(self, v):
        if v is True or v is False:
            v = "true" if v else "false"
        self.out.append(str(v) + "\n")


def run_model(limit, body):
    """body(M) runs the whole program (its top-level frames through M.call).  Returns the
    expectation alternatives + the model's peak frame count."""
    M = Mach(limit)
    try:
        body(M)
        return [alt_ok("".join(M.out).encode(), maxframes=M.maxd)], M.maxd, True
    except DepthExceeded:
        return [alt_err(ERR_CALL_DEPTH, DEPTH_MSG, "".join(M.out).encode(), maxframes=limit)], limit, False


# --- source templates: (name, source text with @D@ = depth marker constant, model(M, D, wrap))
MARK = 7770001


def _main_src(call, ty="int", wrap=0, pre=""):
    w = ""
    if wrap:
        w = "fn w(n: int) -> %s {\n    return %s\n}\nshadow w { assert true }\n" % (ty, call.replace("@D@", "n"))
        call = "(w @D@)"
    return (w + "fn main() -> int {\n    (println \"before\")\n" + pre + "    let r: %s = %s\n    (println r)\n    (println \"after\")\n    return 0\n}\nshadow main { assert true }\n" % (ty, call))


def _pad(n):
    return "".join("fn pad%d(x: int) -> int {\n    return (+ x %d)\n}\nshadow pad%d { assert (== (pad%d 1) %d) }\n" % (i, i, i, i, 1 + i) for i in range(n))


def src_templates():
    T = []

    def add(name, fns_src, call, model, ty="int", pre=""):
        T.append((name, fns_src, call, model, ty, pre))

    # direct CALL
    hop = "fn hop(n: int) -> int {\n    if (== n 0) {\n        return 0\n    } else {\n        return (+ 1 (hop (- n 1)))\n    }\n}\nshadow hop { assert (== (hop 3) 3) }\n"

    def m_direct(M, D):
        def hop_(n):
            return 0 if n == 0 else 1 + M.call(hop_, n - 1)
        return lambda: M.call(hop_, D)
    add("direct", hop, "(hop @D@)", m_direct)
    # function value
    hopv = "fn hop(n: int) -> int {\n    let f: fn(int) -> int = hop\n    if (== n 0) {\n        return 0\n    } else {\n        return (+ 1 (f (- n 1)))\n    }\n}\nshadow hop { assert (== (hop 3) 3) }\n"
    add("fnvalue", hopv, "(hop @D@)", m_direct)
    # trampoline through a function parameter: CALL and CALL_INDIRECT alternate
    tr = ("fn apply(g: fn(int) -> int, n: int) -> int {\n    return (g n)\n}\nshadow apply { assert true }\n"
          "fn hop(n: int) -> int {\n    if (== n 0) {\n        return 0\n    } else {\n        return (+ 1 (apply hop (- n 1)))\n    }\n}\nshadow hop { assert (== (hop 3) 3) }\n")

    def m_tramp(M, D):
        def apply_(g, n):
            return M.call(g, n)

        def hop_(n):
            return 0 if n == 0 else 1 + M.call(apply_, hop_, n - 1)
        return lambda: M.call(hop_, D)
    add("trampoline", tr, "(hop @D@)", m_tramp)
    # map / filter / reduce (compiled inline to CALL_INDIRECT loops)
    mp = "fn hop(n: int) -> int {\n    if (== n 0) {\n        return 0\n    } else {\n        let a: array<int> = [(- n 1)]\n        let r: array<int> = (map a hop)\n        return (+ 1 (at r 0))\n    }\n}\nshadow hop { assert (== (hop 3) 3) }\n"

    def m_map(M, D):
        def hop_(n):
            if n == 0:
                return 0
            r = [M.call(hop_, x) for x in [n - 1]]
            return 1 + r[0]
        return lambda: M.call(hop_, D)
    add("map", mp, "(hop @D@)", m_map)
    fl = "fn pos(n: int) -> bool {\n    if (== n 0) {\n        return true\n    } else {\n        let a: array<int> = [(- n 1)]\n        let r: array<int> = (filter a pos)\n        return (== (array_length r) 1)\n    }\n}\nshadow pos { assert (pos 3) }\n"

    def m_filter(M, D):
        def pos_(n):
            if n == 0:
                return True
            r = [x for x in [n - 1] if M.call(pos_, x)]
            return len(r) == 1
        return lambda: M.call(pos_, D)
    add("filter", fl, "(pos @D@)", m_filter, ty="bool")
    rd = "fn acc(s: int, n: int) -> int {\n    if (== n 0) {\n        return s\n    } else {\n        let a: array<int> = [(- n 1)]\n        return (reduce a (+ s 1) acc)\n    }\n}\nshadow acc { assert (== (acc 0 3) 3) }\n"

    def m_reduce(M, D):
        def acc_(s, n):
            if n == 0:
                return s
            a = s + 1
            for x in [n - 1]:
                a = M.call(acc_, a, x)
            return a
        return lambda: M.call(acc_, 0, D)
    add("reduce", rd, "(acc 0 @D@)", m_reduce)
    # closure with a captured variable, re-created at every level
    cl = ("fn mk(k: int) -> fn(int) -> int {\n    fn inner(n: int) -> int {\n        if (== n 0) {\n            return k\n        } else {\n"
          "            let g: fn(int) -> int = (mk k)\n            return (+ 1 (g (- n 1)))\n        }\n    }\n    return inner\n}\nshadow mk { assert true }\n")

    def m_clos(M, D):
        def mk_(k):
            def inner_(n):
                if n == 0:
                    return k
                g = M.call(mk_, k)
                return 1 + M.call(g, n - 1)
            return inner_

        def go():
            f = M.call(mk_, 100)
            return M.call(f, D)
        return go
    add("closure", cl, "(f @D@)", m_clos, pre="    let f: fn(int) -> int = (mk 100)\n")
    # mutual recursion
    mu = ("fn ha(n: int) -> int {\n    if (== n 0) {\n        return 0\n    } else {\n        return (+ 1 (hb (- n 1)))\n    }\n}\nshadow ha { assert true }\n"
          "fn hb(n: int) -> int {\n    if (== n 0) {\n        return 0\n    } else {\n        return (+ 2 (ha (- n 1)))\n    }\n}\nshadow hb { assert true }\n")

    def m_mut(M, D):
        def ha_(n):
            return 0 if n == 0 else 1 + M.call(hb_, n - 1)

        def hb_(n):
            return 0 if n == 0 else 2 + M.call(ha_, n - 1)
        return lambda: M.call(ha_, D)
    add("mutual", mu, "(ha @D@)", m_mut)
    return T


def build_source(tpl, npad, wrap, depth_text="@D@"):
    name, fns_src, call, _model, ty, pre = tpl
    if wrap and pre:
        # the closure value must exist inside the wrapper
        w = "fn w(n: int) -> %s {\n%s    return %s\n}\nshadow w { assert true }\n" % (ty, pre, call.replace("@D@", "n"))
        main = "fn main() -> int {\n    (println \"before\")\n    let r: %s = (w @D@)\n    (println r)\n    (println \"after\")\n    return 0\n}\nshadow main { assert true }\n" % ty
        body = w + main
    else:
        body = _main_src(call, ty, wrap, pre)
    return (_pad(npad) + fns_src + body).replace("@D@", str(depth_text))


def model_source(tpl, limit, D, wrap):
    _name, _f, _call, model, _ty, pre = tpl

    def body(M):
        def main_():
            M.println("before")
            inner = model(M, D)
            if wrap:
                r = M.call(inner)     # w's frame, then the template's frames
            else:
                r = inner()
            M.println(r)
            M.println("after")
            return 0
        M.call(main_)
    return run_model(limit, body)


def ginit_source(npad, D):
    hop = "fn hop(n: int) -> int {\n    if (== n 0) {\n        return 0\n    } else {\n        return (+ 1 (hop (- n 1)))\n    }\n}\nshadow hop { assert (== (hop 3) 3) }\n"
    return (_pad(npad) + hop + "let g: int = (hop %s)\nfn main() -> int {\n    (println \"before\")\n    (println g)\n    (println \"after\")\n    return 0\n}\nshadow main { assert true }\n" % D)


def model_ginit(limit, D):
    def body(M):
        g = []

        def hop_(n):
            return 0 if n == 0 else 1 + M.call(hop_, n - 1)

        def init_():
            g.append(M.call(hop_, D))

        def main_():
            M.println("before")
            M.println(g[0])
            M.println("after")
        M.call(init_)
        M.call(main_)
    return run_model(limit, body)


def critical_depth(limit, fn):
    """smallest D for which the model exceeds the limit (fn(D) -> completes?); monotone."""
    lo, hi = 0, 2 * limit + 8
    while lo < hi:
        mid = (lo + hi) // 2
        if fn(mid):
            lo = mid + 1
        else:
            hi = mid
    return lo


def depth_values(dstar, tier):
    vals = set([1, 7, dstar * 2 + 5])
    for k in range(-3, 3):
        vals.add(dstar + k)
    if tier == "thorough":
        vals.update([2, 3, dstar // 2, dstar - 5, dstar - 4, dstar + 3, dstar + 4, dstar * 3])
    return sorted(v for v in vals if v >= 1)


def patch_marker(data, optable, marker, value):
    """Replace the operand of the single `PUSH_I64 marker` of a compiled module (checksum fixed)."""
    lay = nvmfmt.Layout(data, optable)
    inv = {v[0]: k for k, v in optable.items()}
    hits = [ops[0][0] for (_fi, _a, op, ops, _ln) in lay.instrs if op == inv["PUSH_I64"] and int.from_bytes(data[ops[0][0]:ops[0][0] + 8], "little") == marker]
    if len(hits) != 1:
        raise common.HarnessError("depth marker found %d times" % len(hits))
    b = bytearray(data)
    b[hits[0]:hits[0] + 8] = (value & (2 ** 64 - 1)).to_bytes(8, "little")
    b[28:32] = struct.pack("<I", nvmfmt.crc32(bytes(b[32:])))
    return bytes(b)


# ----------------------------------------------------------------------------- hand-built depth family
CALL_KINDS = ["call", "indirect0", "indirect1", "cclosure0", "cclosure1", "module_self"]


def call_seq(kind, target_idx):
    """instructions that call function `target_idx` with the int argument already on the stack."""
    if kind == "call":
        return [("CALL", target_idx)]
    if kind == "indirect0":
        return [("CLOSURE_NEW", target_idx, 0), ("CALL_INDIRECT",)]
    if kind == "indirect1":
        return [("PUSH_I64", 5), ("CLOSURE_NEW", target_idx, 1), ("CALL_INDIRECT",)]
    if kind == "cclosure0":
        return [("CLOSURE_NEW", target_idx, 0), ("CLOSURE_CALL",)]
    if kind == "cclosure1":
        return [("PUSH_I64", 5), ("CLOSURE_NEW", target_idx, 1), ("CLOSURE_CALL",)]
    if kind == "module_self":
        return [("CALL_MODULE", 0, target_idx)]
    raise common.HarnessError(kind)


def hop_items(kind, target_idx, inc, leaf="zero"):
    leaf_items = {"zero": [("PUSH_I64", 0), ("RET",)],
                  "assert": [("PUSH_BOOL", 0), ("ASSERT",), ("PUSH_I64", 0), ("RET",)]}[leaf]
    return ([("LOAD_LOCAL", 0), ("JMP_TRUE", "rec")] + leaf_items +
            [("label", "rec"), ("LOAD_LOCAL", 0), ("PUSH_I64", 1), ("SUB",)] + call_seq(kind, target_idx) +
            [("PUSH_I64", inc), ("ADD",), ("RET",)])


def hand_depth_module(asm, layout, kindA, kindB, D, wrap, leaf="zero", in_init=False):
    """main -> [w ->] hopA(D) -> hopB(D-1) -> hopA ...; layout = order of the function table."""
    names = list(layout)
    idx = {n: i for i, n in enumerate(names)}
    strs_base = len(names)
    fns = {}
    fns["hopA"] = ("hopA", 1, 1, 1, hop_items(kindA, idx["hopB"], 1, leaf))
    fns["hopB"] = ("hopB", 1, 1, 1, hop_items(kindB, idx["hopA"], 2, leaf))
    fns["pad"] = ("pad", 1, 1, 0, [("LOAD_LOCAL", 0), ("RET",)])
    if wrap and "w" not in idx:
        raise common.HarnessError("layout without w")
    first = [("PUSH_I64", D)] + ([("CALL", idx["w"])] if wrap else [("CALL", idx["hopA"])])
    fns["w"] = ("w", 1, 1, 0, [("LOAD_LOCAL", 0), ("CALL", idx["hopA"]), ("RET",)])
    if in_init:
        fns["__init__"] = ("__init__", 0, 0, 0, first + [("STORE_GLOBAL", 0), ("PUSH_VOID",), ("RET",)])
        fns["main"] = ("main", 0, 0, 0, [("PUSH_STR", strs_base), ("PRINTLN",), ("LOAD_GLOBAL", 0), ("PRINTLN",),
                                         ("PUSH_STR", strs_base + 1), ("PRINTLN",), ("PUSH_I64", 0), ("RET",)])
    else:
        fns["main"] = ("main", 0, 0, 0, [("PUSH_STR", strs_base), ("PRINTLN",)] + first +
                       [("PRINTLN",), ("PUSH_STR", strs_base + 1), ("PRINTLN",), ("PUSH_I64", 0), ("RET",)])
    return asm.module([fns[n] for n in names], ["before", "after"])


def model_hand_depth(limit, D, wrap, leaf="zero", in_init=False):
    def body(M):
        def hopA(n):
            if n == 0:
                if leaf == "assert":
                    raise AssertionError()
                return 0
            return 1 + M.call(hopB, n - 1)

        def hopB(n):
            if n == 0:
                if leaf == "assert":
                    raise AssertionError()
                return 0
            return 2 + M.call(hopA, n - 1)

        def start():
            return M.call(lambda: M.call(hopA, D)) if wrap else M.call(hopA, D)
        if in_init:
            g = []
            M.call(lambda: g.append(start()))

            def main_():
                M.println("before")
                M.println(g[0])
                M.println("after")
            M.call(main_)
        else:
            def main_():
                M.println("before")
                r = start()
                M.println(r)
                M.println("after")
            M.call(main_)
    M = Mach(limit)
    try:
        body(M)
        return [alt_ok("".join(M.out).encode(), maxframes=M.maxd)], True
    except DepthExceeded:
        return [alt_err(ERR_CALL_DEPTH, DEPTH_MSG, "".join(M.out).encode(), maxframes=limit)], False
    except AssertionError:
        return [alt_err(ERR_ASSERT, "Assertion failed", "".join(M.out).encode(), maxframes=M.maxd, frames_left=M.d)], False


def pingpong_modules(asm, D, wrap):
    """main module: hop -> CALL_MODULE 1 (lib).hop2 -> CALL_MODULE 0 (main, self-linked).hop ..."""
    main_fns = [("main", 0, 0, 0, [("PUSH_STR", 3), ("PRINTLN",), ("PUSH_I64", D)] + ([("CALL", 2)] if wrap else [("CALL", 1)]) +
                 [("PRINTLN",), ("PUSH_STR", 4), ("PRINTLN",), ("PUSH_I64", 0), ("RET",)]),
                ("hop", 1, 1, 0, [("LOAD_LOCAL", 0), ("JMP_TRUE", "rec"), ("PUSH_I64", 0), ("RET",), ("label", "rec"),
                                  ("LOAD_LOCAL", 0), ("PUSH_I64", 1), ("SUB",), ("CALL_MODULE", 1, 0), ("PUSH_I64", 1), ("ADD",), ("RET",)]),
                ("w", 1, 1, 0, [("LOAD_LOCAL", 0), ("CALL", 1), ("RET",)])]
    lib_fns = [("hop2", 1, 1, 0, [("LOAD_LOCAL", 0), ("JMP_TRUE", "rec"), ("PUSH_I64", 0), ("RET",), ("label", "rec"),
                                  ("LOAD_LOCAL", 0), ("PUSH_I64", 1), ("SUB",), ("CALL_MODULE", 0, 1), ("PUSH_I64", 2), ("ADD",), ("RET",)]),
               ("main", 0, 0, 0, [("PUSH_I64", 0), ("RET",)])]
    return asm.module(main_fns, ["before", "after"]), asm.module(lib_fns, [], entry="main")


# ----------------------------------------------------------------------------- hand-built stack family
def pushers(fn_idx_ret9, str_idx):
    """(name, setup items, net stack effect of setup, P items, text PRINTLN shows for P's result,
    extra values left under the result that must be popped afterwards)."""
    return [
        ("PUSH_I64", [], 0, [("PUSH_I64", 77)], "77", 0),
        ("PUSH_F64", [], 0, [("PUSH_F64", 1.5)], "1.5", 0),
        ("PUSH_BOOL", [], 0, [("PUSH_BOOL", 1)], "true", 0),
        ("PUSH_STR", [], 0, [("PUSH_STR", str_idx)], "str", 0),
        ("PUSH_VOID", [], 0, [("PUSH_VOID",)], "void", 0),
        ("PUSH_U8", [], 0, [("PUSH_U8", 200)], "200", 0),
        ("DUP", [("PUSH_I64", 31)], 1, [("DUP",)], "31", 1),
        ("LOAD_LOCAL", [], 0, [("LOAD_LOCAL", 2)], "55", 0),
        ("LOAD_GLOBAL", [], 0, [("LOAD_GLOBAL", 3)], "42", 0),
        ("LOAD_UPVALUE", [], 0, [("LOAD_UPVALUE", 0, 0)], "void", 0),
        ("ARR_NEW", [], 0, [("ARR_NEW", 1)], "[]", 0),
        ("HM_NEW", [], 0, [("HM_NEW", 1, 1)], "hashmap(...)", 0),
        ("STRUCT_NEW", [], 0, [("STRUCT_NEW", 0)], "{}", 0),
        ("ARR_LITERAL", [], 0, [("ARR_LITERAL", 1, 0)], "[]", 0),
        ("STRUCT_LITERAL", [], 0, [("STRUCT_LITERAL", 0, 0)], "{}", 0),
        ("UNION_CONSTRUCT", [], 0, [("UNION_CONSTRUCT", 0, 3, 0)], "variant(3)", 0),
        ("ENUM_VAL", [], 0, [("ENUM_VAL", 0, 5)], "5", 0),
        ("TUPLE_NEW", [], 0, [("TUPLE_NEW", 0)], "()", 0),
        ("OPAQUE_NULL", [], 0, [("OPAQUE_NULL",)], "opaque(0)", 0),
        ("CLOSURE_NEW", [], 0, [("CLOSURE_NEW", fn_idx_ret9, 0), ("CALL_INDIRECT",)], "9", 0),
        # ARR_POP pops the array and pushes element + array: [.. 5-array x] SWAP -> [.. x arr]
        ("ARR_POP", [("ARR_NEW", 1), ("PUSH_I64", 5), ("ARR_PUSH",), ("PUSH_I64", 6), ("SWAP",)], 2, [("ARR_POP",)], "[]", 2),
        ("CALL", [], 0, [("CALL", fn_idx_ret9)], "9", 0),
        ("CALL_INDIRECT", [("CLOSURE_NEW", fn_idx_ret9, 0)], 1, [("CALL_INDIRECT",)], "9", 0),
        ("CLOSURE_CALL", [("CLOSURE_NEW", fn_idx_ret9, 0)], 1, [("CLOSURE_CALL",)], "9", 0),
        ("CALL_MODULE", [], 0, [("CALL_MODULE", 0, fn_idx_ret9)], "9", 0),
        ("RET_void", [], 0, [("CALL", fn_idx_ret9 + 1)], "void", 0),       # callee: bare RET with nothing above its 0 locals
        ("implicit_return", [], 0, [("CALL", fn_idx_ret9 + 2)], "void", 0),  # callee: empty body
    ]


def stack_module(asm, pusher, F, callee_locals=0):
    """main fills the operand stack to exactly F values, runs P, prints P's result, then sums the
    fillers (proves that the reallocation kept every value)."""
    name, setup, snet, P, shown, leftover = pusher
    S = 4
    base = 3                                  # main's locals: 0 counter, 1 sum, 2 constant 55
    N = F - base - S - snet
    if N < 1:
        raise common.HarnessError("stack family: F too small")
    it = [("PUSH_I64", 42), ("STORE_GLOBAL", 3), ("PUSH_I64", 55), ("STORE_LOCAL", 2),
          ("PUSH_I64", N), ("STORE_LOCAL", 0),
          ("label", "fill"), ("LOAD_LOCAL", 0),
          ("LOAD_LOCAL", 0), ("PUSH_I64", 1), ("SUB",), ("DUP",), ("STORE_LOCAL", 0), ("JMP_TRUE", "fill")]
    it += [("PUSH_I64", 1000 + i) for i in range(S)]
    it += setup + P + [("PRINTLN",)]
    it += [("POP",)] * (leftover + S)
    it += [("PUSH_I64", 0), ("STORE_LOCAL", 1),
           ("label", "sum"), ("LOAD_LOCAL", 1), ("ADD",), ("STORE_LOCAL", 1),
           ("LOAD_LOCAL", 0), ("PUSH_I64", 1), ("ADD",), ("DUP",), ("STORE_LOCAL", 0), ("PUSH_I64", N), ("LT",), ("JMP_TRUE", "sum"),
           ("LOAD_LOCAL", 1), ("PRINTLN",), ("PUSH_I64", 0), ("RET",)]
    fns = [("main", 0, 3, 1, it),
           ("ret9", 0, callee_locals, 0, [("PUSH_I64", 9), ("RET",)]),
           ("retv", 0, 0, 0, [("RET",)]),
           ("empty", 0, 0, 0, [])]
    img = asm.module(fns, ["str"])
    out = "%s\n%d\n" % (shown, N * (N + 1) // 2)
    return img, out.encode()


# ----------------------------------------------------------------------------- nesting family
NEST_KINDS = {
    "array": ([("ARR_NEW", 1), ("LOAD_LOCAL", 1), ("ARR_PUSH",)], "[", "]"),
    "tuple": ([("LOAD_LOCAL", 1), ("TUPLE_NEW", 1)], "(", ")"),
    "struct": ([("LOAD_LOCAL", 1), ("STRUCT_LITERAL", 0, 1)], "{", "}"),
    "union": ([("LOAD_LOCAL", 1), ("UNION_CONSTRUCT", 0, 2, 1)], "variant(2, ", ")"),
    # not printed (the printer does not descend into these): built, compared, released
    "hashmap": ([("HM_NEW", 1, 1), ("PUSH_I64", 1), ("LOAD_LOCAL", 1), ("HM_SET",)], None, None),
    "closure": ([("LOAD_LOCAL", 1), ("CLOSURE_NEW", 0, 1)], None, None),
}
PRINTED_KINDS = ["array", "tuple", "struct", "union"]


def nest_module(asm, kinds, depth, print_limit):
    """v = 7 wrapped `depth` times (kinds applied cyclically, innermost first); print, compare, release."""
    it = [("PUSH_I64", 7), ("STORE_LOCAL", 1)]
    if len(kinds) == 1:
        wrap_items = NEST_KINDS[kinds[0]][0]
        it += [("PUSH_I64", depth), ("STORE_LOCAL", 0),
               ("label", "L")] + wrap_items + [("STORE_LOCAL", 1),
               ("LOAD_LOCAL", 0), ("PUSH_I64", 1), ("SUB",), ("DUP",), ("STORE_LOCAL", 0), ("JMP_TRUE", "L")]
        order = [kinds[0]] * depth
    else:
        if depth % len(kinds):
            raise common.HarnessError("nest depth must be a multiple of the rotation")
        it += [("PUSH_I64", depth // len(kinds)), ("STORE_LOCAL", 0), ("label", "L")]
        for k in kinds:
            it += NEST_KINDS[k][0] + [("STORE_LOCAL", 1)]
        it += [("LOAD_LOCAL", 0), ("PUSH_I64", 1), ("SUB",), ("DUP",), ("STORE_LOCAL", 0), ("JMP_TRUE", "L")]
        order = list(kinds) * (depth // len(kinds))
    printed = all(NEST_KINDS[k][1] is not None for k in kinds)
    if printed:
        it += [("LOAD_LOCAL", 1), ("PRINTLN",)]
    it += [("LOAD_LOCAL", 1), ("LOAD_LOCAL", 1), ("EQ",), ("PRINTLN",),
           ("LOAD_LOCAL", 1), ("CAST_STRING",), ("STR_LEN",), ("PRINTLN",),
           ("PUSH_I64", 1), ("STORE_LOCAL", 1),            # releases the whole nest
           ("PUSH_STR", 1), ("PRINTLN",), ("PUSH_I64", 0), ("RET",)]
    img = asm.module([("main", 0, 2, 0, it)], ["released"])
    if not printed:
        return img, b"true\n0\nreleased\n"
    # model of the printer: containers past the limit print as "..."
    outer_first = order[::-1]
    s_open, s_close = "", ""
    for lvl, k in enumerate(outer_first):
        if lvl >= print_limit:
            s_open += "..."
            break
        s_open += NEST_KINDS[k][1]
        s_close = NEST_KINDS[k][2] + s_close
    else:
        s_open += "7"
    out = s_open + s_close + "\ntrue\n0\nreleased\n"
    return img, out.encode()


# ----------------------------------------------------------------------------- globals / locals
def globals_module(asm, idx, mode):
    if mode == "store":
        it = [("PUSH_I64", 11), ("STORE_GLOBAL", idx), ("LOAD_GLOBAL", idx), ("PRINTLN",), ("PUSH_I64", 0), ("RET",)]
    else:
        it = [("LOAD_GLOBAL", idx), ("PRINTLN",), ("PUSH_I64", 0), ("RET",)]
    return asm.module([("main", 0, 0, 0, it)], [])


def locals_module(asm, nloc, slot, via):
    body = [("PUSH_I64", 13), ("STORE_LOCAL", slot), ("LOAD_LOCAL", slot), ("PRINTLN",), ("PUSH_I64", 0), ("RET",)]
    if via == "main":
        return asm.module([("main", 0, nloc, 0, body)], [])
    call = {"call": [("CALL", 1)], "indirect": [("CLOSURE_NEW", 1, 0), ("CALL_INDIRECT",)], "cclosure": [("CLOSURE_NEW", 1, 0), ("CLOSURE_CALL",)],
            "module": [("CALL_MODULE", 0, 1)]}[via]
    return asm.module([("main", 0, 0, 0, call + [("POP",), ("PUSH_I64", 0), ("RET",)]), ("f", 0, nloc, 0, body)], [])


def many_locals_source(n):
    lets = "".join("    let v%d: int = %d\n" % (i, i) for i in range(n))
    return "fn main() -> int {\n%s    (println (+ v0 v%d))\n    return 0\n}\nshadow main { assert true }\n" % (lets, n - 1)


# ----------------------------------------------------------------------------- fat-frame source recursion
def fat_templates():
    T = []
    a = ("fn hop(n: int, a: int, b: int) -> int {\n    if (== n 0) {\n        return (+ a b)\n    } else {\n"
         "        let x: int = (+ a 1)\n        let y: int = (* b 1)\n        let z: bool = (< x y)\n"
         "        return (+ 1 (hop (- n 1) x (+ y 2)))\n    }\n}\nshadow hop { assert true }\n")

    def ma(D, j):
        n, x, y = D, 3, 4
        r = 0
        while n:
            x, y, r, n = x + 1, y + 2, r + 1, n - 1
        return str(r + x + y + j)
    T.append(("scalars", a, "(hop @D@ 3 4)", ma))
    b = ("struct P {\n    u: int,\n    v: int\n}\n"
         "fn hop(n: int, p: P) -> int {\n    if (== n 0) {\n        return p.u\n    } else {\n"
         "        let arr: array<int> = [n, p.v, 3]\n        let t: (int, int) = (p.u, (at arr 1))\n        let q: P = P { u: (+ t.0 1), v: t.1 }\n"
         "        return (+ 1 (hop (- n 1) q))\n    }\n}\nshadow hop { assert true }\n")

    def mb(D, j):
        return str(D + (10 + D) + j)
    T.append(("containers", b, "(hop @D@ P { u: 10, v: 20 })", mb))
    c = ("fn hop(n: int, s: string, f: float) -> int {\n    if (== n 0) {\n        return (str_length s)\n    } else {\n"
         "        let t: string = (+ s \"ab\")\n        let g: float = (+ f 0.5)\n        let ok: bool = (> g 0.0)\n"
         "        if ok {\n            return (+ 1 (hop (- n 1) t g))\n        } else {\n            return 0\n        }\n    }\n}\nshadow hop { assert true }\n")

    def mc(D, j):
        return str(D + 1 + 2 * D + j)
    T.append(("strings", c, "(hop @D@ \"x\" 1.0)", mc))
    return T


def fat_source(tpl, D, j):
    _n, fns, call, _m = tpl
    e = call.replace("@D@", str(D))
    for _ in range(j):
        e = "(+ 1 %s)" % e
    return fns + "fn main() -> int {\n    let r: int = %s\n    (println r)\n    return 0\n}\nshadow main { assert true }\n" % e


# ----------------------------------------------------------------------------- case construction
def _compile_one(args):
    exe, root, src, out = args
    rc, o, e = common.run([exe, src, "--emit-nvm", "-o", out], timeout=120, cwd=root)
    ok = rc == 0 and os.path.exists(out)
    return (src, out, ok, (o + e).decode(errors="replace")[-600:])


def parse_limits(text):
    m = re.search(r"LIMITS (.*)", text)
    if not m:
        raise common.HarnessError("limits probe output: " + text[:200])
    return {k: int(v) for k, v in (x.split("=") for x in m.group(1).split())}


def print_depth_limit(tree):
    src = open(os.path.join(tree.root, "src/nanovm/value.c"), errors="replace").read()
    m = re.search(r"#define\s+VAL_PRINT_MAX_DEPTH\s+(\d+)", src)
    if not m:
        raise common.HarnessError("VAL_PRINT_MAX_DEPTH not found in value.c")
    return int(m.group(1))


def build_cases(tree, tier, work, optable, lim):
    """Returns (cases, info).  Compiles the source programs with the tree's own nano_virt."""
    sys.setrecursionlimit(max(sys.getrecursionlimit(), 40000))
    asm = Asm(optable)
    L = lim["VM_MAX_FRAMES"]
    cases = []
    srcdir = os.path.join(work, "limsrc")
    os.makedirs(srcdir, exist_ok=True)
    jobs = []        # (src, out)
    pending = []     # closures that create cases once compilation is done

    def want(name, text):
        p = os.path.join(srcdir, name + ".nano")
        with open(p, "w") as f:
            f.write(text)
        o = os.path.join(srcdir, name + ".nvm")
        jobs.append((tree.exe("nano_virt"), tree.root, p, o))
        return p, o

    # ---- depth, source programs: template x pad functions x wrapper x depth (depth patched into the module)
    pads = [0, 1] if tier == "quick" else [0, 1, 2]
    for tpl in src_templates():
        for npad in pads:
            for wrap in (0, 1):
                nm = "d_%s_p%d_w%d" % (tpl[0], npad, wrap)
                text = build_source(tpl, npad, wrap, MARK)
                p, o = want(nm, text)
                dstar = critical_depth(L, lambda D, tpl=tpl, wrap=wrap: model_source(tpl, L, D, wrap)[2])

                def mk(nm=nm, tpl=tpl, wrap=wrap, o=o, p=p, dstar=dstar, text=text):
                    base = open(o, "rb").read()
                    for D in depth_values(dstar, tier):
                        alts, _mx, _ok = model_source(tpl, L, D, wrap)
                        cases.append(Case("%s_D%d" % (nm, D), "depth-src:" + tpl[0], [patch_marker(base, optable, MARK, D)], alts,
                                          note="frames needed: limit%+d" % (D - dstar + 1) if abs(D - dstar) < 9 else "control", src=text.replace(str(MARK), str(D))))
                pending.append(mk)
    for npad in pads:
        nm = "d_ginit_p%d" % npad
        text = ginit_source(npad, MARK)
        p, o = want(nm, text)
        dstar = critical_depth(L, lambda D: model_ginit(L, D)[2])

        def mkg(nm=nm, o=o, dstar=dstar, text=text):
            base = open(o, "rb").read()
            for D in depth_values(dstar, tier):
                alts, _mx, _ok = model_ginit(L, D)
                cases.append(Case("%s_D%d" % (nm, D), "depth-src:ginit", [patch_marker(base, optable, MARK, D)], alts, src=text.replace(str(MARK), str(D))))
        pending.append(mkg)

    # ---- depth, hand-built: ordered pairs of call kinds x layouts x wrapper x depth
    layouts = [["main", "hopA", "hopB", "w"], ["hopA", "hopB", "w", "main"], ["pad", "hopB", "main", "w", "hopA"]]
    kinds = CALL_KINDS
    pairs = [(a, b) for a in kinds for b in kinds] if tier == "thorough" else ([(a, a) for a in kinds] + [(a, b) for a in kinds for b in kinds if a != b and (kinds.index(a) + kinds.index(b)) % 2 == 1])
    for (ka, kb) in pairs:
        for li, lay in enumerate(layouts):
            if tier == "quick" and ka != kb and li != (kinds.index(ka) % 3):
                continue
            for wrap in (0, 1):
                dstar = critical_depth(L, lambda D, wrap=wrap: model_hand_depth(L, D, wrap)[1])
                for D in depth_values(dstar, tier):
                    alts, _ok = model_hand_depth(L, D, wrap)
                    img = hand_depth_module(asm, lay, ka, kb, D, wrap)
                    fl = "S" if "module_self" in (ka, kb) else "-"
                    cases.append(Case("h_%s_%s_l%d_w%d_D%d" % (ka, kb, li, wrap, D), "depth-hand:%s>%s" % (ka, kb), [img], alts, flags=fl, tool=(fl == "-")))
    # the limit reached inside __init__, and host re-entry with limit-2 .. limit live frames
    for ka in kinds:
        lay = ["__init__", "main", "hopA", "hopB", "w"]
        dstar = critical_depth(L, lambda D: model_hand_depth(L, D, 0, in_init=True)[1])
        for D in depth_values(dstar, tier):
            alts, _ok = model_hand_depth(L, D, 0, in_init=True)
            fl = "S" if ka == "module_self" else "-"
            cases.append(Case("h_init_%s_D%d" % (ka, D), "depth-hand:init:" + ka, [hand_depth_module(asm, lay, ka, ka, D, 0, in_init=True)], alts, flags=fl, tool=(fl == "-")))
        for k in (L - 2, L - 1, L, L + 1):
            D = k - 2
            alts, _ok = model_hand_depth(L, D, 0, leaf="assert")
            for a in alts:
                a["re_res"] = ERR_CALL_DEPTH
                a["re_msg"] = DEPTH_MSG
            fl = "RS" if ka == "module_self" else "R"
            cases.append(Case("h_reenter_%s_k%d" % (ka, k), "depth-hand:reenter:" + ka,
                              [hand_depth_module(asm, ["main", "hopA", "hopB"], ka, ka, D, 0, leaf="assert")], alts, flags=fl, tool=False,
                              note="first run ends with %d live frames, then vm_call_function(main) again" % min(k, L)))
    # two modules calling each other
    for wrap in (0, 1):
        def pp_model(D, wrap=wrap):
            return model_hand_depth(L, D, wrap)
        dstar = critical_depth(L, lambda D: pp_model(D)[1])
        for D in depth_values(dstar, tier):
            alts, _ok = pp_model(D)
            a, b = pingpong_modules(asm, D, wrap)
            cases.append(Case("h_pingpong_w%d_D%d" % (wrap, D), "depth-hand:module_pingpong", [a, b], alts, flags="S", tool=False))

    # ---- operand stack reallocation
    cap0 = lim["VM_STACK_INITIAL"]
    caps = [cap0, cap0 * 2] if tier == "quick" else [cap0 << i for i in range(0, 5)]
    ps = pushers(1, 4)
    for cap in caps:
        for pu in ps:
            for F in (cap - 2, cap - 1, cap, cap + 1):
                for cl in ((0, 1, 3) if pu[0] in ("CALL", "CALL_INDIRECT", "CLOSURE_CALL", "CALL_MODULE", "CLOSURE_NEW") else (0,)):
                    img, out = stack_module(asm, pu, F, callee_locals=cl)
                    alts = [alt_ok(out)] if pu[0] != "implicit_return" else [{"st": "ok", "res": VM_OK}]
                    fl = "S" if pu[0] == "CALL_MODULE" else "-"
                    cases.append(Case("s_%s_c%d_F%d_l%d" % (pu[0], cap, F, cl), "stack:" + pu[0], [img], alts, flags=fl, tool=(fl == "-" and pu[0] != "implicit_return"),
                                      note="stack holds %d values (capacity %d) when the instruction runs" % (F, cap)))
    # callee local_count at the u16 boundaries through every call kind (reservation loop crosses several doublings)
    for nloc in (1, 255, 256, 257, cap0 - 1, cap0, cap0 + 1, 65534, 65535):
        for via in ("main", "call", "indirect", "cclosure", "module"):
            for slot in (nloc - 1, nloc):
                if slot > 65535:
                    continue
                img = locals_module(asm, nloc, slot, via)
                if slot < nloc:
                    alts = [alt_ok(b"13\n")]
                else:
                    alts = [{"st": "noverify"}, {"st": "ok"}]      # refusing is the verifier's job; if it accepts, any reported result
                cases.append(Case("l_n%d_s%d_%s" % (nloc, slot, via), "locals:" + via, [img], alts, flags=("S" if via == "module" else "-"), tool=(via != "module")))
    # ---- globals
    G = lim["VM_MAX_GLOBALS"]
    for idx in (0, 1, G - 2, G - 1, G, G + 1, 0x7FFFFFFF, 0xFFFFFFFF):
        for mode in ("store", "load"):
            if idx < G:
                alts = [alt_ok(b"11\n" if mode == "store" else b"void\n")]
            else:
                alts = [alt_err(ERR_OOB, "Global %d out of range" % idx, b"")]
            cases.append(Case("g_%s_%d" % (mode, idx), "globals", [globals_module(asm, idx, mode)], alts))
    # ---- nesting depth around the printer's limit
    PL = print_depth_limit(tree)
    # ... and a ladder of depths far beyond it (no declared limit: building, comparing and releasing must still work)
    depths = [1, 2, PL - 2, PL - 1, PL, PL + 1, PL + 2, 3 * PL, 1000, 10000, 100000] + ([1000000] if tier == "thorough" else [])
    for kind in NEST_KINDS:
        for d in depths:
            img, out = nest_module(asm, [kind], d, PL)
            cases.append(Case("n_%s_%d" % (kind, d), "nest:" + kind, [img], [alt_ok(out)], tool=(d <= 100000),
                              note="value nested %d deep" % d))
    ks = list(PRINTED_KINDS)
    for r in range(4):
        rot = ks[r:] + ks[:r]
        for d in (PL - 4, PL, PL + 4, 4 * PL):
            img, out = nest_module(asm, rot, d, PL)
            cases.append(Case("n_rot%d_%d" % (r, d), "nest:rotation", [img], [alt_ok(out)]))

    # ---- source: fat frames x alignment phase; many locals
    phases = range(0, 16) if tier == "quick" else range(0, 40)
    Dfat = L - 24
    for tpl in fat_templates():
        for j in phases:
            nm = "f_%s_j%d" % (tpl[0], j)
            text = fat_source(tpl, Dfat, j)
            p, o = want(nm, text)

            def mkf(nm=nm, tpl=tpl, j=j, o=o, text=text):
                cases.append(Case(nm, "stack-src:" + tpl[0], [open(o, "rb").read()], [alt_ok((tpl[3](Dfat, j) + "\n").encode())], src=text,
                                  note="recursion depth %d with %d pending operands in main" % (Dfat, j)))
            pending.append(mkf)
    optional = {}
    for n in (254, 255, 256, 257):
        nm = "m_locals_%d" % n
        text = many_locals_source(n)
        p, o = want(nm, text)
        optional[o] = True

        def mkl(nm=nm, n=n, o=o, text=text):
            if os.path.exists(o):
                cases.append(Case(nm, "locals-src", [open(o, "rb").read()], [alt_ok(("%d\n" % (n - 1)).encode())], src=text))
        pending.append(mkl)

    res = common.pmap(_compile_one, jobs)
    refused = 0
    for (src, out, ok, msg) in res:
        if not ok:
            if out in optional:
                refused += 1      # the compiler may refuse a function with too many locals (not C13's business)
                continue
            raise common.HarnessError("limit-family program does not compile: %s\n%s" % (src, msg))
    for mk in pending:
        mk()
    return cases, {"print_limit": PL, "compiled_sources": len(jobs), "compiler_refused_many_locals": refused}


# ----------------------------------------------------------------------------- running + judging
ASAN_ENV = {"ASAN_OPTIONS": "detect_leaks=0:allocator_may_return_null=1:max_allocation_size_mb=1024:hard_rss_limit_mb=3000:handle_abort=1:exitcode=86",
            "UBSAN_OPTIONS": "print_stacktrace=1:halt_on_error=1:exitcode=86"}


def _run_lim_chunk(args):
    probe, fuel, listfile, lo, hi = args
    rc, out, err = common.run([probe, "run", str(fuel), listfile, str(lo), str(hi)], timeout=1800, envx=ASAN_ENV)
    return (lo, hi, rc, out.decode(errors="replace"), err.decode(errors="replace")[-2000:])


def _run_tool(args):
    exe, path = args
    rc, out, err = common.run([exe, path], timeout=60, envx=ASAN_ENV)
    return (path, rc, out[:1 << 20], err.decode(errors="replace")[:20000])


def parse_case_lines(text):
    recs = {}
    for l in text.splitlines():
        if not l.startswith("CASE "):
            continue
        p = l.split()
        idx = int(p[1])
        kv = {}
        for x in p[2:]:
            if "=" in x:
                k, v = x.split("=", 1)
                kv[k] = v
        if idx in recs and kv.get("st") != "crash":
            continue
        if kv.get("st") == "crash" or idx not in recs:
            recs[idx] = kv
    return recs


def unhex(h):
    if h in (None, "-", ""):
        return b""
    try:
        return bytes.fromhex(h)
    except ValueError:
        return b"<bad hex>"


def judge(case, rec):
    """None when some alternative of the model matches; otherwise a short class + detail."""
    st = rec.get("st")
    if st == "crash":
        err = unhex(rec.get("err")).decode(errors="replace")
        kind = "signal=" + rec["signal"] if "signal" in rec else "exit=" + rec.get("exit", "?")
        m = re.search(r"ERROR: AddressSanitizer: ([A-Za-z0-9_-]+)", err)
        if m:
            kind = "asan:" + m.group(1)
        else:
            m = re.search(r"runtime error: ([^\n]*)", err)
            if m:
                kind = "ubsan:" + re.sub(r"-?\d[\d.e+]*", "N", m.group(1)).strip()[:70]
        if rec.get("signal") == "14":
            kind = "timeout"
        return ("crash %s phase=%s" % (kind, rec.get("phase")), err[-3000:])
    if st == "ok" and rec.get("inv", "-") != "-":
        return ("state invariant broken: " + re.sub(r"\d+", "N", rec["inv"]), rec["inv"])
    if st == "ok" and rec.get("re_inv", "-") != "-":
        return ("state invariant broken on re-entry: " + re.sub(r"\d+", "N", rec["re_inv"]), rec["re_inv"])
    why = []
    for alt in case.alts:
        if alt.get("st", "ok") != st:
            why.append("st %s != %s" % (st, alt.get("st", "ok")))
            continue
        if st != "ok":
            return None
        bad = None
        msg = unhex(rec.get("msg")).decode(errors="replace")
        if rec.get("fuelout") == "1":
            bad = "instruction budget exhausted"
        elif "res" in alt and int(rec["res"]) != alt["res"]:
            bad = "result %s (%s) instead of %d" % (rec["res"], msg, alt["res"])
        elif "msg" in alt and alt["msg"] not in msg:
            bad = "error text '%s' instead of '%s'" % (msg, alt["msg"])
        elif "out" in alt and unhex(rec.get("out")) != alt["out"]:
            bad = "output differs from the model"
        elif "maxframes" in alt and int(rec["maxframes"]) != alt["maxframes"]:
            bad = "peak frame count %s, model %d" % (rec["maxframes"], alt["maxframes"])
        elif "frames_left" in alt and int(rec["frames_left"]) != alt["frames_left"]:
            bad = "frames left %s, model %d" % (rec["frames_left"], alt["frames_left"])
        elif "re_res" in alt and ("re_res" not in rec or int(rec["re_res"]) != alt["re_res"] or alt["re_msg"] not in unhex(rec.get("re_msg")).decode(errors="replace")):
            bad = "re-entry result %s instead of %d" % (rec.get("re_res"), alt["re_res"])
        if bad is None:
            return None
        why.append(bad)
    cls = re.sub(r"-?\d+", "N", why[0])[:90]
    return (cls, "; ".join(why) + "\nmodel: %r\nobserved: out=%r" % ([{k: (v if k != "out" else v[:200]) for k, v in a.items()} for a in case.alts], unhex(rec.get("out"))[:400]))


def judge_tool(case, rc, out, err):
    if "hard rss limit" in err or "failed to allocate" in err or rc == "timeout":
        return ("nano_vm: hang or unbounded memory growth", "rc=%s\n%s" % (rc, err[-1500:]))
    if "ERROR: AddressSanitizer" in err or ": runtime error: " in err or rc == 86:
        return ("nano_vm: sanitizer report", err[-3000:])
    if isinstance(rc, int) and rc < 0:
        return ("nano_vm: killed by signal %d" % -rc, err[-1000:])
    why = []
    for alt in case.alts:
        if alt.get("st", "ok") == "noverify":
            if "Bytecode verification failed" in err and rc == 1 and out == b"":
                return None
            why.append("not refused")
            continue
        if "out" in alt and out != alt["out"]:
            why.append("nano_vm: output differs from the model")
            continue
        if alt.get("res", 0) == VM_OK:
            if rc == 0 and "Runtime error" not in err:
                return None
            why.append("nano_vm: exit %s, stderr %r" % (rc, err[:120]))
        else:
            if rc == 1 and "Runtime error" in err and alt.get("msg", "") in err:
                return None
            why.append("nano_vm: exit %s, stderr %r instead of the reported error '%s'" % (rc, err[:160], alt.get("msg")))
    return (re.sub(r"-?\d+", "N", why[0])[:90], "; ".join(why))


def run_limits(rep, tree, tier, work, optable):
    """Builds the limit probe (VM sources recompiled with -fsanitize=address,undefined,bounds), runs
    every case, reports violations and coverage.  Returns the coverage dict."""
    RE = ["src/nanovm/vm.c", "src/nanovm/heap.c", "src/nanovm/value.c", "src/nanoisa/verifier.c", "src/nanoisa/isa.c", "src/nanoisa/nvm_format.c"]
    skip = set(os.path.join(tree.root, "obj", s[4:-2] + ".o") for s in RE)
    objs = [o for o in tree.objects() if o not in skip]
    if len(objs) != len(tree.objects()) - len(RE):
        raise common.HarnessError("limit probe: VM objects not found in the tree")
    probe = tree.build_probe(os.path.join(common.VERIF, "vf/probes/c13_lim_probe.c"), "c13_lim_probe", extra_objs=objs,
                             extra_flags=["-fsanitize=bounds"] + RE, with_tree_objs=False)
    rc, o, e = common.run([probe, "limits"], envx=ASAN_ENV)
    lim = parse_limits(o.decode())
    cases, info = build_cases(tree, tier, work, optable, lim)
    d = os.path.join(work, "lim")
    os.makedirs(d, exist_ok=True)
    lines = []
    for i, c in enumerate(cases):
        paths = []
        for k, img in enumerate(c.images):
            p = os.path.join(d, "%05d_%d.nvm" % (i, k))
            with open(p, "wb") as f:
                f.write(img)
            paths.append(p)
        lines.append("%s %s" % (c.flags, ",".join(paths)))
    listfile = os.path.join(d, "cases.txt")
    with open(listfile, "w") as f:
        f.write("\n".join(lines) + "\n")
    fuel = 20000000
    n = len(cases)
    step = max(4, min(64, (n + 4 * common.NCPU - 1) // (4 * common.NCPU)))
    recs = {}
    for (lo, hi, rc, out, err) in common.pimap(_run_lim_chunk, [(probe, fuel, listfile, lo, min(n, lo + step)) for lo in range(0, n, step)]):
        if rc != 0 or ("DONE %d" % (hi - lo)) not in out:
            raise common.HarnessError("limit probe failed rc=%s [%d,%d): %s %s" % (rc, lo, hi, out[-300:], err))
        got = parse_case_lines(out)
        for i in range(lo, hi):
            if i not in got:
                raise common.HarnessError("limit probe printed nothing for case %d (%s)" % (i, cases[i].name))
            recs[i] = got[i]
    # the real nano_vm binary on every single-module case the probe run found nothing wrong with
    judged = {i: judge(c, recs[i]) for i, c in enumerate(cases)}
    tool_jobs = [(tree.exe("nano_vm"), os.path.join(d, "%05d_0.nvm" % i)) for i, c in enumerate(cases)
                 if c.tool and len(c.images) == 1 and c.flags == "-" and not judged[i]]
    tool_res = {}
    for (path, rc, out, err) in common.pmap(_run_tool, tool_jobs):
        tool_res[int(os.path.basename(path)[:5])] = (rc, out, err)

    if os.environ.get("C13LIM_DUMP"):
        with open(os.environ["C13LIM_DUMP"], "w") as f:
            for i, c in enumerate(cases):
                f.write("%s %s %s tool=%s\n" % (c.name, c.family, recs[i], tool_res.get(i, ("-",))[0]))
    problems = {}     # (family group, class) -> [(i, detail, how)]
    for i, c in enumerate(cases):
        j = judged[i]
        if j:
            problems.setdefault((c.family.split(":")[0], j[0]), []).append((i, j[1], "probe"))
        if i in tool_res:
            jt = judge_tool(c, *tool_res[i])
            if jt:
                problems.setdefault((c.family.split(":")[0], jt[0]), []).append((i, jt[1], "nano_vm"))
    for (fam, cls), items in sorted(problems.items()):
        i, detail, how = items[0]
        c = cases[i]
        # reproducibility: the first element alone, twice
        again = []
        for _ in range(2):
            if how == "probe":
                _lo, _hi, rc2, out2, _e2 = _run_lim_chunk((probe, fuel, listfile, i, i + 1))
                j2 = judge(c, parse_case_lines(out2).get(i, {"st": "missing"}))
            else:
                _p, rc2, out2, err2 = _run_tool((tree.exe("nano_vm"), os.path.join(d, "%05d_0.nvm" % i)))
                j2 = judge_tool(c, rc2, out2, err2)
            again.append(j2[0] if j2 else None)
        if again == [None, None]:
            rep.count("limit_nonreproducible")
            continue
        if None in again:
            raise common.HarnessError("limit case %s misbehaves only sometimes when replayed alone: %s vs %s" % (c.name, cls, again))
        if again != [cls, cls]:
            detail += "\n(replayed alone twice it misbehaved again, as: %s)" % again
        files = {"case.txt": "%s\nfamily: %s\nflags: %s\nnote: %s\nobserved through: %s\nprobe line: %s\n\n%s\n" % (c.name, c.family, c.flags, c.note, how, recs[i], detail),
                 "cases.txt": "\n".join("%s (%s)" % (cases[k].name, h) for k, _d, h in items[:300]) + "\n"}
        for k, img in enumerate(c.images):
            files["module_%d.nvm" % k] = img
        if c.src:
            files["program.nano"] = c.src
        rep.violation("c13lim:%s:%s" % (fam, cls), files,
                      "limit family %s: %s  (%d cases; first: %s%s)" % (fam, cls, len(items), c.name, (" - " + c.note) if c.note else ""),
                      "# c13_lim_probe run %d <list with one line: '%s module_0.nvm[,module_1.nvm]'> 0 1   (or: nano_vm module_0.nvm)" % (fuel, c.flags))

    # ---- coverage + vacuity guards
    fams = {}
    for c in cases:
        fams[c.family.split(":")[0]] = fams.get(c.family.split(":")[0], 0) + 1
    inv = {v[0]: k for k, v in optable.items()}
    name_of = {k: v[0] for k, v in optable.items()}
    depth_err_ops, depth_err_src, grow_ops, at_limit, completed = set(), set(), set(), 0, 0
    for i, c in enumerate(cases):
        r = recs[i]
        if r.get("st") != "ok":
            continue
        if int(r["res"]) == ERR_CALL_DEPTH:
            depth_err_ops.add(name_of.get(int(r["lastop"]), r["lastop"]))
            if c.family.startswith("depth-src"):
                depth_err_src.add(name_of.get(int(r["lastop"]), r["lastop"]))
        if int(r["res"]) == VM_OK:
            completed += 1
        if int(r["maxframes"]) == lim["VM_MAX_FRAMES"]:
            at_limit += 1
        if r.get("grow", "-") != "-" and c.family.startswith("stack"):
            for g in r["grow"].split(","):
                grow_ops.add(name_of.get(int(g.split(":")[0]), g.split(":")[0]))
    cov = {"limit_cases": n, "limit_cases_by_family": fams, "limit_cases_through_nano_vm": len(tool_jobs),
           "limit_runs_completed": completed, "limit_runs_with_all_frames_in_use": at_limit,
           "limit_depth_error_raised_by": sorted(depth_err_ops), "limit_depth_error_raised_by_compiled_programs": sorted(depth_err_src), "limit_stack_realloc_inside": sorted(grow_ops),
           "limit_values": lim, "limit_problem_classes": len(problems)}
    cov.update({"limit_" + k: v for k, v in info.items()})
    if not problems:
        need_depth = {"CALL", "CALL_INDIRECT", "CLOSURE_CALL", "CALL_MODULE"}
        if not need_depth <= depth_err_ops:
            raise common.HarnessError("vacuous limit family: depth error never raised by %s" % sorted(need_depth - depth_err_ops))
        if not {"CALL", "CALL_INDIRECT"} <= depth_err_src:
            raise common.HarnessError("vacuous limit family: compiled programs raised the depth error only through %s" % sorted(depth_err_src))
        need_grow = {"PUSH_I64", "PUSH_F64", "PUSH_BOOL", "PUSH_STR", "PUSH_VOID", "PUSH_U8", "DUP", "LOAD_LOCAL", "LOAD_GLOBAL", "LOAD_UPVALUE",
                     "ARR_NEW", "HM_NEW", "STRUCT_NEW", "ARR_LITERAL", "STRUCT_LITERAL", "UNION_CONSTRUCT", "ENUM_VAL", "TUPLE_NEW", "OPAQUE_NULL",
                     "CLOSURE_NEW", "ARR_POP", "CALL", "CALL_INDIRECT", "CLOSURE_CALL", "CALL_MODULE", "RET"}
        if not need_grow <= grow_ops:
            raise common.HarnessError("vacuous limit family: stack never reallocated inside %s" % sorted(need_grow - grow_ops))
        if n < 1500 or at_limit < 300 or completed < 600 or completed == n:
            raise common.HarnessError("vacuous limit family: %d cases, %d at the frame limit, %d completed" % (n, at_limit, completed))
    samples = []
    for want_f in ("depth-src", "depth-hand", "stack", "nest"):
        for c in cases:
            # for the depth families show an element that sits exactly one frame over the limit
            if c.family.startswith(want_f) and (not want_f.startswith("depth") or c.note == "frames needed: limit+1" or (want_f == "depth-hand" and c.alts[0].get("res") == ERR_CALL_DEPTH)):
                samples.append({"limit_case": c.name, "family": c.family, "model": {k: (v if not isinstance(v, bytes) else v[:40].decode(errors="replace")) for k, v in c.alts[0].items()}})
                break
    return cov, samples
