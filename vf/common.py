"""Shared machinery for the nanolang bounded-exhaustive checks (DESIGN.md section 2).

Everything a check needs that is not specific to one property: a private scratch
directory that is removed on exit, a from-scratch build of /repo's *current working tree*
into that scratch directory (plain / asan / tsan variants, guard define on), probe
compilation against the tree's objects, the evidence writer, the known-findings loader,
violation artefacts, and a small process pool helper.
"""
import atexit
import hashlib
import json
import os
import shutil
import signal
import subprocess
import sys
import tempfile
import time

VERIF = os.path.dirname(os.path.dirname(os.path.abspath(__file__)))
REPO = os.environ.get("VERIF_REPO", "/repo")
# where evidence/ and replays/ are written; only mutant trials (tools/try_mutant.sh) point this elsewhere
OUT = os.environ.get("VERIF_OUT", VERIF)
GUARD = "NANOLANG_VERIF"
NCPU = int(os.environ.get("VERIF_JOBS", str(os.cpu_count() or 4)))

BASE_CFLAGS = "-Wall -Wextra -Werror -std=c99 -g -Isrc -D_GNU_SOURCE -D%s" % GUARD
SAN_CFLAGS = ("-Wall -Wextra -std=c99 -g -O1 -Isrc -D_GNU_SOURCE -D%s "
              "-fsanitize=address,undefined -fno-omit-frame-pointer "
              "-fno-sanitize-recover=undefined" % GUARD)
TSAN_CFLAGS = ("-Wall -Wextra -std=c99 -g -O1 -Isrc -D_GNU_SOURCE -D%s "
               "-fsanitize=thread -fno-omit-frame-pointer" % GUARD)

CLEAN_ENV = {
    "PATH": "/usr/local/sbin:/usr/local/bin:/usr/sbin:/usr/bin:/sbin:/bin",
    "LC_ALL": "C", "LANG": "C", "TZ": "UTC", "HOME": "/nonexistent",
    "ASAN_OPTIONS": "detect_leaks=0", "UBSAN_OPTIONS": "print_stacktrace=1",
}


class HarnessError(Exception):
    """Something is wrong with the machinery (never reported as a VIOLATION)."""


# --------------------------------------------------------------------------- scratch
_scratch = None
_scratch_owner = None


def scratch():
    """Private scratch dir outside /repo and /verif, removed at exit."""
    global _scratch
    if _scratch is None:
        base = os.environ.get("VERIF_SCRATCH", "/var/tmp")
        os.makedirs(base, exist_ok=True)
        _scratch = tempfile.mkdtemp(prefix="nlverif.", dir=base)
        global _scratch_owner
        _scratch_owner = os.getpid()
        atexit.register(_cleanup)
        for s in (signal.SIGTERM, signal.SIGINT, signal.SIGHUP):
            signal.signal(s, _sig)
    return _scratch


_CHILDREN = set()      # process groups started by run() in THIS process and still running


def _kill_children():
    for pid in list(_CHILDREN):
        try:
            os.killpg(pid, signal.SIGKILL)
        except (ProcessLookupError, PermissionError):
            pass


def _sig(signo, _frm):
    _kill_children()    # a pool worker that is terminated must not leave its probe (and what that forked) running
    _cleanup()          # no-op in forked pool workers (only the owner removes the scratch dir)
    os._exit(128 + signo)


def _cleanup():
    global _scratch
    if _scratch_owner != os.getpid():
        return
    if _scratch and os.path.isdir(_scratch) and not os.environ.get("VERIF_KEEP"):
        shutil.rmtree(_scratch, ignore_errors=True)
    _scratch = None


def env(extra=None, tmp=None):
    e = dict(CLEAN_ENV)
    e["TMPDIR"] = tmp or os.path.join(scratch(), "tmp")
    os.makedirs(e["TMPDIR"], exist_ok=True)
    if extra:
        e.update(extra)
    return e


# --------------------------------------------------------------------------- build
class Tree:
    """A scratch copy of /repo's working tree built with one flag variant."""

    def __init__(self, root, variant):
        self.root = root
        self.variant = variant
        self.bin = os.path.join(root, "bin")

    def exe(self, name):
        return os.path.join(self.bin, name)

    def cc_cmd(self):
        if self.variant == "plain":
            return ["cc"] + BASE_CFLAGS.split()
        if self.variant == "asan":
            return ["clang"] + SAN_CFLAGS.split()
        if self.variant == "tsan":
            return ["clang"] + TSAN_CFLAGS.split()
        raise HarnessError(self.variant)

    def link_flags(self):
        return {"plain": ["-lm", "-rdynamic"],
                "asan": ["-lm", "-rdynamic", "-fsanitize=address,undefined"],
                "tsan": ["-lm", "-rdynamic", "-fsanitize=thread", "-lpthread"]}[self.variant]

    def objects(self, with_nanovirt=True):
        """Objects exactly as tests/nanovirt/test_codegen.c is linked."""
        out = []
        skip = {"main.o", "vmd_main.o", "cop_main.o", "vmd_client.o", "vmd_server.o",
                "vmd_protocol.o", "ffi_bindgen.o", "main_stage1_5.o", "lexer_bridge.o",
                "lexer_nano.o"}
        for d, _dn, fs in os.walk(os.path.join(self.root, "obj")):
            for f in sorted(fs):
                if not f.endswith(".o") or f in skip:
                    continue
                if not with_nanovirt and os.path.basename(d) == "nanovirt":
                    continue
                out.append(os.path.join(d, f))
        return sorted(out)

    def build_probe(self, src, out_name, extra_objs=(), extra_flags=(), with_tree_objs=True):
        out = os.path.join(self.root, "bin", out_name)
        cmd = self.cc_cmd() + ["-Wno-unused-function", "-Wno-unused-parameter",
                               "-I" + os.path.join(self.root, "src"),
                               "-I" + os.path.join(self.root, "src/nanoisa"),
                               "-I" + os.path.join(self.root, "src/nanovm"),
                               "-I" + os.path.join(self.root, "src/nanovirt"),
                               "-I" + os.path.join(VERIF, "vf/probes"),
                               "-o", out, src]
        cmd = [c for c in cmd if c != "-Werror"]
        cmd += list(extra_flags)
        if with_tree_objs:
            cmd += self.objects()
        cmd += list(extra_objs) + self.link_flags()
        r = subprocess.run(cmd, cwd=self.root, capture_output=True, text=True)
        if r.returncode != 0:
            raise HarnessError("probe build failed: %s\n%s" % (" ".join(cmd[:12]), r.stderr[-4000:]))
        return out


def build_tree(variant="plain", targets=("vm", "bin/nanoc_c"), name=None):
    """rsync /repo (working tree, not HEAD) into scratch and build it from nothing."""
    t0 = time.time()
    root = os.path.join(scratch(), name or ("tree-" + variant))
    if os.path.isdir(root):
        shutil.rmtree(root)
    r = subprocess.run(["rsync", "-a", "--exclude", ".git", "--exclude", "/bin", "--exclude", "/obj",
                        "--exclude", "/build", "--exclude", "/coverage", REPO + "/", root + "/"],
                       capture_output=True, text=True)
    if r.returncode != 0:
        raise HarnessError("rsync failed: " + r.stderr)
    args = ["make", "-f", "Makefile.gnu", "-j%d" % NCPU] + list(targets)
    if variant == "plain":
        args += ["CFLAGS=" + BASE_CFLAGS]
    elif variant == "asan":
        args += ["CC=clang", "CFLAGS=" + SAN_CFLAGS, "LDFLAGS=-lm -rdynamic -fsanitize=address,undefined"]
    elif variant == "tsan":
        args += ["CC=clang", "CFLAGS=" + TSAN_CFLAGS, "LDFLAGS=-lm -rdynamic -fsanitize=thread"]
    else:
        raise HarnessError("unknown variant " + variant)
    e = dict(os.environ)
    e.update({"LC_ALL": "C", "ASAN_OPTIONS": "detect_leaks=0"})
    r = subprocess.run(args, cwd=root, capture_output=True, text=True, env=e)
    if r.returncode != 0:
        # A tree that does not build is not a property violation; it is outside the
        # contract (mutants must compile).  Report as harness error.
        raise HarnessError("build of /repo working tree failed (%s):\n%s" % (variant, (r.stdout + r.stderr)[-6000:]))
    log("built %s tree in %.1fs" % (variant, time.time() - t0))
    return Tree(root, variant)


# --------------------------------------------------------------------------- logging
def log(msg):
    sys.stderr.write("[vf] %s\n" % msg)
    sys.stderr.flush()


def sha(b):
    if isinstance(b, str):
        b = b.encode()
    return hashlib.sha256(b).hexdigest()


# --------------------------------------------------------------------------- findings
def load_findings(prop):
    """Open known findings for one property (committed file; never written at run time)."""
    p = os.path.join(VERIF, "known_findings.json")
    if not os.path.exists(p):
        return []
    with open(p) as f:
        data = json.load(f)
    return [x for x in data.get("open", []) if x.get("property") == prop]


# --------------------------------------------------------------------------- reporting
class Report:
    """Collects counters, violations and known-finding matches for one check run."""

    def __init__(self, prop, tier, level="model_checking"):
        self.prop = prop
        self.tier = tier
        self.level = level
        self.t0 = time.time()
        self.seed = int(os.environ.get("VERIF_SEED", "0") or 0)
        self.coverage = {"samples": []}
        self.assumptions = []
        self.violations = []     # (key, replay_path)
        self.known = {}          # finding id -> count
        self.known_text = {}
        self.exhaustive = True
        self.deadline = None
        self._seen_viol = set()

    # deadline handling: a global budget ends the run with exhaustive:false, never a verdict
    def set_deadline(self, seconds):
        self.deadline = self.t0 + seconds

    def out_of_time(self):
        if self.deadline and time.time() > self.deadline:
            self.exhaustive = False
            return True
        return False

    def sample(self, s, cap=8):
        if len(self.coverage["samples"]) < cap:
            self.coverage["samples"].append(s)

    def count(self, key, n=1):
        self.coverage[key] = self.coverage.get(key, 0) + n

    def known_finding(self, fid, text):
        self.known[fid] = self.known.get(fid, 0) + 1
        self.known_text[fid] = text

    def violation(self, key, files, summary, replay_sh=None):
        """Write a replay artefact and remember the violation. `files` maps name -> bytes/str."""
        h = sha(key)[:16]
        if h in self._seen_viol:
            return None
        self._seen_viol.add(h)
        d = os.path.join(OUT, "replays", self.prop, h)
        os.makedirs(d, exist_ok=True)
        for name, content in files.items():
            mode = "wb" if isinstance(content, (bytes, bytearray)) else "w"
            with open(os.path.join(d, name), mode) as f:
                f.write(content)
        with open(os.path.join(d, "SUMMARY.txt"), "w") as f:
            f.write(summary + "\n")
        if replay_sh:
            p = os.path.join(d, "replay.sh")
            with open(p, "w") as f:
                f.write("#!/bin/sh\n# replays this one element against a fresh build of /repo\n" + replay_sh + "\n")
            os.chmod(p, 0o755)
        self.violations.append((key, d, summary))
        return d

    def finish(self):
        cov = self.coverage
        cov["exhaustive"] = bool(self.exhaustive and cov.get("exhaustive", True))
        if self.level == "model_checking":
            for k in ("states", "transitions", "traces_validated_against_impl"):
                cov.setdefault(k, 0)
        else:
            for k in ("evaluations", "distinct_nontrivial"):
                cov.setdefault(k, 0)
            cov.setdefault("rule", "")
        if not cov["samples"]:
            cov["samples"].append("(no sample recorded)")
        cov["known_findings_matched"] = dict(self.known)
        ev = {"property_id": self.prop, "tier": self.tier, "seed": self.seed, "level": self.level,
              "coverage": cov, "assumptions": self.assumptions,
              "wall_s": round(time.time() - self.t0, 2), "violations": len(self.violations)}
        os.makedirs(os.path.join(OUT, "evidence"), exist_ok=True)
        path = os.path.join(OUT, "evidence", self.prop + ".json")
        tmp = path + ".tmp"
        with open(tmp, "w") as f:
            json.dump(ev, f, indent=1, sort_keys=True, default=str)
            f.write("\n")
        os.replace(tmp, path)
        for fid in sorted(self.known):
            print("KNOWN-FINDING: property=%s %s [%s, %d element(s)]" % (self.prop, self.known_text[fid], fid, self.known[fid]))
        shown = 0
        for _k, d, summary in self.violations:
            if shown < 40:
                print("VIOLATION property=%s replay=%s  # %s" % (self.prop, d, summary.splitlines()[0][:200]))
            shown += 1
        if shown > 40:
            print("... %d further violations (artefacts under replays/%s)" % (shown - 40, self.prop))
        print("%s %s: %s; wall %.1fs; exhaustive=%s; violations=%d" % (
            self.prop, self.tier,
            ", ".join("%s=%s" % (k, cov[k]) for k in sorted(cov) if isinstance(cov[k], int) and not isinstance(cov[k], bool)),
            time.time() - self.t0, cov["exhaustive"], len(self.violations)))
        sys.stdout.flush()
        return 1 if self.violations else 0


# --------------------------------------------------------------------------- processes
def run(cmd, input=None, timeout=20, cwd=None, envx=None, tmp=None):
    """Run a command in a scrubbed environment. Returns (rc, stdout_bytes, stderr_bytes).
    rc < 0 is -signal; rc == 'timeout' on timeout (process group killed)."""
    p = subprocess.Popen(cmd, stdin=subprocess.PIPE if input is not None else subprocess.DEVNULL,
                         stdout=subprocess.PIPE, stderr=subprocess.PIPE, cwd=cwd,
                         env=env(envx, tmp), start_new_session=True)
    _CHILDREN.add(p.pid)        # its own session: killed by hand when this process is told to stop (see _sig)
    try:
        o, e = p.communicate(input, timeout=timeout)
        return p.returncode, o, e
    except subprocess.TimeoutExpired:
        try:
            os.killpg(p.pid, signal.SIGKILL)
        except ProcessLookupError:
            pass
        o, e = p.communicate()
        return "timeout", o, e
    finally:
        _CHILDREN.discard(p.pid)


def _pool_pids(pool):
    return set(w.pid for w in getattr(pool, "_pool", []) if w is not None)


def _check_workers(pool, pids0):
    """multiprocessing.Pool silently replaces a worker that died (OOM killer, a crash inside the worker) and the task it
    was running is lost: map()/imap() then wait forever.  A changed set of worker pids means exactly that."""
    now = _pool_pids(pool)
    if pids0 - now:
        raise HarnessError("a worker process of the check died (pids %s gone): its task is lost; re-run the check" % sorted(pids0 - now))


def _shutdown_pool(pool):
    """terminate()/join() can wait forever on a worker that is blocked (on a full pipe, or on the task-queue lock that a
    worker held when it was terminated): run them in a helper thread, and after a grace period kill what is left."""
    import threading
    pids = _pool_pids(pool)

    def _shutdown():
        try:
            pool.terminate()
            pool.join()
        except Exception:
            pass
    t = threading.Thread(target=_shutdown, daemon=True)
    t.start()
    t.join(10)
    if t.is_alive():
        for pid in pids:
            try:
                os.kill(pid, signal.SIGKILL)
            except OSError:
                pass
        t.join(20)


def _apply_chunk(args):
    fn, chunk = args
    return [fn(x) for x in chunk]


def pmap(fn, items, jobs=None, chunksize=1):
    """Ordered parallel map over processes (fork); fn must be a top-level function."""
    import multiprocessing as mp
    jobs = jobs or NCPU
    if jobs <= 1 or len(items) <= 1:
        return [fn(x) for x in items]
    ctx = mp.get_context("fork")
    pool = ctx.Pool(jobs)
    try:
        pids0 = _pool_pids(pool)
        res = pool.map_async(fn, items, chunksize)
        while True:
            res.wait(1.0)
            if res.ready():
                return res.get()
            _check_workers(pool, pids0)
    finally:
        _shutdown_pool(pool)


def pimap(fn, items, jobs=None, chunksize=1):
    import multiprocessing as mp
    jobs = jobs or NCPU
    ctx = mp.get_context("fork")
    pool = ctx.Pool(jobs)
    try:
        pids0 = _pool_pids(pool)
        # chunks are made here (imap with chunksize > 1 returns a plain generator without a timed next())
        items = list(items)
        chunks = [(fn, items[i:i + chunksize]) for i in range(0, len(items), max(1, chunksize))]
        it = pool.imap(_apply_chunk, chunks, 1)
        while True:
            try:
                rs = it.next(timeout=1.0)
            except mp.TimeoutError:
                _check_workers(pool, pids0)
                continue
            except StopIteration:
                break
            for r in rs:
                yield r
    finally:
        _shutdown_pool(pool)
