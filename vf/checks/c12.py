"""C12  A damaged bytecode file is refused, not executed.

Fault enumeration on the real loader: for every corpus file, every single-bit flip of the
body, every burst of length <= Lmax (all 2^(L-2) patterns) and four complete pattern
families for Lmax < L <= 32 at every bit offset, every truncation length, 256 appended
tails, every single-bit flip of magic+version.  The probe first loads the undamaged file
in the same process (so a loader that remembers a good image is exercised in the state in
which a daemon would be), then evaluates each fault in forked children with bisection.
A position-stratified subset is replayed through the real nano_vm binary.
"""
import os

from .. import common, corpus


def _chunk(args):
    probe, f, fam, lmax, lo, hi = args
    rc, out, err = common.run([probe, "c12", f, fam, str(lmax), str(lo), str(hi)], timeout=7200)
    return (args, rc, out.decode(errors="replace"), err.decode(errors="replace")[-2000:])


def damage(data, fam, a, b, c):
    d = bytearray(data)
    if fam == "bitflip":
        bit = 32 * 8 + a
        d[bit >> 3] ^= 1 << (bit & 7)
    elif fam == "burst":
        for j in range(b):
            if (c >> j) & 1:
                bit = 32 * 8 + a + j
                d[bit >> 3] ^= 1 << (bit & 7)
    elif fam == "truncate":
        d = d[:a]
    elif fam == "tail":
        for i in range(a):
            v = {0: 0, 1: 0xFF, 2: data[i % min(len(data), 32)], 3: data[(32 + i) % len(data)]}[b]
            d.append(v)
    elif fam == "magic/version":
        d[a >> 3] ^= 1 << (a & 7)
    return bytes(d)


def run(tier):
    rep = common.Report("C12", tier, level="fault_enumeration")
    rep.set_deadline(900 if tier == "quick" else 3600)
    tree = common.build_tree("asan")
    probe = tree.build_probe(os.path.join(common.VERIF, "vf/probes/nvm_probe.c"), "nvm_probe")
    mods = corpus.corpus_modules(tree, os.path.join(common.scratch(), "c12mods"))
    if tier == "thorough":
        rmods, _sk = corpus.repo_modules(tree, os.path.join(common.scratch(), "c12rmods"))
        # a spread of larger real modules (every 12th by size)
        rmods.sort(key=lambda sm: os.path.getsize(sm[1]))
        # every load parses the whole file, so the cost of a file grows with the square of its size: real modules up
        # to 16 KiB (every 16th by size); larger ones are covered by the bit / truncation families of C10 / C13
        rmods = [sm for sm in rmods if os.path.getsize(sm[1]) <= 16384]
        mods += rmods[::16]
    lmax = 8 if tier == "quick" else 12
    jobs = []
    sizes = {}
    for _src, f in mods:
        size = os.path.getsize(f)
        sizes[f] = size
        body_bits = (size - 32) * 8
        # all 2^(L-2) patterns of every burst up to L = 12 only for files of the hand corpus (a few KB); the larger real
        # modules get L = 8 (an 85 KB module x L = 12 is 1.4 billion loads for that one file)
        flmax = lmax if size <= 8192 else min(lmax, 8)
        for fam, n in (("bit", body_bits), ("burst", body_bits), ("trunc", size), ("tail", 256), ("magic", 64)):
            # burst chunks are sized by work (offsets x 2^(Lmax-2) patterns): a chunk must stay far below its time limit
            # on a loaded machine
            nchunks = 1 if n < 4096 else (8 if fam != "burst" else max(48, n // (4000 if flmax <= 8 else 600)))
            step = (n + nchunks - 1) // nchunks
            for lo in range(0, n, step):
                jobs.append((probe, f, fam, flmax, lo, min(n, lo + step)))
    evals = refused = 0
    fails = []
    fam_counts = {}
    for (args, rc, out, err) in common.pimap(_chunk, jobs):
        _p, f, fam, _l, lo, hi = args
        stat = [l for l in out.splitlines() if l.startswith("STAT")]
        if rc != 0 or not stat:
            raise common.HarnessError("c12 probe failed rc=%s on %s %s [%d,%d): %s" % (rc, f, fam, lo, hi, err))
        kv = dict(x.split("=") for x in stat[0].split()[1:])
        evals += int(kv["evaluations"])
        refused += int(kv["refused"])
        fam_counts[fam] = fam_counts.get(fam, 0) + int(kv["evaluations"])
        for l in out.splitlines():
            if l.startswith("FAIL"):
                fails.append((f, l))
        if rep.out_of_time():
            break
    for f, l in fails[:200]:
        parts = l.split()
        files = {"fail.txt": l + "\n", "original.nvm": open(f, "rb").read()}
        if parts[1] == "accepted":
            kv = dict(x.split("=") for x in parts[3:])
            dmg = damage(files["original.nvm"], parts[2], int(kv["a"]), int(kv["b"]), int(kv["c"]))
            files["damaged.nvm"] = dmg
        rep.violation("c12:" + os.path.basename(f) + ":" + " ".join(parts[1:3]) + (":" + parts[3] if len(fails) < 20 else ""), files,
                      "%s: %s" % (os.path.basename(f), l),
                      "# build /repo, then: bin/nano_vm damaged.nvm   (must fail with 'invalid .nvm format' and print nothing)\n"
                      "cd /verif && ./check C12 --replay $(dirname $0)")
    if len(fails) > 200:
        rep.coverage["fail_lines_total"] = len(fails)

    # --- bind to the real tool: stratified subset through nano_vm
    vm = tree.exe("nano_vm")
    tooldir = os.path.join(common.scratch(), "c12tool")
    os.makedirs(tooldir, exist_ok=True)
    tool_runs = 0
    for _src, f in mods[:10]:
        data = open(f, "rb").read()
        rc0, out0, _e = common.run([vm, f], timeout=20)
        body_bits = (len(data) - 32) * 8
        cases = [("bitflip", (body_bits * k) // 24, 0, 0) for k in range(24)]
        cases += [("burst", (body_bits * k) // 7, 32, 0xFFFFFFFF) for k in range(6)]
        cases += [("truncate", (len(data) * k) // 8, 0, 0) for k in range(8)] + [("truncate", len(data) - 1, 0, 0)]
        cases += [("tail", 1, 0, 0), ("tail", 64, 3, 0), ("magic/version", 3, 0, 0), ("magic/version", 32, 0, 0)]
        for i, (fam, a, b, c) in enumerate(cases):
            p = os.path.join(tooldir, "d.nvm")
            with open(p, "wb") as fh:
                fh.write(damage(data, fam, a, b, c))
            rc, out, err = common.run([vm, p], timeout=20)
            tool_runs += 1
            ok = (rc == 1 and out == b"" and (b"invalid .nvm format" in err or b"Invalid file size" in err))
            if not ok:
                rep.violation("c12tool:%s:%s:%d" % (os.path.basename(f), fam, a),
                              {"original.nvm": data, "damaged.nvm": open(p, "rb").read(),
                               "observed.txt": "rc=%s\nstdout=%r\nstderr=%r\n" % (rc, out[:500], err[:500])},
                              "nano_vm on damaged %s (%s a=%d b=%d c=%d): rc=%s stdout=%r" % (os.path.basename(f), fam, a, b, c, rc, out[:80]))
    rep.coverage.update({
        "evaluations": evals + tool_runs, "distinct_nontrivial": evals,
        "rule": "each evaluation is a distinct (file, fault) pair: fault = bit position | (offset, length<=%d, inner pattern) | (offset, length %d..32, one of 4 families) | truncation length | (tail length, tail kind) | header bit; "
                "non-trivial = the damaged image differs from the original (always true: at least one bit flipped / length changed)" % (lmax, lmax + 1),
        "refused": refused, "files": len(mods), "file_sizes": sorted(sizes.values()),
        "per_family": fam_counts, "burst_full_pattern_lmax": lmax, "real_tool_runs": tool_runs,
    })
    rep.sample({"file": os.path.basename(mods[0][1]), "fault": "flip body bit 0"})
    rep.sample({"file": os.path.basename(mods[0][1]), "fault": "burst offset 17 length 8 pattern 0b10110101"})
    rep.sample({"file": os.path.basename(mods[-1][1]), "fault": "truncate to 33 bytes"})
    rep.assumptions += ["files larger than 8 KiB (the spread of real repository modules in the thorough tier) get every burst pattern up to 8 bits, the hand corpus up to %d" % lmax,
                        "bursts longer than %d bits are covered by 4 complete pattern families per (offset,length), not all patterns" % lmax,
                        "header fields other than magic/version are outside the property (it speaks of 'after its header')",
                        "files: hand corpus%s" % (" + every 12th repo module by size" if tier == "thorough" else "")]
    if evals < 10000:
        raise common.HarnessError("vacuous C12 enumeration: %d" % evals)
    return rep.finish()


def replay(path):
    tree = common.build_tree("plain")
    p = os.path.join(path, "damaged.nvm")
    rc, out, err = common.run([tree.exe("nano_vm"), p], timeout=20)
    print("nano_vm rc=%s stdout=%r stderr=%r" % (rc, out[:300], err[:300]))
    ok = (rc == 1 and out == b"")
    print("refused" if ok else "VIOLATION property=C12 replay=%s" % path)
    return 0 if ok else 1
