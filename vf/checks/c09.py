"""C09  The front end is total: every input ends in acceptance or a diagnostic.

Exhaustive 1-deviation neighbourhoods of grammar-covering seeds (every single-token deletion,
every replacement / insertion of each token of a 50-token alphabet at every position, every
adjacent transposition, every truncation offset, every byte value at every offset of the
smallest seeds), all token strings of length <= 3 (thorough 4) over a 14-token alphabet in
five hole contexts, and nesting families up to depth 50,000.  Each input runs through the
real tokenize / parse_program / process_imports / type_check (asan+ubsan build) in its own
forked child: exit 0 (accepted) or exit 1 with a diagnostic; no signal, no sanitizer report,
no time-out.  thorough adds all pairs of deviations inside a 6-token window.
"""
import glob
import itertools
import os
import re
import struct

from .. import common

TOKEN_RE = re.compile(r'#[^\n]*|/\*.*?\*/|"(?:[^"\\\n]|\\.)*"|\d+\.\d+|\d+|[A-Za-z_][A-Za-z0-9_]*|->|=>|==|!=|<=|>=|[(){}\[\],:=+\-*/%<>.]|\S', re.S)

ALPHA = ["fn", "let", "mut", "set", "if", "else", "while", "for", "in", "return", "assert", "shadow", "extern", "struct", "enum", "union", "match",
         "and", "or", "not", "true", "import", "unsafe", "(", ")", "{", "}", "[", "]", ",", ":", "=", "->", "=>", ".", "+", "-", "==", "<", "0", "1.5", '"s"', "x", "int",
         "-1", "-99999999", "4294967296", "9223372036854775807", "-9223372036854775808", "99999999999999999999"]
SHORT = ["(", ")", "{", "}", "fn", "let", "if", "else", "x", "1", "+", "=", ":", ","]

EXTRA_SEEDS = {
    "x_match": 'union U { A { v: int }, B {} }\nfn f(u: U) -> int {\n match u {\n A(a) => { return a.v }\n B(_b) => { return 0 }\n }\n}\nshadow f { assert (== (f U.A { v: 1 }) 1) }\nfn main() -> int { return (f U.B {}) }\nshadow main { assert true }\n',
    "x_ext": 'extern fn sqrt(x: float) -> float\nfn g(a: float) -> float {\n let mut r: float = 0.0\n unsafe { set r (sqrt a) }\n return r\n}\nshadow g { assert true }\nfn main() -> int {\n let t: (int, bool) = (1, true)\n if t.1 { return t.0 } else { return 2 }\n}\nshadow main { assert true }\n',
    "x_fnval": 'fn inc(a: int) -> int { return (+ a 1) }\nshadow inc { assert true }\nfn pick(k: int) -> fn(int) -> int { return inc }\nshadow pick { assert true }\nimport "m.nano" as M\nfn main() -> int {\n let g: fn(int) -> int = inc\n let a: int = ((pick 1) 2)\n let b: int = (g ((pick 0) 3))\n let c: int = (M.f (inc 1))\n fn inner(q: int) -> int { return (+ q a) }\n let r: int = match (mk 1) { A(x) => { return x.v }, B(y) => 0 }\n return (+ (+ a b) (inner c))\n}\nshadow main { assert true }\n',
    "x_infix": 'enum E { P = 0, Q = 1 }\nstruct S { a: int, b: string }\nlet G: int = 3\nfn h(s: S, k: fn(int) -> int) -> int {\n let v: int = s.a + G * 2 - (k 1)\n for i in (range 0 2) {\n if v > i and not (v == 3) { continue } else if v < 0 { break } else { (println i) }\n }\n return -v\n}\nshadow h { assert true }\nfn main() -> int { return 0 }\nshadow main { assert true }\n',
}
HOLES = {
    "top": "%s\nfn main() -> int { return 0 }\nshadow main { assert true }\n",
    "body": "fn main() -> int {\n %s\n return 0\n}\nshadow main { assert true }\n",
    "expr": "fn main() -> int {\n let v: int = %s\n return 0\n}\nshadow main { assert true }\n",
    "shadow": "fn f() -> int { return 1 }\nshadow f { %s }\nfn main() -> int { return 0 }\nshadow main { assert true }\n",
    "struct": "struct S { %s }\nfn main() -> int { return 0 }\nshadow main { assert true }\n",
}


def tokens_of(text):
    return [t for t in TOKEN_RE.findall(text) if not t.startswith("#") and not t.startswith("/*")]


def join(toks):
    out = []
    for i, t in enumerate(toks):
        out.append(t)
        out.append("\n" if t in ("{", "}") or i % 12 == 11 else " ")
    return "".join(out)


def nesting(depth):
    yield "parens", "fn main() -> int { return " + "(" * depth + "1" + ")" * depth + " }\nshadow main { assert true }\n"
    yield "prefix", "fn main() -> int { return " + "(+ 1 " * depth + "1" + ")" * depth + " }\nshadow main { assert true }\n"
    yield "blocks", "fn main() -> int { " + "if true { " * depth + "(println 1)" + " } else { (println 2) }" * depth + " return 0 }\nshadow main { assert true }\n"
    yield "not", "fn main() -> int { let b: bool = " + "not " * depth + "true\n return 0 }\nshadow main { assert true }\n"
    yield "neg", "fn main() -> int { let b: int = " + "- " * depth + "x\n return 0 }\nshadow main { assert true }\n"
    yield "arrays", "fn main() -> int { let b: int = " + "[" * depth + "1" + "]" * depth + "\n return 0 }\nshadow main { assert true }\n"
    yield "elseif", "fn main() -> int { if false { (println 0) }" + " else if false { (println 1) }" * depth + " else { (println 2) } return 0 }\nshadow main { assert true }\n"
    yield "infix", "fn main() -> int { return 1" + " + 1" * depth + " }\nshadow main { assert true }\n"
    yield "open_parens", "fn main() -> int { return " + "(" * depth
    yield "open_blocks", "fn main() -> int { " + "{ " * depth
    yield "types", "fn main() -> int { let a: " + "array<" * depth + "int" + ">" * depth + " = []\n return 0 }\nshadow main { assert true }\n"
    yield "tuples", "fn main() -> int { let a: " + "(" * depth + "int" + ", int)" * depth + " = 1\n return 0 }\nshadow main { assert true }\n"
    yield "fields", "fn main() -> int { return p" + ".x" * depth + " }\nshadow main { assert true }\n"
    yield "unsafe", "fn main() -> int { " + "unsafe { " * depth + "(println 1)" + " }" * depth + " return 0 }\nshadow main { assert true }\n"
    yield "open_unsafe", "fn main() -> int { " + "unsafe { " * depth
    yield "while", "fn main() -> int { " + "while false { " * depth + "(println 1)" + " }" * depth + " return 0 }\nshadow main { assert true }\n"
    yield "for", "fn main() -> int { " + "for i in (range 0 1) { " * depth + "(println 1)" + " }" * depth + " return 0 }\nshadow main { assert true }\n"
    yield "calls", "fn f(a: int) -> int { return a }\nshadow f { assert true }\nfn main() -> int { return " + "(f " * depth + "1" + ")" * depth + " }\nshadow main { assert true }\n"
    yield "structlit", "struct S { x: int }\nfn main() -> int { let s: S = " + "S { x: " * depth + "1" + " }" * depth + "\n return 0 }\nshadow main { assert true }\n"
    yield "ifexpr", "fn main() -> int { let v: int = " + "if true { " * depth + "1" + " } else { 2 }" * depth + "\n return v }\nshadow main { assert true }\n"
    yield "matchnest", "union U { A { v: int } }\nfn main() -> int { let u: U = U.A { v: 1 }\n" + "match u { A(q) => { " * depth + "(println 1)" + " } }" * depth + "\n return 0 }\nshadow main { assert true }\n"
    # products of two nesting kinds, each inside its own bound: parenthesised groups x infix operators per chain, with the
    # inner group as the FIRST operand (the tree is then as deep as the product) or as the last one
    if depth in (5, 100, 999):
        ops = {5: 900, 100: 900, 999: 40}[depth]
        chain = " + ".join(["1"] * ops)
        first = last = "1"
        for _ in range(depth):
            first = "(" + first + " + " + chain + ")"
            last = "(" + chain + " + " + last + ")"
        yield "groups_x_chain_first", "fn main() -> int { return " + first + " }\nshadow main { assert true }\n"
        yield "groups_x_chain_last", "fn main() -> int { return " + last + " }\nshadow main { assert true }\n"
        acc = "p" + ".x" * ops
        for _ in range(min(depth, 100)):
            acc = "(f " + acc + ")" + ".x" * ops
        yield "calls_x_fields", "fn main() -> int { return " + acc + " }\nshadow main { assert true }\n"
    if depth <= 50000:     # source size grows linearly (1.2 MB at 50000, ~10 tokens per level: under the token cap)
        yield "nested_fn", "".join("fn f%d(a: int) -> int {\n" % i for i in range(depth)) + "return a\n" + "}\n" * depth + "fn main() -> int { return 0 }\nshadow main { assert true }\n"
        yield "open_nested_fn", "".join("fn f%d(a: int) -> int {\n" % i for i in range(depth))
    if depth <= 5000:
        yield "shadow_nest", "fn main() -> int { return 0 }\n" + "shadow main { " * depth + "assert true" + " }" * depth + "\n"


# a sanitizer report must not look like an ordinary rejection (exit 1 + text on stderr): give it its own exit status
SAN_ENV = {"ASAN_OPTIONS": "detect_leaks=0:exitcode=86", "UBSAN_OPTIONS": "print_stacktrace=1:exitcode=86"}

IDENT_MAIN = "fn main() -> int {\n    return 0\n}\nshadow main { assert true }\n"
IDENT_TEMPLATES = {
    "fn": "fn @(a: int) -> int { return a }\n",
    "fn+shadow": "fn @(a: int) -> int { return a }\nshadow @ { assert true }\n",
    "shadow-only": "shadow @ { assert true }\n",
    "extern": "extern fn @(x: int) -> int\n",
    "struct": "struct @ { x: int }\n",
    "enum": "enum @ { A, B }\n",
    "union": "union @ { L { v: int } }\n",
    "global": "let @: int = 1\n",
    "param": "fn f(@: int) -> int { return @ }\nshadow f { assert true }\n",
    "local": "fn g() -> int {\n    let @: int = 1\n    return @\n}\nshadow g { assert true }\n",
    "call": "fn h() -> int {\n    (@)\n    return 0\n}\nshadow h { assert true }\n",
    "value": "fn k() -> int {\n    let v: int = @\n    return v\n}\nshadow k { assert true }\n",
    "type": "fn t(a: @) -> @ { return a }\nshadow t { assert true }\n",
    "field": "struct S { @: int }\nfn u(s: S) -> int { return s.@ }\nshadow u { assert true }\n",
    "twice": "fn @(a: int) -> int { return a }\nfn @(a: int) -> int { return a }\n",
}
IDENT_TEMPLATES_LONG = {
    "qualified-call": "fn q() -> int {\n    (@.@ 1)\n    return 0\n}\nshadow q { assert true }\n",
    "qualified-call-known-left": "struct QS { x: int }\nfn q2(s: QS) -> int {\n    (s.@ 1)\n    return 0\n}\nshadow q2 { assert true }\n",
    "field-access": "struct FS { x: int }\nfn q3(s: FS) -> int {\n    return s.@\n}\nshadow q3 { assert true }\n",
    "variant": "enum VE { A, B }\nfn q4() -> int {\n    let e: VE = VE.@\n    return 0\n}\nshadow q4 { assert true }\n",
    "union-construct": "union VU { L { v: int } }\nfn q5() -> int {\n    let u: VU = VU.@ { v: 1 }\n    return 0\n}\nshadow q5 { assert true }\n",
    "struct-literal-field": "struct LS { x: int }\nfn q6() -> int {\n    let s: LS = LS { @: 1 }\n    return s.x\n}\nshadow q6 { assert true }\n",
    "match-binding": "union MU { L { v: int } }\nfn q7(u: MU) -> int {\n    match u {\n        L(@) => { return @.v }\n    }\n}\nshadow q7 { assert true }\n",
    "match-variant": "union MV { L { v: int } }\nfn q8(u: MV) -> int {\n    match u {\n        @(b) => { return 1 }\n    }\n}\nshadow q8 { assert true }\n",
    "import-alias": 'import "nonexistent_module_zz.nano" as @\n',
    "import-path": 'import "@.nano" as M\n',
    "from-import": 'from "nonexistent_module_zz.nano" import @\n',
    "for-var": "fn q9() -> int {\n    for @ in (range 0 2) { (println @) }\n    return 0\n}\nshadow q9 { assert true }\n",
    "set-target": "fn q10() -> int {\n    set @ 1\n    return 0\n}\nshadow q10 { assert true }\n",
    "generic-arg": "fn q11() -> int {\n    let l: List<@> = (List_@_new)\n    return 0\n}\nshadow q11 { assert true }\n",
    "string-literal": 'fn q12() -> int {\n    (println "@")\n    return 0\n}\nshadow q12 { assert true }\n',
    "nested-fn": "fn q13() -> int {\n    fn @(a: int) -> int { return a }\n    return (@ 1)\n}\nshadow q13 { assert true }\n",
}
IDENT_LENGTHS = (31, 32, 33, 63, 64, 65, 127, 128, 129, 200, 255, 256, 257, 400, 511, 512, 513, 1023, 1024, 1025, 2047, 2048, 2049, 4095, 4096, 4097, 8192, 70000)
LONG_PREFIX = {
    "unsafe-block": "    unsafe { (println 1) }\n",
    "bare-if": "    if true { (println 1) } else {}\n",
    "call": "    (println (+ 1 (+ 2 3)))\n",
    "let-array": "    let a: array<int> = [1, [2][0], 3]\n",
    "while": "    while false { (println 1) }\n",
    "struct-literal": "    (println (PS { x: 1 }).x)\n",
    "cond": "    (println (cond ((== 1 1) 1) (else 2)))\n",
    "unary": "    (println (not (not true)))\n",
    "infix": "    (println (1 + 2 * 3))\n",
}
LONG_PREFIX_NESTS = ("parens", "calls", "blocks", "unsafe", "infix", "types", "while", "structlit")
_RESERVED = []


def reserved_names():
    """built-in function names of the tree under test (registry + type checker list), type names, keywords"""
    if not _RESERVED:
        names = set()
        for f in ("src/builtins_registry.c", "src/typechecker.c"):
            try:
                txt = open(os.path.join(common.REPO, f)).read()
            except OSError:
                continue
            if f.endswith("registry.c"):
                names.update(re.findall(r'^\s*\{"(\w+)",', txt, re.M))
            else:
                m = re.search(r"builtin_function_names\[\] = \{(.*?)\};", txt, re.S)
                if m:
                    names.update(re.findall(r'"(\w+)"', m.group(1)))
        names.update(["int", "bool", "string", "float", "void", "u8", "array", "List", "HashMap", "opaque", "main", "self", "true", "false",
                      "fn", "let", "mut", "set", "if", "else", "while", "for", "in", "return", "struct", "enum", "union", "match", "shadow",
                      "assert", "import", "from", "as", "pub", "extern", "unsafe", "and", "or", "not", "break", "continue", "range", "_", "x"])
        _RESERVED.extend(sorted(names))
        if len(_RESERVED) < 100:
            raise common.HarnessError("could not read the built-in names of the tree (%d)" % len(_RESERVED))
    return _RESERVED


def gen_cases(tier):
    """yields (label, bytes)"""
    seeds = {}
    for f in sorted(glob.glob(os.path.join(common.VERIF, "vf/corpus/c_*.nano"))):
        seeds[os.path.basename(f)[:-5]] = open(f).read()
    seeds.update(EXTRA_SEEDS)
    for name, text in seeds.items():
        yield "seed:" + name, text.encode()
        toks = tokens_of(text)
        n = len(toks)
        for i in range(n):
            yield "del:%s:%d" % (name, i), join(toks[:i] + toks[i + 1:]).encode()
            if i + 1 < n:
                yield "swap:%s:%d" % (name, i), join(toks[:i] + [toks[i + 1], toks[i]] + toks[i + 2:]).encode()
            for a in ALPHA:
                if a != toks[i]:
                    yield "rep:%s:%d:%s" % (name, i, a), join(toks[:i] + [a] + toks[i + 1:]).encode()
        for i in range(n + 1):
            for a in ALPHA:
                yield "ins:%s:%d:%s" % (name, i, a), join(toks[:i] + [a] + toks[i:]).encode()
        raw = text.encode()
        for k in range(len(raw)):
            yield "trunc:%s:%d" % (name, k), raw[:k]
    small = sorted(seeds.items(), key=lambda kv: len(kv[1]))[:2]
    for name, text in small:
        raw = text.encode()
        for k in range(len(raw)):
            for b in range(256):
                if b != raw[k]:
                    yield "byte:%s:%d:%d" % (name, k, b), raw[:k] + bytes([b]) + raw[k + 1:]
    L = 3 if tier == "quick" else 4
    for hole, tmpl in HOLES.items():
        for ln in range(0, L + 1):
            for combo in itertools.product(SHORT, repeat=ln):
                yield "short:%s:%s" % (hole, " ".join(combo)), (tmpl % " ".join(combo)).encode()
    # every reserved / built-in / type name at every definition position
    for tname, tmpl in IDENT_TEMPLATES.items():
        for nm in reserved_names():
            yield "ident:%s:%s" % (tname, nm), (tmpl.replace("@", nm) + IDENT_MAIN).encode()
    # identifiers have no length limit: every identifier position x lengths around the usual fixed-buffer sizes
    for tname, tmpl in list(IDENT_TEMPLATES.items()) + list(IDENT_TEMPLATES_LONG.items()):
        for ln in IDENT_LENGTHS:
            nm = ("n" + "abcdefghij" * (ln // 10 + 1))[:ln]
            yield "identlen:%s:%d" % (tname, ln), (tmpl.replace("@", nm) + IDENT_MAIN).encode()
    for depth in (5, 10, 31, 32, 33, 34, 100, 200, 500, 999, 1000, 1001, 2000, 50000, 100000, 200000):
        for fam, text in nesting(depth):
            yield "nest:%s:%d" % (fam, depth), text.encode()
    # parser state must not accumulate across a long file: N complete constructs first, then a nest at the limit and far
    # beyond it (a counter that drifts by one per construct moves or disables the depth guard)
    for cname, ctext in LONG_PREFIX.items():
        for reps in (2000, 8000):
            pre = "fn pre() -> int {\n" + ctext * reps + "    return 0\n}\nshadow pre { assert true }\n"
            for depth in (999, 1001, 50000):
                for fam, text in nesting(depth):
                    if fam in LONG_PREFIX_NESTS:
                        yield "prefix:%s:%d:%s:%d" % (cname, reps, fam, depth), (pre + text).encode()
    if tier == "thorough":
        # all pairs of deviations within a 6-token window, on the three extra seeds (small alphabet)
        A2 = ["(", ")", "{", "}", "else", "fn", "x", "=", ",", "let"]
        for name, text in EXTRA_SEEDS.items():
            toks = tokens_of(text)
            n = len(toks)
            for i in range(n):
                for j in range(i + 1, min(n, i + 6)):
                    for a in A2:
                        for b in A2:
                            yield "pair:%s:%d:%s:%d:%s" % (name, i, a, j, b), join(toks[:i] + [a] + toks[i + 1:j] + [b] + toks[j + 1:]).encode()
                    yield "pairdel:%s:%d:%d" % (name, i, j), join(toks[:i] + toks[i + 1:j] + toks[j + 1:]).encode()


def _repo_file(args):
    exe, root, rf, out = args[:4]
    rc, o, e = common.run([exe, rf, "--emit-nvm", "-o", out], timeout=args[4] if len(args) > 4 else 60, cwd=root, envx=SAN_ENV)
    return rf, rc, e


def _chunk(args):
    probe, recfile, n, tmo = args
    rc, out, err = common.run([probe, recfile, "0", str(n), str(tmo)], timeout=7200, envx=SAN_ENV)
    return (args, rc, out.decode(errors="replace"), err.decode(errors="replace")[-2000:])


def signature(probe, recfile, idx):
    """re-run one case alone, twice, with stderr of the child visible (via nano_virt-like path): class + top frame"""
    sigs = []
    rep = ""
    for _ in range(2):
        rc, out, err = common.run([probe, recfile, str(idx), str(idx + 1), "20"], timeout=120, envx=SAN_ENV)
        out = out.decode(errors="replace")
        m = re.search(r"BAD idx=\d+ class=(\S+)", out)
        sigs.append(m.group(1) if m else None)
    return sigs


def run(tier):
    rep = common.Report("C09", tier)
    rep.set_deadline(1500 if tier == "quick" else 5 * 3600)
    tree = common.build_tree("asan")
    probe = tree.build_probe(os.path.join(common.VERIF, "vf/probes/fe_probe.c"), "fe_probe")
    work = os.path.join(common.scratch(), "c09")
    os.makedirs(work, exist_ok=True)
    # write record files of ~4000 cases
    labels = []
    files = []
    cur, cur_n, cur_bytes, fam_counts = None, 0, 0, {}
    for label, data in gen_cases(tier):
        if cur is None or cur_n >= 4000 or cur_bytes > 1500000:      # balanced by size too: the long inputs come in runs
            if cur:
                cur.close()
            path = os.path.join(work, "rec%04d.bin" % len(files))
            cur = open(path, "wb")
            files.append([path, 0, len(labels)])
            cur_n = 0
            cur_bytes = 0
        cur.write(struct.pack("<I", len(data)) + data)
        cur_n += 1
        cur_bytes += len(data)
        files[-1][1] = cur_n
        labels.append(label)
        fam = label.split(":")[0]
        fam_counts[fam] = fam_counts.get(fam, 0) + 1
    if cur:
        cur.close()
    # second pass with the plain (uninstrumented) build: a wild read far outside any object is invisible to
    # AddressSanitizer when it lands in mapped shadow/allocator memory, but faults in the normal build
    plain = common.build_tree("plain")
    probe_plain = plain.build_probe(os.path.join(common.VERIF, "vf/probes/fe_probe.c"), "fe_probe")
    jobs = [(probe, f[0], f[1], 3) for f in files] + [(probe_plain, f[0], f[1], 3) for f in files]
    base_of = dict((f[0], f[2]) for f in files)
    acc = rej = 0
    bads = []
    for (args, rc, out, err) in common.pimap(_chunk, jobs):
        stat = [l for l in out.splitlines() if l.startswith("STAT")]
        if rc != 0 or not stat:
            raise common.HarnessError("fe_probe failed rc=%s %s: %s" % (rc, args[1], err))
        kv = dict(x.split("=") for x in stat[0].split()[1:])
        is_plain = (args[0] == probe_plain)
        if not is_plain:
            acc += int(kv["accepted"]); rej += int(kv["rejected"])
        else:
            rep.count("plain_build_runs", int(kv["cases"]))
        for l in out.splitlines():
            if l.startswith("BAD"):
                m = re.match(r"BAD idx=(\d+) class=(\S+)\s*(.*)", l)
                cls = ("plain:" if is_plain else "") + m.group(2)
                if m.group(3):        # sanitizer summary: the class is the finding, e.g. heap-use-after-free src/parser.c:2178 in parse_primary
                    sm = re.search(r"(?:AddressSanitizer|UndefinedBehaviorSanitizer): (\S+) (?:\S*/)?(src/\S+?:\d+)(?::\d+)? in (\w+)", m.group(3))
                    cls += ":" + (" ".join(sm.groups()) if sm else re.sub(r"0x[0-9a-f]+|\d{3,}", "N", m.group(3))[:90])
                bads.append((args[1], int(m.group(1)), cls))
        if rep.out_of_time():
            break
    findings = common.load_findings("C09")
    groups = {}
    # AddressSanitizer frames are several times larger than normal ones: a stack overflow that only the
    # instrumented build shows, below the documented nesting limits, says nothing about the real tools.
    plain_bad = set((r, i) for r, i, c in bads if c.startswith("plain:"))
    kept = []
    for recfile, idx, cls in bads:
        if "stack-overflow" in cls and not cls.startswith("plain:") and (recfile, idx) not in plain_bad:
            rep.count("asan_only_stack_overflows_not_judged")
            continue
        kept.append((recfile, idx, cls))
    bads = kept
    confirmed_hangs = {}
    for recfile, idx, cls in bads:
        label = labels[base_of[recfile] + idx]
        if "timeout" in cls:
            # a deterministic input that exceeded its limit is re-run alone (twice) with a longer limit before being
            # called a hang; once three inputs of a class and family are confirmed hangs the rest of that group is
            # listed with them without another 2 x 20 s each (the group is reported through its first, confirmed, input)
            gkey = (cls, label.split(":")[0])
            if confirmed_hangs.get(gkey, 0) < 3:
                s2 = signature(probe_plain if cls.startswith("plain:") else probe, recfile, idx)
                if s2[0] is None and s2[1] is None:
                    rep.count("slow_but_terminating")
                    continue
                confirmed_hangs[gkey] = confirmed_hangs.get(gkey, 0) + 1
        fam = label.split(":")[0]
        if "exit86:" in cls:
            fam = "*"
        groups.setdefault((cls, fam), []).append((recfile, idx, label))
    for (cls, fam), items in sorted(groups.items()):
        recfile, idx, label = items[0]
        data = open(recfile, "rb").read()
        pos = 0
        for _ in range(idx):
            pos += 4 + struct.unpack_from("<I", data, pos)[0]
        ln = struct.unpack_from("<I", data, pos)[0]
        src = data[pos + 4:pos + 4 + ln]
        matched = None
        for f in findings:
            if f.get("sig", {}).get("class") == cls and re.search(f["sig"]["label_re"], label):
                matched = f
        if matched and all(re.search(matched["sig"]["label_re"], it[2]) for it in items):
            rep.known[matched["id"]] = len(items)
            rep.known_text[matched["id"]] = matched["what"]
            continue
        rep.violation("c09:%s:%s" % (cls, fam), {"input.nano": src, "cases.txt": "\n".join(it[2] for it in items[:300]) + "\n"},
                      "front end %s on %d inputs of family '%s' (first: %s)" % (cls, len(items), fam, label),
                      "bin/nano_virt input.nano --emit-nvm -o /dev/null   # asan build: must exit 0 or 1 with a diagnostic")
    total = len(labels)
    # bind the probe to the tool: every 97th case through the real (asan) nano_virt binary
    tool = 0
    tdir = os.path.join(work, "tool")
    os.makedirs(tdir, exist_ok=True)
    for f in files[:: max(1, len(files) // 12)]:
        data = open(f[0], "rb").read()
        pos = 0
        for k in range(f[1]):
            ln = struct.unpack_from("<I", data, pos)[0]
            if k % 97 == 0:
                p = os.path.join(tdir, "t.nano")
                open(p, "wb").write(data[pos + 4:pos + 4 + ln])
                rc, o, e = common.run([tree.exe("nano_virt"), p, "--emit-nvm", "-o", os.path.join(tdir, "t.nvm")], timeout=30, cwd=tdir, envx=SAN_ENV)
                tool += 1
                if rc not in (0, 1) and b"stack-overflow" in e:
                    # the sanitizer's frames are several times larger: the uninstrumented tool is the arbiter for depth
                    rc2, o2, e2 = common.run([plain.exe("nano_virt"), p, "--emit-nvm", "-o", os.path.join(tdir, "t.nvm")], timeout=60, cwd=tdir)
                    if rc2 == 0 or (rc2 == 1 and e2):
                        rep.count("asan_only_stack_overflows_not_judged")
                        pos += 4 + ln
                        continue
                    rc, e = rc2, e2
                if rc not in (0, 1) or (rc == 1 and not e):
                    lab = labels[f[2] + k]
                    if not any(lab.split(":")[0] == g[1] for g in groups):
                        rep.violation("c09:tool:" + lab, {"input.nano": data[pos + 4:pos + 4 + ln]}, "nano_virt --emit-nvm on %s: exit %s, stderr %d bytes" % (lab, rc, len(e)))
            pos += 4 + ln
    # every nesting-family input also through the real tool of both builds (the tool goes on to code generation,
    # where deep nesting can still overflow the stack after the front end proper has accepted the program)
    ndir = os.path.join(work, "nest")
    os.makedirs(ndir, exist_ok=True)
    njobs = []
    for depth in (5, 10, 31, 32, 33, 34, 100, 200, 500, 999, 1000, 1001, 2000, 50000, 100000, 200000):      # the real tool also FREES what it parsed
        for fam, text in nesting(depth):
            pth = os.path.join(ndir, "%s_%d.nano" % (fam, depth))
            with open(pth, "w") as f:
                f.write(text)
            njobs.append((tree.exe("nano_virt"), ndir, pth, os.path.join(ndir, "o%d.nvm" % (len(njobs) % 32))))
            njobs.append((plain.exe("nano_virt"), ndir, pth, os.path.join(ndir, "p%d.nvm" % (len(njobs) % 32))))
    nres = common.pmap(_repo_file, njobs, chunksize=4)
    plain_ok = set(rf for k, (rf, rc, e) in enumerate(nres) if k % 2 == 1 and (rc == 0 or (rc == 1 and e) or rc == "timeout"))
    for k, (rf, rc, e) in enumerate(nres):
        tool += 1
        if rc not in (0, 1) or (rc == 1 and not e):
            if rc == "timeout":
                continue          # long inputs are timed by the probe pass (3 s, re-run at 20 s), not here
            if k % 2 == 0 and b"stack-overflow" in e and rf in plain_ok:
                rep.count("asan_only_stack_overflows_not_judged")
                continue
            lab = os.path.basename(rf)[:-5]
            rep.violation("c09:nesttool:%s:%s" % (re.sub(r"_\d+$", "", lab), rc), {"which.txt": lab + "\n", "stderr.txt": e[-4000:]},
                          "nano_virt --emit-nvm on nesting family %s: exit %s (must be 0, or 1 with a diagnostic)" % (lab, rc),
                          "# regenerate with vf/checks/c09.py nesting(depth); bin/nano_virt <file> --emit-nvm -o /tmp/x.nvm")
    # import families need real files: self import, circular import, missing / directory / broken module
    idir = os.path.join(work, "imports")
    os.makedirs(os.path.join(idir, "adir.nano"), exist_ok=True)
    M = 'fn main() -> int { return 0 }\nshadow main { assert true }\n'
    imp = {"self.nano": 'import "self.nano" as S\n' + M, "ca.nano": 'import "cb.nano" as B\n' + M, "cb.nano": 'import "ca.nano" as A\npub fn f() -> int { return 1 }\nshadow f { assert true }\n',
           "miss.nano": 'import "nonexistent.nano" as N\n' + M, "dirimp.nano": 'import "adir.nano" as D\n' + M,
           "broken_user.nano": 'import "broken.nano" as K\n' + M, "broken.nano": 'pub fn f( -> int { return }\n',
           "fromself.nano": 'from "fromself.nano" import main\n' + M, "deep0.nano": 'import "deep1.nano" as D\n' + M,
           "fa.nano": 'from "fb.nano" import g\n' + M, "fb.nano": 'from "fa.nano" import main\npub fn g() -> int { return 1 }\nshadow g { assert true }\n',
           "t1.nano": 'import "t2.nano" as T\n' + M, "t2.nano": 'import "t3.nano" as T\npub fn g2() -> int { return 1 }\nshadow g2 { assert true }\n',
           "t3.nano": 'import "t1.nano" as T\npub fn g3() -> int { return 1 }\nshadow g3 { assert true }\n',
           "dia.nano": 'import "dib.nano" as B\nimport "dic.nano" as C\n' + M, "dib.nano": 'import "did.nano" as D\npub fn gb() -> int { return 1 }\nshadow gb { assert true }\n',
           "dic.nano": 'import "did.nano" as D\npub fn gc() -> int { return 1 }\nshadow gc { assert true }\n', "did.nano": 'pub fn gd() -> int { return 1 }\nshadow gd { assert true }\n',
           "twice.nano": 'import "did.nano" as D\nimport "did.nano" as E\n' + M,
           "long0.nano": 'import "long1.nano" as D\n' + M}
    for k in range(1, 80):
        imp["long%d.nano" % k] = ('import "long%d.nano" as D\n' % (k + 1) if k < 79 else "") + 'pub fn h%d() -> int { return %d }\nshadow h%d { assert true }\n' % (k, k, k)
    for k in range(1, 40):
        imp["deep%d.nano" % k] = ('import "deep%d.nano" as D\n' % (k + 1) if k < 39 else "") + 'pub fn g%d() -> int { return %d }\nshadow g%d { assert true }\n' % (k, k, k)
    for n, t in imp.items():
        open(os.path.join(idir, n), "w").write(t)
    for n in ("self.nano", "ca.nano", "miss.nano", "dirimp.nano", "broken_user.nano", "fromself.nano", "deep0.nano", "fa.nano", "t1.nano", "dia.nano", "twice.nano", "long0.nano"):
        for tool_args in (["--emit-nvm", "-o", os.path.join(idir, "o.nvm")],):
            rc, o, e = common.run([tree.exe("nano_virt"), os.path.join(idir, n)] + tool_args, timeout=30, cwd=idir, envx=SAN_ENV)
            tool += 1
            total += 1
            labels.append("import:" + n)
            if rc not in (0, 1) or (rc == 1 and not e):
                rep.violation("c09:import:" + n, {n: imp[n], "observed.txt": "exit=%s\n%s" % (rc, e.decode(errors="replace")[-3000:])},
                              "nano_virt on import family %s: exit %s (must be 0, or 1 with a diagnostic)" % (n, rc), "bin/nano_virt %s --emit-nvm -o /dev/null" % n)
    # every .nano file of the tree itself through the real tool, from the tree root (its imports resolve)
    repo_files = sorted(os.path.relpath(os.path.join(dp, f), tree.root) for dp, _dn, fs in os.walk(tree.root) for f in fs
                        if f.endswith(".nano") and "/.git/" not in dp)
    rjobs = [(tree.exe("nano_virt"), tree.root, rf, os.path.join(work, "repo%d.nvm" % (i % 64))) for i, rf in enumerate(repo_files)]
    nrepo = 0
    for rf, rc, e in common.pmap(_repo_file, rjobs, chunksize=8):
        nrepo += 1
        tool += 1
        total += 1
        if rc not in (0, 1) or (rc == 1 and not e):
            if rc == "timeout":
                rc2 = _repo_file((tree.exe("nano_virt"), tree.root, rf, os.path.join(work, "repoX.nvm"), 300))[1]
                if rc2 in (0, 1):
                    continue
            last = [l for l in e.decode(errors="replace").splitlines() if l.strip()][-3:]
            rep.violation("c09:repo:%s:%s" % (rc, re.sub(r"\d+", "N", " ".join(last))[:60]), {"which.txt": rf + "\n", "stderr.txt": e[-6000:]},
                          "front end on the tree's own file %s: exit %s (must be 0, or 1 with a diagnostic); last output: %s" % (rf, rc, " | ".join(last)[:200]),
                          "cd <tree>; bin/nano_virt %s --emit-nvm -o /tmp/x.nvm" % rf)
    rep.coverage["repo_files_through_real_tool"] = nrepo
    rep.count("states", total)
    rep.count("transitions", acc + rej + len(bads) + tool)
    rep.count("traces_validated_against_impl", tool)
    rep.coverage.update({"inputs": total, "accepted": acc, "rejected_with_diagnostic": rej, "bad": len(bads), "per_family": fam_counts, "real_tool_runs": tool})
    for i in (1, len(labels) // 3, len(labels) // 2, len(labels) - 5):
        rep.sample(labels[i])
    rep.assumptions += ["per-input limit 3 s in the probe (re-run alone at 20 s before being called a hang)", "1 deviation from a valid program (thorough: 2 within a 6-token window)", "imports resolve relative to a non-existent case.nano"]
    if total < 20000 or acc < 50:
        raise common.HarnessError("vacuous C09: %d inputs, %d accepted" % (total, acc))
    return rep.finish()
