"""C06  Shadow tests gate compilation.

Exhaustive over assertion layouts x truth assignments: programs with 1-3 functions (+ an
imported module's function), each shadow block built from a template with up to 3 assertion
slots placed straight-line / after a passing assertion / inside a while executed 0, 1 or 3
times / inside a taken or untaken if / nested / last; every slot true or false.  NanoRef (in
'assert records and continues' mode) says which assertions are executed and false.
Oracle:  (some executed assertion is false)  <=>  (nanoc exits non-zero and leaves no file
at -o); the failing test is named on stdout; when all hold the binary exists and runs;
a function without a shadow block is reported in every layout.
"""
import itertools
import os

from .. import common, langrun, nanoref as nr

I = "int"


def V(n): return ("var", n)
def N(v): return ("int", v)
def BIN(op, a, b): return ("bin", op, a, b)
def CALL(f, *a): return ("call", f, list(a))


def slot(fname, truth, k):
    """assert (== (f k) f(k))  or a wrong constant"""
    return ("assert", BIN("==", CALL(fname, N(k)), N(k + 1 if truth else k + 1000)))


def templates(fname):
    """yield (label, nslots, builder(truths) -> shadow stmts)"""
    S = lambda t, k: slot(fname, t, k)
    yield "one", 1, lambda t: [S(t[0], 1)]
    yield "two", 2, lambda t: [S(t[0], 1), S(t[1], 2)]
    yield "three", 3, lambda t: [S(t[0], 1), S(t[1], 2), S(t[2], 3)]
    for n in (0, 1, 3):
        yield "while%d" % n, 1, (lambda n: lambda t: [S(True, 9), ("let", "i", I, N(0), True),
                                                      ("while", BIN("<", V("i"), N(n)), [S(t[0], 4), ("set", "i", BIN("+", V("i"), N(1)))])])(n)
    for taken in (True, False):
        yield "if%s" % taken, 2, (lambda taken: lambda t: [("if", BIN("==", CALL(fname, N(0)), N(1 if taken else 77)), [S(t[0], 5)], [S(t[1], 6)])])(taken)
    for c1, c2 in itertools.product((True, False), repeat=2):
        yield "nest%s%s" % (c1, c2), 2, (lambda c1, c2: lambda t: [("if", ("bool", c1), [("if", ("bool", c2), [S(t[0], 7)], [S(True, 8)])], [S(t[1], 9)])])(c1, c2)
    yield "mixed", 3, lambda t: [S(t[0], 1), ("let", "j", I, N(0), True), ("while", BIN("<", V("j"), N(3)), [S(t[1], 2), ("set", "j", BIN("+", V("j"), N(1)))]), S(t[2], 3)]
    yield "for", 2, lambda t: [("for", "q", N(0), N(2), [S(t[0], 4)]), S(t[1], 5)]


def fn_def(name):
    return (name, [("a", I)], I, [("return", BIN("+", V("a"), N(1)))])


def build(layout):
    """layout: list of (fname, shadow stmts or None).  Returns nanoref.Program."""
    p = nr.Program()
    for fname, sh in layout:
        if fname.startswith("hof"):
            p.add_fn(fname, [("g", "fn(int) -> int"), ("a", I)], I, [("return", CALL("g", V("a")))], shadow=sh)
        else:
            n, params, ret, body = fn_def(fname)
            p.add_fn(n, params, ret, body, shadow=sh)
    p.add_fn("main", [], I, [("println", CALL(layout[0][0] if not layout[0][0].startswith("hof") else "f0", N(1)) if not layout[0][0].startswith("hof") else N(2)), ("return", N(0))])
    return p


def analyse(prog, layout):
    """per function: (executed, failed) under record-and-continue semantics"""
    res = {}
    for fname, sh in layout:
        if sh is None:
            res[fname] = None
            continue
        ip = nr.Interp(prog, ["assert_records"])
        ip.asserts_failed = 0
        ip.asserts_executed = 0
        try:
            ip.block(sh, [{}])
        except nr.Fault as f:
            raise common.HarnessError("shadow template leaves the domain: %s" % f)
        res[fname] = (ip.asserts_executed, ip.asserts_failed)
    return res


def source(prog, layout):
    txt = nr.Printer().program(prog)
    # functions without a shadow block: remove the default 'assert true' block the printer adds
    for fname, sh in layout:
        if sh is None:
            txt = txt.replace("shadow %s {\n    assert true\n}\n" % fname, "")
    return txt


def layouts():
    out = []
    # --- one function: every template x every truth assignment
    for label, ns, mk in templates("f0"):
        for truths in itertools.product((True, False), repeat=ns):
            out.append(("k1:%s:%s" % (label, "".join("T" if t else "F" for t in truths)), [("f0", mk(truths))]))
    # --- two / three functions: failing block at each position, passing elsewhere; all-pass; all-fail
    simple = {"pass": lambda f: [slot(f, True, 1), slot(f, True, 2)], "fail_last": lambda f: [slot(f, True, 1), slot(f, False, 2)],
              "fail_in_loop": lambda f: [slot(f, True, 1), ("let", "i", I, N(0), True), ("while", BIN("<", V("i"), N(2)), [slot(f, False, 3), ("set", "i", BIN("+", V("i"), N(1)))])],
              "unexecuted_false": lambda f: [slot(f, True, 1), ("if", ("bool", False), [slot(f, False, 2)], [slot(f, True, 3)])]}
    for k in (2, 3):
        for combo in itertools.product(sorted(simple), repeat=k):
            out.append(("k%d:%s" % (k, "+".join(combo)), [("f%d" % i, simple[c]("f%d" % i)) for i, c in enumerate(combo)]))
    # --- a higher-order function and an array-using shadow block (shadow bodies that call through a function value / use array builtins)
    for t in (True, False):
        out.append(("hof:%s" % t, [("f0", simple["pass"]("f0")), ("hof1", [("assert", BIN("==", CALL("hof1", V("f0"), N(4)), N(5 if t else 500)))])]))
        out.append(("arr:%s" % t, [("f0", [("let", "v", "array<int>", ("arrlit", I, []), True), ("set", "v", CALL("array_push", V("v"), CALL("f0", N(2)))),
                                          ("set", "v", CALL("array_push", V("v"), N(8))),
                                          ("assert", BIN("==", CALL("at", V("v"), N(0)), N(3 if t else 300))), ("assert", BIN("==", CALL("array_length", V("v")), N(2)))])]))
    # --- missing shadow block at each position, with the others passing or failing
    for pos in range(3):
        for others in ("pass", "fail_last"):
            lay = []
            for i in range(3):
                lay.append(("f%d" % i, None if i == pos else simple[others]("f%d" % i)))
            out.append(("missing@%d:%s" % (pos, others), lay))
    out.append(("missing-only", [("f0", None)]))
    return out


# function kinds: name -> (definition text with %(n)s, call expression giving an int for argument 3, expected value,
#                          skipped: nanoc does not run shadow blocks of functions that call extern functions directly)
KINDS = {
    "plain":   ("fn %(n)s(a: int) -> int {\n    return (+ a 1)\n}\n", "(%(n)s 3)", 4, False),
    "strfn":   ("fn %(n)s(a: int) -> int {\n    let s: string = (+ \"ab\" (int_to_string a))\n    return (str_length s)\n}\n", "(%(n)s 3)", 3, False),
    "arrfn":   ("fn %(n)s(a: int) -> int {\n    let mut v: array<int> = []\n    set v (array_push v a)\n    set v (array_push v 5)\n    return (+ (at v 0) (array_length v))\n}\n", "(%(n)s 3)", 5, False),
    "hof":     ("fn %(n)s(g: fn(int) -> int, a: int) -> int {\n    return (g (g a))\n}\n", "(%(n)s inc1 3)", 5, False),
    "fnlocal": ("fn %(n)s(a: int) -> int {\n    let g: fn(int) -> int = inc1\n    return (g a)\n}\n", "(%(n)s 3)", 4, False),
    "loopfn":  ("fn %(n)s(a: int) -> int {\n    let mut t: int = 0\n    for i in (range 0 a) { set t (+ t i) }\n    return t\n}\n", "(%(n)s 3)", 3, False),
    "externfn": ("fn %(n)s(a: int) -> int {\n    return (labs (- 0 a))\n}\n", "(%(n)s 3)", 3, True),
    "externunsafe": ("fn %(n)s(a: int) -> int {\n    let mut r: int = 0\n    unsafe { set r (labs (- 0 a)) }\n    return r\n}\n", "(%(n)s 3)", 3, False),
    "structfn": ("fn %(n)s(a: int) -> int {\n    let p: PT = PT { x: a, y: 2 }\n    return (+ p.x p.y)\n}\n", "(%(n)s 3)", 5, False),
}
KPRE = "extern fn labs(x: int) -> int\nstruct PT { x: int, y: int }\nfn inc1(k: int) -> int { return (+ k 1) }\nshadow inc1 { assert (== (inc1 1) 2) }\n"


def kind_layouts():
    """ordered pairs of function kinds x which shadow block holds a false assertion; and each kind without a block"""
    names = sorted(KINDS)
    for k1 in names:
        for k2 in names:
            for fails in ((False, False), (True, False), (False, True), (True, True)):
                src = KPRE
                ana = {}
                for i, (k, bad) in enumerate(((k1, fails[0]), (k2, fails[1]))):
                    n = "q%d%s" % (i, k)
                    d, call, val, skipped = KINDS[k]
                    src += d % {"n": n}
                    src += "shadow %s {\n    assert (== %s %d)\n    assert (== %s %d)\n}\n" % (n, call % {"n": n}, val, call % {"n": n}, val + (1000 if bad else 0))
                    ana[n] = (0, 0) if skipped else (2, 1 if bad else 0)
                src += "fn main() -> int {\n    (println \"ran\")\n    return 0\n}\nshadow main { assert true }\n"
                yield "kinds:%s,%s:%s" % (k1, k2, "".join("F" if b else "T" for b in fails)), src, ana
    for k in names:
        if KINDS[k][3]:
            continue          # a missing shadow block is optional for functions that call extern functions
        n = "m" + k
        src = KPRE + KINDS[k][0] % {"n": n} + "fn other(a: int) -> int {\n    return a\n}\nshadow other { assert (== (other 1) 1) }\n"
        src += "fn main() -> int {\n    (println \"ran\")\n    return 0\n}\nshadow main { assert true }\n"
        yield "kind-missing:" + k, src, {n: None, "other": (1, 0)}
    # which functions lack a shadow block is decided per function NAME: every pair of name shapes, both unshadowed,
    # plus a third, shadowed function whose name is related to them - each missing one must be reported
    for (la, a_), (lb, b_) in itertools.product(NAME_SHAPES, repeat=2):
        if a_ == b_:
            continue
        src = "".join("fn %s(a: int) -> int {\n    return (+ a %d)\n}\n" % (nm, i) for i, nm in enumerate((a_, b_)))
        src += "fn %s_t(a: int) -> int {\n    return a\n}\nshadow %s_t { assert (== (%s_t 1) 1) }\n" % (a_[:20], a_[:20], a_[:20])
        src += "fn main() -> int {\n    (println \"ran\")\n    return 0\n}\nshadow main { assert true }\n"
        yield "names-missing:%s,%s" % (la, lb), src, {a_: None, b_: None, a_[:20] + "_t": (1, 0)}


_L = "convert_temperature_reading_to_"      # 31 characters
NAME_SHAPES = [("short", "f"), ("short-digit", "f1"), ("short-digit2", "f10"), ("len31", _L[:31]), ("len31+a", _L + "celsius"), ("len31+b", _L + "kelvin"),
               ("len32", _L + "x"), ("len63a", (_L * 3)[:62] + "a"), ("len63b", (_L * 3)[:62] + "b"), ("len64+", (_L * 3)[:64] + "tail"),
               ("len200a", ("very_long_function_name_" * 9)[:199] + "a"), ("len200b", ("very_long_function_name_" * 9)[:199] + "b"),
               ("underscore", "_g"), ("upper", "Fn_Upper")]


def _task(args):
    root, work, envx, idx, label, src, extra_files = args
    d = os.path.join(work, "p%d" % idx)
    os.makedirs(d, exist_ok=True)
    for fn, txt in extra_files:
        open(os.path.join(d, fn), "w").write(txt)
    p = os.path.join(d, "prog.nano")
    open(p, "w").write(src)
    exe = os.path.join(d, "prog.bin")
    rc, out, err = common.run([os.path.join(root, "bin/nanoc_c"), p, "-o", exe], timeout=300, cwd=d, envx=envx)
    res = {"idx": idx, "rc": rc, "out": out.decode(errors="replace"), "err": err.decode(errors="replace"), "exists": os.path.exists(exe)}
    if res["exists"]:
        r2 = common.run([exe], timeout=30, cwd=d)
        res["run"] = (r2[0], r2[1].decode(errors="replace"))
    return res


def run(tier):
    rep = common.Report("C06", tier)
    tree = common.build_tree("plain")
    work = os.path.join(common.scratch(), "c06")
    os.makedirs(work, exist_ok=True)
    lang = langrun.Lang(tree, os.path.join(common.scratch(), "c06lang"))
    lang.warm()
    items = []
    for label, lay in layouts():
        prog = build(lay)
        items.append((label, lay, prog, analyse(prog, lay), source(prog, lay), []))
    # --- imported module whose function has a (passing / failing / missing) shadow block
    for kind in ("pass", "fail", "loopfail"):
        body = {"pass": "    assert (== (mf 1) 2)\n", "fail": "    assert (== (mf 1) 2)\n    assert (== (mf 2) 99)\n",
                "loopfail": "    let mut i: int = 0\n    while (< i 2) {\n        assert (== (mf i) 50)\n        set i (+ i 1)\n    }\n"}[kind]
        mod = "pub fn mf(a: int) -> int {\n    return (+ a 1)\n}\nshadow mf {\n%s}\n" % body
        main = 'from "m.nano" import mf\nfn main() -> int {\n    (println (mf 1))\n    return 0\n}\nshadow main { assert true }\n'
        items.append(("module:" + kind, [("mf", "x")], None, {"mf": (1, 0 if kind == "pass" else 1)}, main, [("m.nano", mod)]))
    # --- function kinds x order x which block fails (text programs): a block that nanoc skips or treats specially
    #     must not change the fate of the blocks around it
    for label, src, ana in kind_layouts():
        items.append((label, [], None, ana, src, []))
    jobs = [(tree.root, work, lang.envx, i, it[0], it[4], it[5]) for i, it in enumerate(items)]
    outcomes = set()
    findings = dict((f["id"], f) for f in common.load_findings("C06"))
    for r in common.pimap(_task, jobs):
        label, lay, prog, ana, src, extra = items[r["idx"]]
        rep.count("transitions")
        failing = [f for f, v in ana.items() if v is not None and v[1] > 0]
        missing = [f for f, v in ana.items() if v is None]
        expect_fail = bool(failing)
        outcomes.add((expect_fail, r["rc"] != 0, r["exists"]))
        files = {"program.nano": src, "observed.txt": "rc=%s exists=%s\n--stdout--\n%s\n--stderr--\n%s" % (r["rc"], r["exists"], r["out"][-3000:], r["err"][-3000:])}
        for fn, txt in extra:
            files[fn] = txt
        rp = "bin/nanoc_c program.nano -o out; echo rc=$?; ls -l out"
        problems = []
        if expect_fail:
            if r["rc"] == 0:
                problems.append("nanoc exits 0 although the shadow assertions of %s fail" % failing)
            if r["exists"]:
                problems.append("an executable was written although shadow assertions of %s fail" % failing)
            for f in failing:
                if ("Shadow test '%s' FAILED" % f) not in r["out"]:
                    problems.append("failing test '%s' is not named on stdout" % f)
        else:
            if r["rc"] != 0 or not r["exists"]:
                problems.append("all executed assertions hold but nanoc rc=%s, executable exists=%s" % (r["rc"], r["exists"]))
            elif r.get("run", (1, ""))[0] != 0:
                problems.append("the produced executable does not run (exit %s)" % (r["run"][0],))
            for f in ana:
                if ("Shadow test '%s' FAILED" % f) in r["out"]:
                    problems.append("test '%s' reported FAILED although every executed assertion holds" % f)
        for f in missing:
            if ("Function '%s' is missing a shadow test" % f) not in (r["err"] + r["out"]):
                problems.append("function '%s' without a shadow block is not reported" % f)
        if label.startswith("module:") and expect_fail and r["rc"] == 0 and "imported-module-shadow-not-run" in findings:
            rep.known_finding("imported-module-shadow-not-run", findings["imported-module-shadow-not-run"]["what"])
            continue
        for pb in problems:
            rep.violation("c06:%s:%s" % (label, pb[:40]), files, "%s: %s" % (label, pb), rp)
    rep.count("states", len(items))
    rep.count("traces_validated_against_impl", len(items))
    rep.coverage["layouts"] = len(items)
    rep.coverage["expected_failing"] = sum(1 for it in items if any(v is not None and v[1] > 0 for v in it[3].values()))
    rep.coverage["distinct_outcome_classes"] = len(outcomes)
    rep.sample({"layout": items[5][0], "source": items[5][4][-600:]})
    rep.sample({"layout": items[60][0], "source": items[60][4][-700:]})
    rep.sample({"layouts": [it[0] for it in items[::17]]})
    rep.assumptions += ["assertion truth values and executed-ness come from NanoRef in record-and-continue mode (the documented shadow semantics)",
                        "up to 3 functions and 3 slots per block; one imported module"]
    if len(items) < 100 or len(outcomes) < 2:
        raise common.HarnessError("vacuous C06")
    return rep.finish()
