"""C03  Compile-time shadow-test evaluation agrees with the compiled program.

Every enumerated case (layers E, S, F, D) is turned into a shadow block that performs the
case's calls (printing their results) followed, for pure functions, by assertions
(== (f a) K) with K taken from NanoRef; `nanoc --verbose` runs the block in the tree-walking
evaluator at compile time.  Oracle: the text the evaluator prints for the block equals the
text the compiled binary prints for the same calls (and NanoRef's text), every NanoRef-true
assertion passes (a correct program is not refused), and a mirrored false assertion fails.
"""
import os
import re

from .. import common, enumer, langrun, nanoref as nr, xfam
from . import langcommon as lc

LAYERS = ["effect_order", "layer_F", "layer_D", "layer_S", "layer_E"]


def shadow_owner(case):
    for kind, name, _p in case["items"]:
        if kind == "fn":
            return name
    return None


def lit(v):
    if isinstance(v, bool):
        return ("bool", v)
    if isinstance(v, int):
        return ("int", v)
    if isinstance(v, str):
        return ("str", v)
    return None


def make_shadow_program(cases, mirror=False):
    """Program whose shadow block for each case's owner function replays the case's main statements.
    Returns (program, {case id: owner})."""
    seen = set()
    p = nr.Program()
    owners = {}
    main = []
    for c in cases:
        items = list(c["items"])
        if c.get("uses_prelude"):
            pfx = langrun.case_prelude_prefix(c)
            if pfx not in seen:
                seen.add(pfx)
                items = enumer.prelude(pfx) + items
        owner = shadow_owner(c)
        owners[c["id"]] = owner
        for kind, name, payload in items:
            if kind == "fn":
                sh = None
                if name == owner:
                    sh = list(c["main"]) + list(c.get("asserts_mirror" if mirror else "asserts", []))
                    if not sh:
                        sh = [("assert", ("bool", True))]
                p.add_fn(name, payload[0], payload[1], payload[2], shadow=sh)
            elif kind == "struct":
                p.add_struct(name, payload)
            elif kind == "enum":
                p.add_enum(name, payload)
            elif kind == "union":
                p.add_union(name, payload)
            elif kind == "global":
                p.add_global(name, *payload)
        main.append(("println", ("str", "@@" + c["id"])))
        main.extend(c["main"])
    main += [("println", ("str", "@@end")), ("return", ("int", 0))]
    p.add_fn("main", [], "int", main)
    return p, owners


def add_asserts(case):
    """For pure single-call println statements add (== call K) assertions with K from NanoRef (and a false mirror)."""
    def prints(x):
        if isinstance(x, tuple):
            return (len(x) > 0 and x[0] in ("println", "print")) or any(prints(y) for y in x)
        if isinstance(x, list):
            return any(prints(y) for y in x)
        return False
    if lc._effect_calls([it[2] for it in case["items"] if it[0] == "fn"]) > 0 or prints([it[2] for it in case["items"] if it[0] == "fn"]):
        return        # the function prints: calling it again inside an assertion would print again
    prog = langrun.make_program([case])
    asserts, mirror = [], []
    for st in case["main"]:
        if st[0] == "println" and st[1][0] == "call" and st[1][1] in prog.funcs and all(a[0] in ("int", "bool") for a in st[1][2]):
            ip = nr.Interp(prog)
            try:
                ip.init_globals()
                v = ip.ev(st[1], [{}])
            except nr.Fault:
                continue
            if isinstance(v, bool):
                asserts.append(("assert", ("bin", "==", st[1], ("bool", v))))
                mirror.append(("assert", ("bin", "==", st[1], ("bool", not v))))
            elif isinstance(v, int):
                asserts.append(("assert", ("bin", "==", st[1], ("int", v))))
                mirror.append(("assert", ("bin", "==", st[1], ("int", nr.wrap(v + 1)))))
    case["asserts"] = asserts
    case["asserts_mirror"] = mirror[:1]


def parse_verbose(out, owners):
    """evaluator text per shadow test name: between 'Testing <f>... ' and PASSED/FAILED"""
    res = {}
    for m in re.finditer(r"Testing (\w+)\.\.\. (.*?)(PASSED|FAILED)\n", out, re.S):
        res[m.group(1)] = (m.group(2), m.group(3))
    return res


def observe(lang, cases, tag, mirror=False, depth=0):
    prog, owners = make_shadow_program(cases, mirror)
    src = os.path.join(lang.work, "%s_%d_%d.nano" % (tag, depth, os.getpid()))
    open(src, "w").write(nr.Printer().program(prog))
    exe = src[:-5] + ".bin"
    if os.path.exists(exe):
        os.unlink(exe)
    rc, out, err = common.run([lang.tree.exe("nanoc_c"), src, "-o", exe, "--verbose"], timeout=300, cwd=lang.work, envx=lang.envx, tmp=lang.tmp)
    out_t = out.decode(errors="replace")
    ev = parse_verbose(out_t, owners)
    structural_ok = all(owners[c["id"]] in ev for c in cases)
    res = {}
    if structural_ok and (rc == 0 or "Shadow tests failed" in err.decode(errors="replace")):
        native = None
        if rc == 0 and os.path.exists(exe):
            r2 = common.run([exe], timeout=60, cwd=lang.work)
            native = langrun.split_output(cases, r2[1]) if r2[0] == 0 else None
            os.unlink(exe)
        for c in cases:
            res[c["id"]] = {"eval": ev[owners[c["id"]]], "native": (native or {}).get(c["id"]), "nanoc_rc": rc}
        return res
    if len(cases) == 1:
        return {cases[0]["id"]: {"eval": None, "native": None, "nanoc_rc": rc,
                                 "fail": (err[-1500:] + b"\n--stdout tail--\n" + out[-600:]).decode(errors="replace")}}
    mid = len(cases) // 2
    res = observe(lang, cases[:mid], tag, mirror, depth + 1)
    res.update(observe(lang, cases[mid:], tag, mirror, depth + 1))
    return res


_ST = {}


def _task(bi):
    cases = _ST["batches"][bi]
    lang = _ST["lang"]
    out = {}
    judged = []
    for c in cases:
        exp = langrun.expected(c)
        out[c["id"]] = {"expected": exp}
        if exp[0] == "normal":
            add_asserts(c)
            out[c["id"]]["has_asserts"] = bool(c.get("asserts"))
            judged.append(c)
    if judged:
        o = observe(lang, judged, "c03b%d" % bi)
        for k, v in o.items():
            out[k].update(v)
        mir = [c for c in judged if c.get("asserts_mirror")]
        if mir:
            o2 = observe(lang, mir, "c03m%d" % bi, mirror=True)
            for k, v in o2.items():
                out[k]["mirror"] = v
    return out


# ---------------------------------------------------------------------------- HashMap histories (text family)
HM_KEYS = ["pear", "date", "cherry", "banana", "kiwi", "fig"]      # three pairs that share a bucket in a 16-slot FNV-1a table


# a probe cluster: the first four share their home slot in the 16-slot open-addressing tables of the evaluator and of the
# generated C (64-bit FNV-1a & 15 == 5) AND their bucket in the VM's chained table (32-bit FNV-1a % 16 == 15); the last two
# have the next two home slots, so they sit right behind the cluster.  Removal order inside such a cluster is what
# tombstone handling has to get right.
CL_KEYS = ["aab", "aar", "aen", "aol", "aag", "aed"]


def _fnv(s, bits):
    h, p, m = (1469598103934665603, 1099511628211, (1 << 64) - 1) if bits == 64 else (2166136261, 16777619, (1 << 32) - 1)
    for c in s.encode():
        h = ((h ^ c) * p) & m
    return h


assert [_fnv(k, 64) & 15 for k in CL_KEYS] == [5, 5, 5, 5, 6, 7] and len(set(_fnv(k, 32) % 16 for k in CL_KEYS[:4])) == 1


def state_changing(keys, maxlen):
    """every history of length <= maxlen in which each step changes the map: put of an absent key or removal of a present one"""
    out = []

    def go(seq, present):
        if seq:
            out.append(tuple(seq))
        if len(seq) == maxlen:
            return
        for k in keys:
            if k in present:
                go(seq + [("rm", k)], present - {k})
            else:
                go(seq + [("put", k)], present | {k})
    go([], frozenset())
    return out


def hm_sequences(tier):
    cl = state_changing(CL_KEYS[:3], 5) + state_changing(CL_KEYS[:3] + CL_KEYS[4:5], 4) if tier == "quick" else \
        state_changing(CL_KEYS[:4], 6) + state_changing([CL_KEYS[0], CL_KEYS[1], CL_KEYS[2], CL_KEYS[4], CL_KEYS[5]], 5)
    return _hm_sequences_pairs(tier) + sorted(set(cl), key=lambda q: (len(q), q))


def _hm_sequences_pairs(tier):
    ops = [("put", k) for k in HM_KEYS] + [("rm", k) for k in HM_KEYS]
    seqs = [(o,) for o in ops] + [(a, b) for a in ops for b in ops]
    if tier == "quick":
        for x in HM_KEYS:
            for y in HM_KEYS:
                if x != y:
                    seqs += [(("put", x), ("put", y), ("rm", x)), (("put", x), ("put", y), ("rm", y)), (("put", x), ("rm", x), ("put", y)),
                             (("put", x), ("put", y), ("rm", x), ("put", y)), (("put", x), ("put", y), ("rm", x), ("put", x))]
    else:
        import itertools
        seqs += list(itertools.product(ops, repeat=3))
        ops4 = [("put", k) for k in HM_KEYS[:4]] + [("rm", k) for k in HM_KEYS[:4]]
        seqs += list(itertools.product(ops4, repeat=4))
    return seqs


def hm_function(name, seq):
    body = ["    let hm: HashMap<string, int> = (map_new)"]
    model = {}
    for n, (op, k) in enumerate(seq):
        if op == "put":
            body.append('    (map_put hm "%s" %d)' % (k, 10 + n))
            model[k] = 10 + n
        else:
            body.append('    (map_remove hm "%s")' % k)
            model.pop(k, None)
    exp = []
    for k in (HM_KEYS if seq[0][1] in HM_KEYS else CL_KEYS):
        body.append('    (println (map_has hm "%s"))' % k)
        exp.append("true" if k in model else "false")
        body.append('    if (map_has hm "%s") { (println (map_get hm "%s")) } else { (println -1) }' % (k, k))
        exp.append(str(model.get(k, -1)))
    body.append("    (println (map_size hm))")
    exp.append(str(len(model)))
    body.append("    return (map_size hm)")
    src = "fn %s() -> int {\n%s\n}\nshadow %s {\n    (println (%s))\n}\n" % (name, "\n".join(body), name, name)
    return src, "\n".join(exp) + "\n" + str(len(model)) + "\n"


def _hm_task(args):
    bi, names, srcs = args
    lang = _ST["lang"]
    p = os.path.join(lang.work, "hm%d.nano" % bi)
    main = "fn main() -> int {\n" + "".join('    (println "@@%s")\n    (println (%s))\n' % (n, n) for n in names) + '    (println "@@end")\n    return 0\n}\nshadow main { assert true }\n'
    with open(p, "w") as f:
        f.write("".join(srcs) + main)
    exe = p[:-5] + ".bin"
    rc, out, err = common.run([lang.tree.exe("nanoc_c"), p, "-o", exe, "--verbose"], timeout=600, cwd=lang.work, envx=lang.envx, tmp=lang.tmp)
    txt = out.decode(errors="replace")
    ev = {}
    for n in names:
        m = re.search(r"Testing %s\.\.\. (.*?)(PASSED|FAILED)" % re.escape(n), txt, re.S)
        ev[n] = (m.group(1), m.group(2)) if m else None
    nat = {}
    if rc == 0 and os.path.exists(exe):
        rc2, o2, e2 = common.run([exe], timeout=60, cwd=lang.work, tmp=lang.tmp)
        parts = o2.decode(errors="replace").split("@@")
        for part in parts:
            if "\n" in part:
                nm, rest = part.split("\n", 1)
                nat[nm] = rest
        os.unlink(exe)
    return bi, rc, (out + err)[-3000:].decode(errors="replace"), ev, nat


def hashmap_family(rep, tier, lang):
    seqs = hm_sequences(tier)
    funcs = [("hm%d" % i,) + hm_function("hm%d" % i, sq) + (sq,) for i, sq in enumerate(seqs)]
    B = 60
    jobs = [(bi, [f[0] for f in funcs[bi:bi + B]], [f[1] for f in funcs[bi:bi + B]]) for bi in range(0, len(funcs), B)]
    byname = dict((f[0], f) for f in funcs)
    judged = 0
    for bi, rc, diag, ev, nat in common.pmap(_hm_task, jobs):
        for n, got in ev.items():
            _n, src, exp, sq = byname[n]
            judged += 1
            desc = " ".join("%s(%s)" % o for o in sq)
            if got is None:
                rep.violation("c03:hm:noeval", {"program.nano": src, "diag.txt": diag}, "HashMap history %s: nanoc did not run the shadow test (rc %s): %s" % (desc, rc, diag.strip()[-200:].replace("\n", " | ")))
                continue
            text, verdict = got
            if text != exp:
                rep.violation("c03:hm:%s" % ("/".join(o[0] for o in sq)), {"program.nano": src, "expected.txt": exp, "evaluator.txt": text, "native.txt": nat.get(n, "(not run)")},
                              "HashMap history %s: the evaluator prints %r in the shadow block, a map (and the compiled program: %r) gives %r" % (desc, text[:80], nat.get(n, "?")[:60], exp[:80]),
                              "bin/nanoc_c program.nano -o p --verbose")
            elif n in nat and nat[n] != exp:
                pass      # the compiled program disagreeing with a plain map is C01/C02/C20 territory
    rep.count("states", judged)
    rep.count("transitions", judged)
    rep.count("traces_validated_against_impl", judged)
    rep.coverage["hashmap_histories"] = judged
    rep.sample({"hashmap_history": [list(o) for o in seqs[len(seqs) // 2]], "keys": HM_KEYS})
    return judged


def run(tier):
    rep = common.Report("C03", tier)
    tree = common.build_tree("plain")
    lang = langrun.Lang(tree, os.path.join(common.scratch(), "c03"))
    lang.warm()
    cases = lc.all_cases(tier, LAYERS)
    if tier == "quick":
        cases = [c for i, c in enumerate(cases) if c["layer"] != "E" or i % 3 == 0]
    batches = [cases[i:i + 60] for i in range(0, len(cases), 60)]
    _ST.update({"batches": batches, "lang": lang})
    res = {}
    for part in common.pimap(_task, list(range(len(batches)))):
        res.update(part)
    findings = dict((f["id"], f) for f in common.load_findings("C03"))
    byid = dict((c["id"], c) for c in cases)
    judged = 0
    asserted = mirrored = 0
    for cid in sorted(res, key=lambda k: (len(k), k)):
        r, case = res[cid], byid[cid]
        if r["expected"][0] != "normal":
            continue
        judged += 1
        rep.count("transitions")
        exp = r["expected"][1]
        src = lambda mirror=False: nr.Printer().program(make_shadow_program([case], mirror)[0])

        def explained_by_deviation(text_or_none):
            for fid, dev in (("eval-dynamic-scope", "dynamic_scope"), ("eval-no-block-scope", "no_block_scope")):
                if fid in findings:
                    d = langrun.expected(case, [dev])
                    if d[0] == "normal" and d[1] != exp and (text_or_none is None or d[1] == text_or_none):
                        return fid
            return None

        if r.get("eval") is None:
            fail = r.get("fail", "")
            fid = None
            rep.violation("c03:crash:" + cid, {"program.nano": src(), "diag.txt": fail}, "%s: nanoc did not get through the shadow test (rc %s): %s" % (cid, r["nanoc_rc"], fail.strip()[-160:].replace("\n", " | ")))
            continue
        text, verdict = r["eval"]
        nat = r.get("native")
        problems = []
        if text != exp:
            fid = explained_by_deviation(text)
            if fid:
                rep.known_finding(fid, findings[fid]["what"])
                continue
            if "eval-unsupported-array-op" in findings:
                # re-run this case alone to read the evaluator's own diagnostics
                one = observe(lang, [case], "c03one")
                f1 = one[cid]
                prog1, _o = make_shadow_program([case])
                p1 = os.path.join(lang.work, "c03one_diag.nano")
                open(p1, "w").write(nr.Printer().program(prog1))
                _rc, _out, err1 = common.run([tree.exe("nanoc_c"), p1, "-o", p1 + ".bin", "--verbose"], timeout=120, cwd=lang.work, envx=lang.envx, tmp=lang.tmp)
                if re.search(r"Error: (at|array_set|array_remove_at|array_pop|array_push|array_length)\(\) requires", err1.decode(errors="replace")):
                    rep.known_finding("eval-unsupported-array-op", findings["eval-unsupported-array-op"]["what"])
                    continue
            problems.append("the evaluator prints %r for the shadow block, the compiled program / specification give %r" % (text[:100], exp[:100]))
        elif verdict != "PASSED":
            problems.append("every assertion is true by the language definition but the shadow test FAILED: a correct program is refused")
        if nat is not None and nat != exp and text == exp:
            pass    # native disagreement is C01/C02's business
        if r.get("has_asserts"):
            asserted += 1
        mir = r.get("mirror")
        if mir is not None and mir.get("eval") is not None and text == exp:
            mirrored += 1
            if mir["eval"][1] != "FAILED" or mir["nanoc_rc"] == 0:
                problems.append("a false assertion (== call K+1) PASSES in the evaluator (verdict %s, nanoc rc %s)" % (mir["eval"][1], mir["nanoc_rc"]))
        for pb in problems:
            rep.violation("c03:%s:%s" % (cid, pb[:30]), {"program.nano": src(), "expected.txt": exp, "evaluator.txt": text, "native.txt": nat or "(not run)"},
                          "%s [%s]: %s" % (cid, case["layer"], pb), "bin/nanoc_c program.nano -o p --verbose   # text between 'Testing <f>... ' and PASSED/FAILED")
    hashmap_family(rep, tier, lang)
    xfam.judge(rep, "C03", lang, tier)      # text-template families: features outside the typed AST enumerator
    rep.count("states", judged)
    rep.count("traces_validated_against_impl", judged)
    rep.coverage.update({"cases": len(cases), "with_true_assertions": asserted, "with_mirrored_false_assertion": mirrored,
                         "per_layer": dict((l, sum(1 for c in cases if c["layer"] == l)) for l in sorted(set(c["layer"] for c in cases)))})
    c0 = next(c for c in cases if c["layer"] == "S")
    add_asserts(c0)
    rep.sample({"id": c0["id"], "source": nr.Printer().program(make_shadow_program([c0])[0])[-700:]})
    rep.assumptions += ["shadow blocks replay the calls main performs; K values come from NanoRef", "functions using extern calls are skipped by nanoc itself and not generated"]
    if judged < 300:
        raise common.HarnessError("vacuous C03")
    return rep.finish()
