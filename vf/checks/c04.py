"""C04  Accepted programs never get stuck on any backend.

Loose-grammar enumeration: small complete programs are generated from templates in which the type
discipline is switched OFF at exactly one position (every operator x every ordered pair of operand
types, every statement slot x every type, every core builtin x every argument-type tuple, identifier
resolution shapes, literal shapes, constants at the int64 boundary, global initialisers ...).  Nothing
is sampled: each family is a full product.  Every candidate goes to the tree's real front end
(fe_probe: tokenize, parse, process_imports, type_check).  Only candidates the REAL type checker
accepts carry an obligation, and for each of them:

  bytecode backend  codegen_compile succeeds, nvm_verify passes, vm_execute (fuel-limited, hook H1) ends
                    VM_OK or in a documented fault (assert, index out of bounds, call depth)
  native backend    the real nanoc produces an executable (generated C accepted by the C compiler) and the
                    executable ends normally or in a documented fault (assert / bounds abort, SIGFPE on
                    division by zero) - never SIGSEGV/SIGBUS/SIGILL or a time-out

Known findings are matched by input class (family + failure class), see known_findings.json.
"""
import itertools
import os
import re
import struct

from .. import common, langrun
from . import langcommon

FE = os.path.join(common.VERIF, "vf/probes/fe_probe.c")

# ------------------------------------------------------------------------------------------ value pools
PRE = '''struct P { x: int, y: int }
enum E { A, B }
union U { L { v: int }, R { s: string } }
fn inc(k: int) -> int { return (+ k 1) }
shadow inc { assert (== (inc 1) 2) }
'''
#        key     type text            literal                          printable
TY = [("int",   "int",               "7",                             True),
      ("bool",  "bool",              "true",                          True),
      ("str",   "string",            '"ab"',                          True),
      ("flt",   "float",             "1.5",                           False),
      ("arr",   "array<int>",        "[1, 2]",                        False),
      ("sarr",  "array<string>",     '["x", "y"]',                    False),
      ("st",    "P",                 "P { x: 1, y: 2 }",              False),
      ("en",    "E",                 "E.B",                           False),
      ("tup",   "(int, string)",     '(1, "t")',                      False),
      ("fn",    "fn(int) -> int",    "inc",                           False),
      ("un",    "U",                 "U.L { v: 1 }",                  False)]
TKEY = [t[0] for t in TY]
TTEXT = {t[0]: t[1] for t in TY}
TLIT = {t[0]: t[2] for t in TY}
PARAMS = ", ".join("v%s: %s" % (k, TTEXT[k]) for k in TKEY)
ARGS = " ".join(TLIT[k] for k in TKEY)
BINOPS = ["+", "-", "*", "/", "%", "==", "!=", "<", "<=", ">", ">=", "and", "or"]
RES = ["int", "bool", "str", "flt"]


def prog(body, extra_top="", ret="0", pre=PRE):
    """one complete program: function c(all typed params) runs `body`; main calls it once and prints 'ran'"""
    return ("%s%sfn c(%s) -> int {\n%s    return %s\n}\nshadow c { assert true }\n"
            "fn main() -> int {\n    let r: int = (c %s)\n    (println r)\n    (println \"ran\")\n    return 0\n}\nshadow main { assert true }\n"
            % (pre, extra_top, PARAMS, body, ret, ARGS))


def use(var, tkey):
    """a statement that consumes `var` so that it is not optimised away / flagged unused"""
    if tkey in ("int", "bool", "str"):
        return "    (println %s)\n" % var
    if tkey == "flt":
        return "    (println (< %s 100.0))\n" % var
    if tkey in ("arr", "sarr"):
        return "    (println (array_length %s))\n" % var
    if tkey == "st":
        return "    (println %s.x)\n" % var
    if tkey == "tup":
        return "    (println %s.0)\n" % var
    if tkey == "fn":
        return "    (println (%s 1))\n" % var
    if tkey == "en":
        return "    (println (== %s E.A))\n" % var
    return ""


# ------------------------------------------------------------------------------------------ families
def fam_binop(tier):
    for op in BINOPS:
        for a in TKEY:
            for b in TKEY:
                for r in RES + ([a] if a not in RES else []):
                    yield ("binop %s %s %s -> %s" % (op, a, b, r),
                           prog("    let r0: %s = (%s v%s v%s)\n%s" % (TTEXT[r], op, a, b, use("r0", r))))
    # literal operands (constant folding paths) for the scalar types
    for op in BINOPS:
        for a in ("int", "bool", "str", "flt"):
            for b in ("int", "bool", "str", "flt"):
                for r in RES:
                    yield ("binop-lit %s %s %s -> %s" % (op, a, b, r),
                           prog("    let r0: %s = (%s %s %s)\n%s" % (TTEXT[r], op, TLIT[a], TLIT[b], use("r0", r))))


def fam_unop(tier):
    for op in ("-", "not"):
        for a in TKEY:
            for r in RES + ["arr", "sarr"]:
                yield ("unop %s %s -> %s" % (op, a, r), prog("    let r0: %s = (%s v%s)\n%s" % (TTEXT[r], op, a, use("r0", r))))


def fam_slots(tier):
    for a in TKEY:
        yield ("if-cond " + a, prog("    if v%s { (println 1) } else { (println 2) }\n" % a))
        yield ("while-cond " + a, prog("    while v%s { break }\n" % a))
        yield ("assert " + a, prog("    assert v%s\n" % a))
        yield ("println " + a, prog("    (println v%s)\n" % a))
        yield ("print " + a, prog("    (print v%s)\n" % a))
        yield ("exprstmt " + a, prog("    v%s\n" % a))
        yield ("for-lo " + a, prog("    for i in (range v%s 3) { (println i) }\n" % a))
        yield ("for-hi " + a, prog("    for i in (range 0 v%s) { (println i) }\n" % a))
        yield ("ret " + a, prog("", ret="v" + a))
        yield ("call-as-fn " + a, prog("    (println (v%s 1))\n" % a))
        yield ("field " + a, prog("    (println v%s.x)\n" % a))
        yield ("tuple0 " + a, prog("    (println v%s.0)\n" % a))
        yield ("tuple5 " + a, prog("    (println v%s.5)\n" % a))
        yield ("match " + a, prog("    match v%s {\n        L(q) => { (println q.v) }\n        R(q) => { (println q.s) }\n    }\n" % a))
        for b in TKEY:
            yield ("set %s := %s" % (a, b), prog("    let mut m: %s = v%s\n    set m v%s\n%s" % (TTEXT[a], a, b, use("m", a))))
            yield ("let %s = %s" % (a, b), prog("    let m: %s = v%s\n%s" % (TTEXT[a], b, use("m", a))))
            yield ("return %s from %s" % (b, a), prog("    let m: %s = (h v%s)\n%s" % (TTEXT[a], b, use("m", a)),
                                                        extra_top="fn h(q: %s) -> %s { return q }\nshadow h { assert true }\n" % (TTEXT[b], TTEXT[a])))
            yield ("arg %s for %s" % (b, a), prog("    (println (h v%s))\n" % b,
                                                   extra_top="fn h(q: %s) -> int { return 1 }\nshadow h { assert true }\n" % TTEXT[a]))
            yield ("arrlit [%s, %s]" % (a, b), prog("    let m: array<%s> = [v%s, v%s]\n    (println (array_length m))\n" % (TTEXT[a], a, b)))
            yield ("if-expr-branches %s %s" % (a, b), prog("    let mut m: %s = v%s\n    if vbool { set m v%s } else { set m v%s }\n%s" % (TTEXT[a], a, a, b, use("m", a))))
    for n in (0, 2, 3):
        yield ("arity h/1 called with %d" % n, prog("    (println (h %s))\n" % " ".join(["1"] * n), extra_top="fn h(q: int) -> int { return q }\nshadow h { assert true }\n"))
    yield ("void fn as value", prog("    let m: int = (h 1)\n    (println m)\n", extra_top="fn h(q: int) -> void { (println q) }\nshadow h { assert true }\n"))
    yield ("void fn stmt", prog("    (h 1)\n", extra_top="fn h(q: int) -> void { (println q) }\nshadow h { assert true }\n"))
    yield ("missing return", prog("", extra_top="fn h(q: int) -> int { if (> q 0) { return 1 } else { (println q) } }\nshadow h { assert true }\n"))
    yield ("return in void", prog("    (h 1)\n", extra_top="fn h(q: int) -> void { return }\nshadow h { assert true }\n"))


# core builtins: name -> arity (pure, core-language; I/O, OS, list_*, bstr_*, result_* and hashmaps are outside the bound)
BUILTINS = {"abs": 1, "min": 2, "max": 2, "sqrt": 1, "pow": 2, "floor": 1, "ceil": 1, "round": 1, "sin": 1,
            "cast_int": 1, "cast_float": 1, "cast_bool": 1, "cast_string": 1, "to_string": 1,
            "int_to_string": 1, "float_to_string": 1, "bool_to_string": 1, "string_to_int": 1, "string_to_float": 1,
            "str_length": 1, "str_concat": 2, "str_substring": 3, "str_contains": 2, "str_equals": 2, "char_at": 2,
            "string_from_char": 1, "is_digit": 1, "is_alpha": 1, "is_alnum": 1, "is_space": 1, "is_upper": 1, "is_lower": 1,
            "digit_value": 1, "char_to_lower": 1, "char_to_upper": 1,
            "array_length": 1, "array_new": 2, "array_set": 3, "at": 2, "array_get": 2, "array_push": 2, "array_pop": 1,
            "array_remove_at": 2, "array_slice": 3, "array_concat": 2, "range": 2,
            "map": 2, "filter": 2, "reduce": 3, "str_index_of": 2, "println": 1, "print": 1}
BARG = ["int", "bool", "str", "flt", "arr", "sarr", "fn"]
BARG2 = BARG + ["st", "en", "tup", "un"]      # aggregate / enum arguments, for built-ins of up to two parameters
# literal arguments that keep every index-taking builtin in range when the types happen to be right
BLIT = {"int": "1", "bool": "true", "str": '"ab"', "flt": "1.5", "arr": "[1, 2, 3]", "sarr": '["x", "y", "z"]', "fn": "inc",
        "st": "vst", "en": "ven", "tup": "vtup", "un": "vun"}


def fam_builtins(tier):
    for name in sorted(BUILTINS):
        k = BUILTINS[name]
        pool = BARG2 if k <= 2 else (BARG if tier != "quick" else ["int", "bool", "str", "arr", "sarr"])
        for tup in itertools.product(pool, repeat=k):
            call = "(%s %s)" % (name, " ".join(BLIT[t] for t in tup))
            yield ("builtin-stmt %s(%s)" % (name, ",".join(tup)), prog("    %s\n" % call))
            for r in ("int", "bool", "str", "flt", "arr", "sarr"):
                yield ("builtin %s(%s) -> %s" % (name, ",".join(tup), r),
                       prog("    let r0: %s = %s\n%s" % (TTEXT[r], call, use("r0", r))))
        for n in sorted({0, k - 1, k + 1} - {k, -1}):
            yield ("builtin-arity %s/%d with %d" % (name, k, n), prog("    (%s %s)\n" % (name, " ".join(["1"] * n))))


def fam_scope(tier):
    """identifier resolution: where may a name come from?"""
    other = "fn other(q: int) -> int {\n    let hidden: int = (+ q 1)\n    for li in (range 0 2) { (println li) }\n    return hidden\n}\nshadow other { let sv: int = 3  assert (== (other 1) 2) }\n"
    later = "fn later(q2: int) -> int {\n    let future: int = (+ q2 1)\n    return future\n}\nshadow later { assert true }\n"
    glob = "let gi: int = 5\nlet mut gm: int = 6\nlet gs: string = \"g\"\n"
    uses = {
        "own local": "    let z: int = 1\n    (println z)\n",
        "own param": "    (println vint)\n",
        "global": "    (println gi)\n    (println gs)\n",
        "global set": "    set gm (+ gm 1)\n    (println gm)\n",
        "immutable global set": "    set gi 1\n",
        "local of earlier fn": "    (println hidden)\n",
        "param of earlier fn": "    (println q)\n",
        "loop var of earlier fn": "    (println li)\n",
        "shadow-block local of earlier fn": "    (println sv)\n",
        "local of later fn": "    (println future)\n",
        "block local after block": "    if vbool { let inner: int = 2  (println inner) } else {}\n    (println inner)\n",
        "else local after if": "    if vbool {} else { let inner: int = 2  (println inner) }\n    (println inner)\n",
        "while local after loop": "    let mut n: int = 0\n    while (< n 1) { let inner: int = 2  set n (+ n inner) }\n    (println inner)\n",
        "for var after loop": "    for fi in (range 0 2) { (println fi) }\n    (println fi)\n",
        "match binding after match": "    match vun {\n        L(q7) => { (println q7.v) }\n        R(q8) => { (println q8.s) }\n    }\n    (println q7.v)\n",
        "use before let": "    (println z)\n    let z: int = 1\n",
        "self-referential let": "    let z: int = (+ z 1)\n    (println z)\n",
        "shadow in block then outer": "    let z: int = 1\n    if vbool { let z: string = \"s\"  (println z) } else {}\n    (println (+ z 1))\n",
        "shadow param": "    let vint: string = \"s\"\n    (println vint)\n",
        "redeclare same scope": "    let z: int = 1\n    let z: int = 2\n    (println z)\n",
        "redeclare other type": "    let z: int = 1\n    let z: string = \"b\"\n    (println z)\n",
        "set immutable": "    let z: int = 1\n    set z 2\n    (println z)\n",
        "set param": "    set vint 2\n    (println vint)\n",
        "set undeclared": "    set nope 2\n",
        "set in block of outer mut": "    let mut z: int = 1\n    if vbool { set z 2 } else {}\n    (println z)\n",
        "set after inner immutable shadow": "    let mut z: int = 1\n    if vbool { let z: int = 5  (println z) } else {}\n    set z 2\n    (println z)\n",
        "function name as value": "    let g: fn(int) -> int = other\n    (println (g 1))\n",
        "function name as int": "    (println (+ other 1))\n",
        "struct name as value": "    (println P)\n",
        "enum name as value": "    (println E)\n",
        "call undefined": "    (println (nothere 1))\n",
        "call local int": "    let z: int = 1\n    (println (z 1))\n",
        "call later fn": "    (println (later 1))\n",
        "call main": "    if false { (println (main)) } else {}\n",
        "recursive closure": "    (println (other (other 1)))\n",
        "builtin name as variable": "    let println: int = 1\n    (println println)\n",
        "variable named like type": "    let int: int = 1\n    (println int)\n",
        "variable named like fn": "    let other: int = 1\n    (println other)\n",
        "param named like global": "    (println (h2 1))\n",
        "break outside loop": "    break\n",
        "continue outside loop": "    continue\n",
        "break in if in loop": "    for bi in (range 0 3) { if (== bi 1) { break } else {} }\n",
        "return in loop": "    for bi in (range 0 3) { if (== bi 1) { return bi } else {} }\n",
        "nested fn": "    (println (other 1))\n",
    }
    tops = {"param named like global": "fn h2(gi: int) -> int { return (+ gi 1) }\nshadow h2 { assert true }\n",
            "nested fn": "fn outerf(a: int) -> int {\n    fn innerf(b: int) -> int { return (+ a b) }\n    return (innerf 2)\n}\nshadow outerf { assert true }\n"}
    for name, body in uses.items():
        yield ("scope " + name, prog(body, extra_top=glob + other + tops.get(name, ""), pre=PRE) + later)
    # the same uses inside a shadow block and inside a second function
    for name, body in uses.items():
        if "v" + "int" in body or "vbool" in body or "vun" in body or "return" in body:
            continue
        src = PRE + glob + other + "fn main() -> int {\n    (println \"ran\")\n    return 0\n}\nshadow main {\n" + body + "    assert true\n}\n" + later
        yield ("scope-in-shadow " + name, src)
    # nested functions / closures capturing every kind of value
    for k in TKEY:
        body = "    (println (mk%s v%s))\n" % (k, k)
        top = ("fn mk%s(cap: %s) -> int {\n    fn inner(b: int) -> int {\n%s        return b\n    }\n    return (inner 2)\n}\nshadow mk%s { assert true }\n"
               % (k, TTEXT[k], use("cap", k).replace("    ", "        ", 1), k))
        yield ("closure capturing " + k, prog(body, extra_top=top))
        top2 = ("fn mkf%s(cap: %s) -> fn(int) -> int {\n    fn inner(b: int) -> int {\n%s        return b\n    }\n    return inner\n}\nshadow mkf%s { assert true }\n"
                % (k, TTEXT[k], use("cap", k).replace("    ", "        ", 1), k))
        yield ("returned closure capturing " + k, prog("    let g: fn(int) -> int = (mkf%s v%s)\n    (println (g 3))\n" % (k, k), extra_top=top2))


def fam_consts(tier):
    I64 = ["0", "1", "-1", "9223372036854775807", "-9223372036854775807", "-9223372036854775808", "9223372036854775808",
           "18446744073709551615", "18446744073709551616", "2147483647", "2147483648", "-2147483649", "4294967296", "99999999999999999999999"]
    for a in I64:
        yield ("const " + a, prog("    let z: int = %s\n    (println z)\n" % a))
        yield ("const neg " + a, prog("    let z: int = (- %s)\n    (println z)\n" % a))
        for op in ("+", "-", "*", "/", "%"):
            for b in ("0", "1", "-1", "2", "9223372036854775807", "-9223372036854775808"):
                yield ("const %s %s %s" % (op, a, b), prog("    let z: int = (%s %s %s)\n    (println z)\n" % (op, a, b)))
                if tier != "quick" or b in ("0", "-1"):
                    yield ("var-const %s vint %s" % (op, b), prog("    let z: int = (%s vint %s)\n    (println z)\n" % (op, b)))
    for f in ("0.0", "-0.0", "1e308", "1e309", "1.0e-400", "1.", ".5", "1e", "0x10", "1_000", "07", "1.5.2"):
        yield ("float-lit " + f, prog("    let z: float = %s\n    (println (< z 1.0))\n" % f))
        yield ("float-div0 " + f, prog("    let z: float = (/ %s 0.0)\n    (println (< z 1.0))\n" % f))
    for s in ('""', '"a b"', '"tab\\there"', '"q\\"q"', '"nl\\n"', '"pct %d %s"', '"back\\\\slash"', '"uni\\u00e9"', "'c'", '"é"', '"a\\0b"'):
        yield ("string-lit " + s, prog("    let z: string = %s\n    (println z)\n    (println (str_length z))\n" % s))
    for idx in ("0", "1", "2", "-1", "5", "9223372036854775807"):
        yield ("const-index at " + idx, prog("    (println (at varr %s))\n" % idx))
        yield ("const-index tuple " + idx, prog("    (println vtup.%s)\n" % idx))
        yield ("const-index substring " + idx, prog("    (println (str_substring vstr %s 1))\n" % idx))
        yield ("const-index char_at " + idx, prog("    (println (char_at vstr %s))\n" % idx))
        if len(idx) < 3:      # a 2^63-element array is resource exhaustion, not a stuck program
            yield ("const array_new " + idx, prog("    let z: array<int> = (array_new %s 0)\n    (println (array_length z))\n" % idx))


def fam_literals(tier):
    fields = [("x: 1, y: 2", "ok"), ("y: 2, x: 1", "reordered"), ("x: 1", "missing"), ("x: 1, y: 2, z: 3", "extra"), ("x: true, y: 2", "wrong type"),
              ("x: 1, x: 2", "duplicate"), ("", "empty"), ("x: vstr, y: vflt", "wrong types vars")]
    for f, n in fields:
        yield ("struct-lit " + n, prog("    let z: P = P { %s }\n    (println z.x)\n" % f))
    for f, n in [("L { v: 1 }", "ok"), ("L { v: true }", "wrong type"), ("L { }", "missing"), ("L { v: 1, w: 2 }", "extra"), ("Q { v: 1 }", "unknown variant"),
                 ("R { s: \"k\" }", "ok R"), ("R { s: 1 }", "wrong type R"), ("L", "bare")]:
        yield ("union-lit " + n, prog("    let z: U = U.%s\n    match z {\n        L(q) => { (println q.v) }\n        R(q) => { (println q.s) }\n    }\n" % f))
    for m, n in [("L(q) => { (println q.v) }\n", "missing arm"), ("L(q) => { (println q.v) }\n        R(q) => { (println q.s) }\n        L(q) => { (println 3) }\n", "duplicate arm"),
                 ("L(q) => { (println q.s) }\n        R(q) => { (println q.v) }\n", "swapped fields"), ("L(q) => { (println q.nofield) }\n        R(q) => { (println q.s) }\n", "unknown field"),
                 ("Z(q) => { (println 1) }\n        R(q) => { (println q.s) }\n", "unknown variant"), ("L(q) => { return q.v }\n        R(q) => { return 2 }\n", "returning arms")]:
        yield ("match " + n, prog("    match vun {\n        %s    }\n" % m))
    for e, n in [("E.A", "ok"), ("E.C", "unknown"), ("E", "bare"), ("0", "int for enum"), ("E.A.B", "nested")]:
        yield ("enum-lit " + n, prog("    let z: E = %s\n    (println (== z E.A))\n" % e))
        yield ("enum-as-int " + n, prog("    let z: int = %s\n    (println z)\n" % e))
    for t, n in [("(1, \"t\")", "ok"), ("(1, 2)", "wrong elem"), ("(1, \"t\", 3)", "extra"), ("(1)", "single"), ("()", "empty")]:
        yield ("tuple-lit " + n, prog("    let z: (int, string) = %s\n    (println z.0)\n" % t))
    for a, n in [("[]", "empty"), ("[1]", "one"), ("[1, true]", "mixed"), ("[[1], [2]]", "nested for flat"), ("[vstr]", "string for int")]:
        for et in ("int", "string", "array<int>", "P", "bool", "float"):
            yield ("array-lit %s as array<%s>" % (n, et), prog("    let z: array<%s> = %s\n    (println (array_length z))\n" % (et, a)))
    for et in TKEY:
        yield ("empty array push " + et, prog("    let mut z: array<%s> = []\n    set z (array_push z v%s)\n    (println (array_length z))\n" % (TTEXT[et], et)))
        yield ("array of " + et, prog("    let z: array<%s> = [v%s, v%s]\n    let y: %s = (at z 1)\n%s" % (TTEXT[et], et, et, TTEXT[et], use("y", et))))
        yield ("struct holding " + et, prog("    let z: W = W { f: v%s, n: 1 }\n    let y: %s = z.f\n%s" % (et, TTEXT[et], use("y", et)),
                                             extra_top="struct W { f: %s, n: int }\n" % TTEXT[et]))
        yield ("tuple holding " + et, prog("    let z: (%s, int) = (v%s, 1)\n    let y: %s = z.0\n%s" % (TTEXT[et], et, TTEXT[et], use("y", et))))
        yield ("union holding " + et, prog("    let z: UW = UW.K { f: v%s }\n    match z {\n        K(q) => { let y: %s = q.f\n%s        }\n        N(q) => { (println q.n) }\n    }\n" % (et, TTEXT[et], use("y", et)),
                                            extra_top="union UW { K { f: %s }, N { n: int } }\n" % TTEXT[et]))
        yield ("fn returning " + et, prog("    let y: %s = (mk v%s)\n%s" % (TTEXT[et], et, use("y", et)),
                                           extra_top="fn mk(q: %s) -> %s { return q }\nshadow mk { assert true }\n" % (TTEXT[et], TTEXT[et])))
        yield ("eq on " + et, prog("    (println (== v%s v%s))\n    (println (!= v%s v%s))\n" % (et, et, et, et)))


def fam_globals(tier):
    for k in TKEY:
        yield ("global literal " + k, PRE + "let g0: %s = %s\n" % (TTEXT[k], TLIT[k]) + "fn main() -> int {\n" + use("g0", k) + "    (println \"ran\")\n    return 0\n}\nshadow main { assert true }\n")
        yield ("global mut literal " + k, PRE + "let mut g0: %s = %s\n" % (TTEXT[k], TLIT[k]) + "fn main() -> int {\n    set g0 %s\n" % TLIT[k] + use("g0", k) + "    (println \"ran\")\n    return 0\n}\nshadow main { assert true }\n")
    inits = {"call": "(inc 1)", "arith": "(+ 1 2)", "other global": "g1", "nested call": "(inc (inc 1))", "string concat": '(+ "a" "b")',
             "str_length": '(str_length "abc")', "array literal of calls": "[(inc 1), 2]", "at literal": "(at [1, 2] 0)", "neg": "(- 5)", "overflow": "(+ 9223372036854775807 1)",
             "div0": "(/ 1 0)", "cmp": "(< 1 2)", "int_to_string": "(int_to_string 5)", "later global": "g9", "self": "g0", "effectful": "(noisy 1)"}
    typ = {"string concat": "string", "array literal of calls": "array<int>", "cmp": "bool", "int_to_string": "string"}
    for n, e in inits.items():
        t = typ.get(n, "int")
        k = {"int": "int", "string": "str", "array<int>": "arr", "bool": "bool"}[t]
        src = (PRE + "fn noisy(k: int) -> int { (println k) return k }\nshadow noisy { assert true }\nlet g1: int = 4\nlet g0: %s = %s\nlet g9: int = 9\n" % (t, e) +
               "fn main() -> int {\n" + use("g0", k) + "    (println \"ran\")\n    return 0\n}\nshadow main { assert true }\n")
        yield ("global init " + n, src)
    for sig, n in [("fn main() -> void {\n    (println \"ran\")\n}", "void main"), ("fn main() -> bool {\n    (println \"ran\")\n    return true\n}", "bool main"),
                   ("fn main(a: int) -> int {\n    (println \"ran\")\n    return a\n}", "main with param"), ("fn main() -> string {\n    return \"s\"\n}", "string main"),
                   ("fn main() -> int {\n    return 300\n}", "main returns 300"), ("fn main() -> int {\n    return -1\n}", "main returns -1"),
                   ("fn notmain() -> int {\n    return 0\n}\nshadow notmain { assert true }", "no main"),
                   ("fn main() -> int {\n    return 0\n}\nfn main() -> int {\n    return 1\n}", "two mains"),
                   ("fn main() -> int {\n    return 0\n}\nfn dup(a: int) -> int { return a }\nshadow dup { assert true }\nfn dup(a: int) -> int { return 2 }", "duplicate fn"),
                   ("struct P { q: int }\nfn main() -> int {\n    return 0\n}", "duplicate struct"),
                   ("fn main() -> int {\n    let p: P = P { x: 1, y: 2 }\n    return p.x\n}\nstruct Late { a: int }", "struct after use"),
                   ("fn main() -> int {\n    return (late 1)\n}\nfn late(a: int) -> int { return 0 }\nshadow late { assert true }", "fn after use")]:
        yield ("toplevel " + n, PRE + sig + "\nshadow main { assert true }\n" if "notmain" not in sig else PRE + sig + "\n")


# ---- well-typed feature interactions: value kind x producer x enclosing function's return kind (all well typed
#      by construction; the real checker still decides, rejected ones carry no obligation)
WPRE = '''struct P { x: int, y: int }
struct Q { y: string, x: int }
struct W2 { p: P, q: Q, n: int }
enum E { A, B }
union U { L { v: int }, R { s: string } }
fn inc(k: int) -> int { return (+ k 1) }
shadow inc { assert (== (inc 1) 2) }
'''
#        kind     type             two distinct literals                                   consumer of variable z
WK = [("int",   "int",            ("7", "8"),                                             "(println (+ z 1))"),
      ("bool",  "bool",           ("true", "false"),                                      "(println (not z))"),
      ("str",   "string",         ('"ab"', '"cd"'),                                       "(println (+ z \"!\"))"),
      ("flt",   "float",          ("1.5", "2.5"),                                         "(println (< (+ z 1.0) 3.0))"),
      ("arr",   "array<int>",     ("[1, 2]", "[3]"),                                      "(println (+ (at z 0) (array_length z)))"),
      ("sarr",  "array<string>",  ('["x", "y"]', '["z"]'),                                "(println (+ (at z 0) \"!\"))"),
      ("stP",   "P",              ("P { x: 1, y: 2 }", "P { x: 3, y: 4 }"),               "(println (+ z.x (* z.y 10)))"),
      ("stQ",   "Q",              ('Q { y: "s", x: 5 }', 'Q { y: "t", x: 6 }'),           "(println (+ z.x 1))\n    (println (+ z.y \"!\"))"),
      ("stW",   "W2",             ('W2 { p: P { x: 1, y: 2 }, q: Q { y: "s", x: 5 }, n: 9 }', 'W2 { p: P { x: 3, y: 4 }, q: Q { y: "t", x: 6 }, n: 8 }'),
                                                                                           "(println (+ z.q.x z.p.y))\n    (println (+ z.q.y \"!\"))"),
      ("en",    "E",              ("E.A", "E.B"),                                         "(println (== z E.B))"),
      ("tup",   "(int, string)",  ('(1, "t")', '(2, "u")'),                               "(println (+ z.0 1))\n    (println (+ z.1 \"!\"))"),
      ("un",    "U",              ("U.L { v: 1 }", 'U.R { s: "k" }'),                     "match z {\n        L(q) => { (println (+ q.v 1)) }\n        R(q) => { (println (+ q.s \"!\")) }\n    }"),
      ("fn",    "fn(int) -> int", ("inc", "inc"),                                         "(println (z 1))")]


def fam_wellformed(tier):
    for k, t, (l1, l2), cons in WK:
        prods = {
            "param": ("", "    let z: %s = a\n" % t),
            "local": ("", "    let z: %s = %s\n" % (t, l2)),
            "mutable-set": ("", "    let mut z: %s = %s\n    set z a\n" % (t, l2)),
            "fn-result": ("fn mk(q: %s) -> %s { return q }\nshadow mk { assert true }\n" % (t, t), "    let z: %s = (mk a)\n" % t),
            "fn-result-literal": ("fn mk2() -> %s { return %s }\nshadow mk2 { assert true }\n" % (t, l2), "    let z: %s = (mk2)\n" % t),
            "if-expr": ("", "    let z: %s = if c { a } else { %s }\n" % (t, l2)),
            "if-expr-nested": ("", "    let z: %s = if c { if (not c) { %s } else { a } } else { %s }\n" % (t, l2, l2)),
            "match-expr": ("", "    let z: %s = match u {\n        L(q) => a,\n        R(q) => %s\n    }\n" % (t, l2)),
            "match-stmt-set": ("", "    let mut z: %s = %s\n    match u {\n        L(q) => { set z a }\n        R(q) => { (println q.s) }\n    }\n" % (t, l2)),
            "array-elem": ("", "    let xs: array<%s> = [a, %s]\n    let z: %s = (at xs 0)\n" % (t, l2, t)),
            "array-push-pop": ("", "    let mut xs: array<%s> = []\n    set xs (array_push xs a)\n    set xs (array_push xs %s)\n    let z: %s = (at xs 1)\n" % (t, l2, t)),
            "struct-field": ("struct H { f: %s, n: int }\n" % t, "    let h: H = H { f: a, n: 1 }\n    let z: %s = h.f\n" % t),
            "tuple-elem": ("", "    let tp: (int, %s) = (1, a)\n    let z: %s = tp.1\n" % (t, t)),
            "union-payload": ("union UH { K { f: %s }, N { n: int } }\n" % t,
                              "    let uh: UH = UH.K { f: a }\n    let mut z: %s = %s\n    match uh {\n        K(q) => { set z q.f }\n        N(q) => { (println q.n) }\n    }\n" % (t, l2)),
            "loop-carried": ("", "    let mut z: %s = %s\n    for i in (range 0 2) { if (== i 1) { set z a } else {} }\n" % (t, l2)),
            "global": ("let g0: %s = %s\n" % (t, l1), "    let z: %s = g0\n" % t),
            "closure-capture": ("", "    fn inner(b: int) -> int {\n        let z: %s = a\n        %s\n        return b\n    }\n    (println (inner 1))\n    let z: %s = a\n" % (t, cons.replace("\n    ", "\n        "), t)),
        }
        prods["param-direct"] = ("", "")
        for pn, (top, body) in prods.items():
            for rk in ("int", "same"):
                rt = "int" if rk == "int" else t
                ret = "0" if rk == "int" else "z"
                if pn == "param-direct":          # consume the parameter itself, no intermediate let
                    cons0, cons, ret = cons, re.sub(r"\bz\b", "a", cons), ("0" if rk == "int" else "a")
                src = (WPRE + top + "fn c(a: %s, c: bool, u: U) -> %s {\n%s    %s\n    return %s\n}\nshadow c { assert true }\n" % (t, rt, body, cons, ret) +
                       "fn main() -> int {\n    let r1: %s = (c %s true U.L { v: 1 })\n    let r2: %s = (c %s false U.R { s: \"w\" })\n    (println \"ran\")\n    return 0\n}\nshadow main { assert true }\n" % (rt, l1, rt, l1))
                yield ("wf %s via %s returning %s" % (k, pn, rk), src)
                if pn == "param-direct":
                    cons = cons0


def fam_samenames(tier):
    """two functions re-using the same parameter / local names at different types (the checker's symbol table is
    never popped, so every later by-name lookup - type checker, transpiler, bytecode compiler - sees both)"""
    for k1, t1, (l1a, l1b), c1 in WK:
        for k2, t2, (l2a, l2b), c2 in WK:
            if k1 == k2:
                continue
            body = lambda cons: "    %s\n    let z: %%s = a\n    %s\n" % (re.sub(r"\bz\b", "a", cons), cons)
            src = (WPRE +
                   "fn f1(a: %s) -> int {\n%s    return 1\n}\nshadow f1 { assert true }\n" % (t1, body(c1) % t1) +
                   "fn f2(a: %s) -> int {\n%s    return 2\n}\nshadow f2 { assert true }\n" % (t2, body(c2) % t2) +
                   "fn main() -> int {\n    (println (f1 %s))\n    (println (f2 %s))\n    (println (f1 %s))\n    (println \"ran\")\n    return 0\n}\nshadow main { assert true }\n" % (l1a, l2a, l1b))
            yield ("samenames %s then %s" % (k1, k2), src)


def fam_structperm(tier):
    """struct literals: every field order x every assignment of value types to the named fields (3 fields of
    distinct types); exactly the assignments that give each NAME its declared type are well typed"""
    F = [("n", "int", "5"), ("s", "string", '"x"'), ("b", "bool", "true")]
    vals = {"int": "5", "string": '"x"', "bool": "true"}
    for order in itertools.permutations(range(3)):
        for tys in itertools.product(("int", "string", "bool"), repeat=3):
            lit = ", ".join("%s: %s" % (F[i][0], vals[tys[k]]) for k, i in enumerate(order))
            ok = all(tys[k] == F[i][1] for k, i in enumerate(order))
            body = ("    let z: T3 = T3 { %s }\n    (println (+ z.n 1))\n    (println (+ z.s \"!\"))\n    (println (not z.b))\n" % lit)
            yield ("structperm order=%s types=%s%s" % ("".join(F[i][0] for i in order), ",".join(tys), " (well typed)" if ok else ""),
                   prog(body, extra_top="struct T3 { n: int, s: string, b: bool }\n"))
    # the same through a function parameter / return value / array element
    for order in itertools.permutations(range(3)):
        lit = ", ".join("%s: %s" % (F[i][0], F[i][2]) for i in order)
        yield ("structperm-call order=%s" % "".join(F[i][0] for i in order),
               prog("    (println (use3 T3 { %s }))\n    let r: T3 = (mk3)\n    (println r.s)\n" % lit,
                    extra_top="struct T3 { n: int, s: string, b: bool }\nfn use3(t: T3) -> int { (println t.s) return (+ t.n 1) }\nshadow use3 { assert true }\n"
                              "fn mk3() -> T3 { return T3 { %s } }\nshadow mk3 { assert true }\n" % lit))


def fam_nestctl(tier):
    """control-flow nesting: every (outer, inner) pair of {while, for, if, match arm, unsafe, nested function
    containing a loop} with break / continue / early return in the inner construct, the nested function
    defined and called INSIDE the outer construct (its loops must not disturb the enclosing loop's bookkeeping)"""
    inner = {
        "while-break": "let mut j: int = 0\n        while (< j 5) { set j (+ j 1)  if (== j 2) { break } else {} }\n        (println j)",
        "while-continue": "let mut j: int = 0\n        let mut t: int = 0\n        while (< j 4) { set j (+ j 1)  if (== j 2) { continue } else {}  set t (+ t j) }\n        (println t)",
        "for-break": "let mut t: int = 0\n        for j in (range 0 5) { if (== j 3) { break } else {}  set t (+ t j) }\n        (println t)",
        "for-continue": "let mut t: int = 0\n        for j in (range 0 4) { if (== j 1) { continue } else {}  set t (+ t j) }\n        (println t)",
        "nestedfn-while": "fn inner(k: int) -> int {\n            let mut j: int = 0\n            while (< j k) { set j (+ j 1)  if (== j 2) { continue } else {} }\n            return j\n        }\n        (println (inner 3))",
        "nestedfn-for": "fn inner(k: int) -> int {\n            let mut t: int = 0\n            for j in (range 0 k) { if (== j 1) { continue } else {}  set t (+ t j) }\n            return t\n        }\n        (println (inner 4))",
        "nestedfn-capture-loop": "fn inner(k: int) -> int {\n            let mut t: int = 0\n            for j in (range 0 k) { set t (+ t i) }\n            return t\n        }\n        (println (inner 2))",
        "match": "match vun {\n            L(q) => { (println q.v) }\n            R(q) => { (println q.s) }\n        }",
        "if-return": "if (== i 1) { (println 77) } else { (println 78) }",
        "unsafe": "unsafe { (println i) }",
    }
    outer = {
        "while": ("let mut i: int = 0\n    while (< i 3) {\n        set i (+ i 1)\n        %s\n        if (== i 2) { continue } else {}\n        (println i)\n    }\n    (println i)\n"),
        "for": ("for i in (range 0 3) {\n        %s\n        if (== i 1) { continue } else {}\n        (println i)\n    }\n"),
        "for-break": ("for i in (range 0 4) {\n        %s\n        if (== i 2) { break } else {}\n        (println i)\n    }\n"),
        "if": ("let i: int = 1\n    if vbool {\n        %s\n    } else {\n        (println 0)\n    }\n"),
        "match-arm": ("let i: int = 1\n    match vun {\n        L(qq) => {\n        %s\n        }\n        R(qq) => { (println 0) }\n    }\n"),
        "nested-while-while": ("let mut i: int = 0\n    while (< i 2) {\n        set i (+ i 1)\n        let mut m: int = 0\n        while (< m 2) {\n        set m (+ m 1)\n        %s\n        }\n    }\n"),
    }
    for on, ot in outer.items():
        for inn, it in inner.items():
            body = "    " + (ot % it)
            yield ("nestctl %s / %s" % (on, inn), prog(body))


def fam_codesize(tier):
    """function bodies whose bytecode crosses the code buffer's growth boundaries (4096, 8192, ...) with every alignment of a
    wide instruction (PUSH_I64 / PUSH_F64: 9 bytes) relative to the boundary: 16-byte statements, preceded by 0..15 statements
    of 5 bytes (5 is invertible mod 16, so the sweep reaches every offset)."""
    for boundary in ((4096,) if tier == "quick" else (4096, 8192, 16384)):
        n16 = boundary // 16 + 8
        for pad in range(16):
            body = "    let mut x: int = 0\n    let mut f: float = 0.5\n    let mut bb: bool = false\n"
            body += "    set bb true\n" * pad
            body += "".join("    set x (+ x %d)\n" % (1000000007 + i) if i % 3 else "    set f (+ f %d.25)\n" % (i % 7) for i in range(n16))
            body += "    (println x)\n    (println (< f 1000000.0))\n    (println bb)\n"
            yield ("codesize boundary %d pad %d" % (boundary, pad), prog(body))


def fam_selfshadow(tier):
    """an inner-block let that shadows an outer variable x and whose initialiser mentions the OUTER x in one position of every
    expression kind (the back ends must read the outer variable before the inner one exists)"""
    ctx = {
        "binop-left": "(+ x 1)", "binop-right": "(- 10 x)", "both": "(* x x)", "call-arg": "(inc x)", "nested-call": "(inc (inc x))",
        "cond-condition": "(cond ((> x 0) 1) (else 2))", "cond-value": "(cond ((> vint 0) x) (else 2))", "cond-else": "(cond ((> vint 1000) vint) (else x))",
        "cond-all": "(cond ((> x 1000) x) (else (+ x 1)))", "unary": "(- x)", "field-of-struct-arg": "(+ vst.x x)", "array-elem": "(at [x, 2] 0)",
        "if-expr-then": "(cond (vbool x) (else 0))", "comparison-as-int": "(cond ((== x 7) 70) (else 71))", "infix": "(x + vint * 2)",
        "match-expr": "match vun { L(q) => (+ q.v x), R(q) => x }",
    }
    outers = {"param": "", "local": "    let x: int = 7\n", "local-mut": "    let mut x: int = 7\n"}
    for on, decl in outers.items():
        for cn, e in ctx.items():
            for block in ("if", "while", "bare-if-else", "for"):
                if on == "param":
                    e2 = e.replace("x", "vint").replace("vvint", "vint").replace("vst.vint", "vst.x")
                    name = "vint"
                else:
                    e2, name = e, "x"
                inner = "let %s: int = %s\n        (println %s)" % (name, e2, name)
                body = decl
                if block == "if":
                    body += "    if vbool {\n        %s\n    } else {}\n" % inner
                elif block == "while":
                    body += "    let mut w: int = 0\n    while (< w 2) {\n        set w (+ w 1)\n        %s\n    }\n" % inner
                elif block == "bare-if-else":
                    body += "    if false { (println 0) } else {\n        %s\n    }\n" % inner
                else:
                    body += "    for fi in (range 0 2) {\n        %s\n    }\n" % inner
                body += "    (println %s)\n" % name
                yield ("selfshadow %s in %s of %s" % (cn, block, on), prog(body))


def fam_returnshape(tier):
    """functions whose body may or may not return on every path (the shapes of C05's missing-return family and their
    well-formed controls): whatever the checker accepts must run on both back ends"""
    from . import c05
    for desc, body in c05.MISSING_RETURN + c05.RETURNS_OK:
        src = (c05.CTX_HEAD + "fn noop() -> void { (println 0) }\nshadow noop { assert true }\n"
               "fn g(a: int) -> int {\n" + body + "}\nshadow g { assert true }\n"
               "fn main() -> int {\n    (println (+ (g 1) 1))\n    (println (+ (g -1) 1))\n    (println \"ran\")\n    return 0\n}\nshadow main { assert true }\n")
        yield ("returnshape " + desc, src)


FAMILIES = [fam_binop, fam_unop, fam_slots, fam_builtins, fam_scope, fam_consts, fam_literals, fam_globals, fam_wellformed, fam_samenames, fam_structperm, fam_nestctl, fam_codesize, fam_selfshadow, fam_returnshape]

# ------------------------------------------------------------------------------------------ running
_ST = {}
VM_PERMITTED = {0: "ok", 3: "call depth", 6: "index out of bounds", 7: "division by zero", 8: "assertion failed"}
VMNAMES = ["OK", "STACK_OVERFLOW", "STACK_UNDERFLOW", "CALL_DEPTH", "INVALID_OPCODE", "TYPE_ERROR", "OUT_OF_BOUNDS", "DIV_ZERO", "ASSERT_FAILED",
           "UNDEFINED_GLOBAL", "UNDEFINED_FUNCTION", "NOT_IMPLEMENTED", "MEMORY", "DECODE"]


def _fe(args):
    recs, lo, hi = args
    rc, o, e = common.run([_ST["fe"], recs, str(lo), str(hi), "20", "run", "verdicts"], timeout=3600)
    if rc != 0:
        raise common.HarnessError("fe_probe failed rc=%s %s" % (rc, e[-500:]))
    return o.decode(errors="replace")


def _native(args):
    idx, src_text = args
    lang = _ST["lang"]
    d = os.path.join(lang.work, "n%d" % (idx % 64))
    os.makedirs(d, exist_ok=True)
    src = os.path.join(d, "c%d.nano" % idx)
    with open(src, "w") as f:
        f.write(src_text)
    r = lang.native(src, timeout=20)
    os.unlink(src)
    return idx, r


def classify_native(r):
    """-> (ok?, class, detail)"""
    if r["compile_rc"] != 0 or not r["exe_exists"]:
        txt = (r["compile_err"] + r["compile_out"]).decode(errors="replace")
        if re.search(r"C compilation failed|error: .*\.c:|\.c:\d+:\d+: error", txt):
            m = re.search(r"\.c:\d+:\d+: error: ([^\n]*)", txt)
            return False, "C compilation failed", (m.group(1) if m else txt[-300:])
        if re.search(r"Transpilation failed|transpil", txt, re.I):
            return False, "transpilation failed", txt[-300:]
        if langcommon.FRONTEND_REJECT.search(txt):
            return None, "front end of nanoc disagrees with probe", txt[-300:]
        if re.search(r"Shadow test|shadow test.*FAILED|Assertion failed", txt):
            return True, "shadow test failed at compile time", ""          # a failed assert is a documented fault
        return False, "nanoc failed rc=%s" % r["compile_rc"], txt[-400:]
    rc = r["rc"]
    if rc == "timeout":
        return False, "native run timed out", ""
    if isinstance(rc, int) and rc < 0:
        sig = -rc
        if sig in (6, 8):      # SIGABRT (runtime assertion: bounds / assert), SIGFPE (division by zero)
            return True, "documented fault signal %d" % sig, ""
        return False, "native run killed by signal %d" % sig, r["err"][-300:].decode(errors="replace")
    return True, "exit %s" % rc, ""


def run(tier):
    rep = common.Report("C04", tier)
    tree = common.build_tree("plain")
    fe = tree.build_probe(FE, "fe_probe")
    lang = langrun.Lang(tree, os.path.join(common.scratch(), "c04"))
    lang.warm()
    _ST.update({"fe": fe, "lang": lang})
    findings = common.load_findings("C04")

    cands = []
    seen = set()
    for fam in FAMILIES:
        n0 = len(cands)
        for name, src in fam(tier):
            h = common.sha(src)
            if h in seen:
                continue
            seen.add(h)
            cands.append((fam.__name__[4:], name, src))
        rep.coverage["family_" + fam.__name__[4:]] = len(cands) - n0
    recs = os.path.join(common.scratch(), "c04.recs")
    with open(recs, "wb") as f:
        for _f, _n, s in cands:
            b = s.encode()
            f.write(struct.pack("<I", len(b)) + b)
    step = max(50, len(cands) // (common.NCPU * 6))
    outs = common.pmap(_fe, [(recs, lo, min(lo + step, len(cands))) for lo in range(0, len(cands), step)])
    verdict, cgref, vmerr, bad = {}, {}, {}, {}
    for o in outs:
        for l in o.splitlines():
            p = l.split()
            if l.startswith("V "):
                verdict[int(p[1])] = p[2]
            elif l.startswith("CGREF"):
                i = int(p[1].split("=")[1]); verdict[i] = "A"; cgref[i] = l
            elif l.startswith("VMERR"):
                i = int(p[1].split("=")[1]); verdict[i] = "A"; vmerr[i] = (int(p[2].split("=")[1]), l.split(" msg=", 1)[1] if " msg=" in l else "")
            elif l.startswith("BAD"):
                i = int(p[1].split("=")[1]); bad[i] = l
    if len(verdict) + len(bad) != len(cands):
        raise common.HarnessError("fe_probe verdicts incomplete: %d+%d of %d" % (len(verdict), len(bad), len(cands)))
    accepted = [i for i in range(len(cands)) if verdict.get(i) == "A"]
    rep.count("candidates", len(cands))
    rep.count("accepted_by_type_check", len(accepted))
    rep.count("rejected_by_type_check", sum(1 for v in verdict.values() if v == "R"))
    rep.count("front_end_crash_or_hang", len(bad))      # C09's business; counted, not judged here
    common.log("%d candidates, %d accepted" % (len(cands), len(accepted)))

    def known(fam, name, cls, detail):
        for f in findings:
            sg = f.get("signature", {})
            if re.search(sg.get("name_regex", "$^"), name) and re.search(sg.get("class_regex", "$^"), cls + " | " + detail):
                rep.known_finding(f["id"], f["what"])
                return True
        return False

    def viol(i, backend, cls, detail):
        fam, name, src = cands[i]
        if known(fam, name, "%s: %s" % (backend, cls), detail):
            return
        if os.environ.get("VERIF_C04_DUMP"):
            with open(os.environ["VERIF_C04_DUMP"], "a") as f:
                f.write("%s: %s | [%s] %s | %s\n" % (backend, cls, fam, name, detail[:150].replace("\n", " ")))
        key = "%s:%s:%s:%s" % (backend, cls, fam, re.sub(r"[0-9]+", "N", re.sub(r"\b(int|bool|str|flt|arr|sarr|st|en|tup|fn|un)\b", "T", name))[:60])
        rep.violation(key, {"program.nano": src, "detail.txt": "%s\n%s\n%s\n" % (name, cls, detail)},
                      "accepted program gets stuck on the %s backend (%s): [%s] %s  %s" % (backend, cls, fam, name, detail[:160]),
                      "# build /repo; bin/nano_virt program.nano --run ; bin/nanoc_c program.nano -o p && ./p")

    # ---- bytecode backend (verdicts from the same probe run: codegen + verify + fuel-limited execution)
    nvm_ok = 0
    for i in accepted:
        if i in cgref:
            viol(i, "bytecode", "codegen or verifier refused", cgref[i])
        elif i in vmerr:
            code, msg = vmerr[i]
            if code in VM_PERMITTED or "verification hook stopped execution" in msg:
                nvm_ok += 1
                rep.count("vm_documented_fault")
            else:
                viol(i, "bytecode", "VM_ERR_" + (VMNAMES[code] if code < len(VMNAMES) else str(code)), msg)
        else:
            nvm_ok += 1
    rep.count("transitions", len(cands) + len(accepted))

    # ---- native backend
    nat_ok = 0
    for idx, r in common.pimap(_native, [(i, cands[i][2]) for i in accepted], chunksize=4):
        ok, cls, detail = classify_native(r)
        if ok is None:
            # nanoc's own front end refused what the probe accepted: re-check once, then it is a harness problem
            raise common.HarnessError("nanoc front end disagrees with fe_probe on candidate %d (%s): %s" % (idx, cands[idx][1], detail))
        if ok:
            nat_ok += 1
            if cls.startswith("documented") or "shadow" in cls:
                rep.count("native_documented_fault")
        else:
            viol(idx, "native", cls, detail)
    rep.count("transitions", len(accepted))
    rep.count("states", len(cands))
    rep.count("traces_validated_against_impl", 2 * len(accepted))
    rep.coverage["accepted_ok_on_bytecode_backend"] = nvm_ok
    rep.coverage["accepted_ok_on_native_backend"] = nat_ok
    for k in (0, len(accepted) // 2, len(accepted) - 1):
        if accepted:
            i = accepted[k]
            rep.sample({"family": cands[i][0], "candidate": cands[i][1], "verdict": "accepted", "source_sha": common.sha(cands[i][2])[:12]})
    rej = [i for i in range(len(cands)) if verdict.get(i) == "R"]
    if rej:
        rep.sample({"family": cands[rej[len(rej) // 2]][0], "candidate": cands[rej[len(rej) // 2]][1], "verdict": "rejected (no obligation)"})
    rep.assumptions += [
        "obligations only for candidates the tree's own type_check accepts (fe_probe runs the same tokenize/parse/process_imports/type_check sequence as the tools; nanoc's verdict is cross-checked on every accepted candidate)",
        "type pool: int, bool, string, float, array<int>, array<string>, struct, enum, (int,string), fn(int)->int, union; one loose position per candidate",
        "core builtins only (%d); I/O, OS, list_*, bstr_*, result_*, hashmap builtins are outside the bound" % len(BUILTINS),
        "documented faults: failed assert (also at compile time in a shadow test), index out of bounds, native SIGFPE, call depth; VM fuel 200000 instructions (a candidate that runs out of fuel is not judged on the VM)",
    ]
    if len(cands) < 5000 or len(accepted) < 300:
        raise common.HarnessError("vacuous: %d candidates, %d accepted" % (len(cands), len(accepted)))
    return rep.finish()


def replay(path):
    tree = common.build_tree("plain")
    lang = langrun.Lang(tree, os.path.join(common.scratch(), "c04"))
    lang.warm()
    src = os.path.join(path, "program.nano")
    r = lang.vm(src)
    print("nano_virt --run: rc=%s\n%s" % (r["rc"], r["err"][-800:].decode(errors="replace")))
    n = lang.native(os.path.join(path, "program.nano"))
    ok, cls, detail = classify_native(n)
    print("native:", ok, cls, detail)
    bad_vm = r["rc"] != 0 and re.search(rb"codegen failed|verification failed|[Tt]ype error|[Uu]ndefined|decode|[Ss]tack (over|under)flow|not a |Not implemented", r["err"]) is not None
    if bad_vm or ok is False:
        print("VIOLATION property=C04 replay=%s" % path)
        return 1
    print("not reproduced")
    return 0
