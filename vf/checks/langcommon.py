"""Shared pieces of the language-level checks (C01, C02, C20a): case collection, engine runs,
cause signatures of the open findings that concern generated programs."""
import os
import re

from .. import common, enumer, langrun, nanoref as nr


def all_cases(tier, layers):
    cases = []
    for name in layers:
        cases += list(getattr(enumer, name)(tier))
    ids = set()
    for c in cases:
        if c["id"] in ids:
            raise common.HarnessError("duplicate case id " + c["id"])
        ids.add(c["id"])
    return cases


# ---------------------------------------------------------------- syntactic predicates on cases
STMT_TAGS = ("let", "set", "if", "while", "for", "return", "println", "print", "expr", "assert", "match", "break", "continue")


def _effect_calls(x):
    """number of effect-helper calls (prefix+'t' / prefix+'tb') beneath expression x"""
    if isinstance(x, tuple):
        n = 1 if (len(x) == 3 and x[0] == "call" and isinstance(x[1], str) and re.match(r"^[a-z]+tb?$", x[1])) else 0
        return n + sum(_effect_calls(y) for y in x[1:])
    if isinstance(x, list):
        return sum(_effect_calls(y) for y in x)
    return 0


def _exprs_of_stmt(s):
    """top-level expressions of statement s and of all statements nested in it"""
    out = []
    for x in s[1:]:
        if isinstance(x, tuple) and x and isinstance(x[0], str) and x[0] not in STMT_TAGS:
            out.append(x)
        elif isinstance(x, list):
            for y in x:
                if isinstance(y, tuple) and y and y[0] in STMT_TAGS:
                    out += _exprs_of_stmt(y)
                elif isinstance(y, tuple) and len(y) == 3 and isinstance(y[2], list):   # match arm (variant, bind, body)
                    for z in y[2]:
                        out += _exprs_of_stmt(z)
    return out


def has_unsequenced_effects(case):
    """Some single expression of the case contains >= 2 effectful helper calls (their relative order is
    what C leaves unspecified)."""
    for kind, _n, payload in case["items"]:
        if kind == "fn":
            for s in payload[2]:
                for e in _exprs_of_stmt(s):
                    if _effect_calls(e) >= 2:
                        return True
    return False


def same_lines_permuted(a, b):
    return a != b and sorted(a.split("\n")) == sorted(b.split("\n"))


def immutable_shadow_then_set(case, var):
    """body declares `let mut var` at depth 0, an immutable `let var` inside a nested block, and a `set var`."""
    def walk(stmts, depth, acc):
        for s in stmts:
            if s[0] == "let" and s[1] == var:
                acc.add(("mut0" if (depth == 0 and s[4]) else "imm_nested" if (depth > 0 and not s[4]) else "other"))
            if s[0] == "set" and s[1] == var:
                acc.add("set")
            if s[0] == "if":
                walk(s[2], depth + 1, acc)
                if s[3] is not None:
                    walk(s[3], depth + 1, acc)
            if s[0] == "while":
                walk(s[2], depth + 1, acc)
            if s[0] == "for":
                walk(s[4], depth + 1, acc)
    for kind, _n, payload in case["items"]:
        if kind == "fn":
            acc = set()
            walk(payload[2], 0, acc)
            if {"mut0", "imm_nested", "set"} <= acc:
                return True
    return False


FRONTEND_REJECT = re.compile(r"type check failed|Type checking failed|parser failed|Parsing failed", re.I)


def is_frontend_reject(obs):
    return obs[0] == "fail" and bool(FRONTEND_REJECT.search(obs[2]))


def run_layers(tier, layers, engines=("vm", "native"), sanitize=False, variant="plain"):
    tree = common.build_tree(variant)
    lang = langrun.Lang(tree, os.path.join(common.scratch(), "lang"), sanitize=sanitize)
    if any(e.startswith("native") for e in engines):
        lang.warm()
    cases = all_cases(tier, layers)
    res = langrun.run_all(lang, cases, list(engines))
    return tree, lang, cases, res


def exit_status_family():
    """Single programs observing the process exit status (not visible inside a batch)."""
    out = []
    for k in (0, 1, 2, 7, 127, 128, 255, 256, 257, 1000, -1, -256, 2**31, 2**32 + 5):
        src = 'fn main() -> int {\n    (println "x")\n    return %d\n}\nshadow main { assert true }\n' % k
        out.append(("exit%d" % k, src, k & 0xFF))
    return out
