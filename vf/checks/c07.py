"""C07  Prefix and infix notation denote the same program.

Exhaustive over operator pairs (both association shapes, every leaf kind in every leaf
position) and operator triples (all five shapes), unary operators at every operand position,
and deep nesting families: each expression is rendered in fully parenthesised prefix form and
in minimally parenthesised infix form (left-assoc, equal precedence, postfix binds tighter,
unary binds to the following operand); both programs are compiled by the real
nano_virt --emit-nvm and the per-function code bytes must be identical; the prefix program is
also run and compared with NanoRef's value (so 'identically wrong' is caught).
"""
import itertools
import os

from .. import common, nanoref as nr, nvmfmt, langrun

I, B = "int", "bool"
ARITH, CMP, LOGIC = nr.ARITH, nr.CMP, nr.LOGIC
PARAMS = [("a", I), ("b", I), ("c", I), ("d", I), ("u", B), ("w", B), ("p", "TP"), ("q", "(int, bool)")]
ARGS = [("int", 7), ("int", -3), ("int", 2), ("int", 5), ("bool", True), ("bool", False),
        ("structlit", "TP", [("x", ("int", 11)), ("ok", ("bool", True)), ("n", ("structlit", "TN", [("y", ("int", -4)), ("z", ("bool", False))]))]),
        ("tuplelit", [("int", 9), ("bool", True)])]


def op_types(op):
    """list of (left type, right type, result type)"""
    if op in ARITH:
        return [(I, I, I)]
    if op in ("==", "!="):
        return [(I, I, B), (B, B, B)]
    if op in CMP:
        return [(I, I, B)]
    return [(B, B, B)]


INT_LEAVES = [("int", 4), ("var", "a"), ("field", ("var", "p"), "x"), ("field", ("field", ("var", "p"), "n"), "y"),
              ("tupidx", ("var", "q"), 0), ("call", "fi", [("var", "b")]), ("bin", "+", ("var", "c"), ("int", 1))]
BOOL_LEAVES = [("bool", True), ("var", "u"), ("field", ("var", "p"), "ok"), ("field", ("field", ("var", "p"), "n"), "z"),
               ("tupidx", ("var", "q"), 1), ("call", "fb", [("var", "w")]), ("bin", "<", ("var", "c"), ("int", 1))]
CALLFIELD = {I: ("field", ("call", "mkn", [("var", "b")]), "y"), B: ("field", ("call", "mkn", [("var", "b")]), "z")}
# the 7th leaf kind is 'a parenthesised prefix form': rendered as (op x y) in BOTH spellings
PAREN_PREFIX = [("bin", "+", ("var", "c"), ("int", 1)), ("bin", "<", ("var", "c"), ("int", 1))]


class P2(nr.Printer):
    """Printer whose 7th leaf kind stays a parenthesised prefix form in infix mode."""

    def expr(self, e, top=False):
        if e in PAREN_PREFIX:
            return "(%s %s %s)" % (e[1], nr.Printer.expr(self, e[2]), nr.Printer.expr(self, e[3]))
        return nr.Printer.expr(self, e)

    def infix(self, e):
        a, b = e[2], e[3]
        left = self.infix(a) if (a[0] == "bin" and a not in PAREN_PREFIX) else self.infix_operand(a)
        return "%s %s %s" % (left, e[1], self.infix_operand(b))

    def infix_operand(self, x):
        if x in PAREN_PREFIX:
            return self.expr(x)
        return nr.Printer.infix_operand(self, x)


def leaves(t, simple):
    if simple:
        return [("var", "a"), ("var", "b")][:1] if t == I else [("var", "u")]
    return INT_LEAVES if t == I else BOOL_LEAVES


def trees(shape, ops, leafsets):
    """shape: nested tuple of 'L' leaves; ops assigned in pre-order; yields typed trees (result type, tree)."""
    def build(sh, want, opi):
        # returns list of (tree, next opi, leaf index)
        if sh == "L":
            return None
        return None
    return None


def gen_pairs():
    """(a op1 b) op2 c  and  a op1 (b op2 c): all op pairs, every leaf kind in every position."""
    out = []
    ops = ARITH + CMP + LOGIC
    for o1, o2 in itertools.product(ops, repeat=2):
        for (l2, r2, t2) in op_types(o2):
            for (l1, r1, t1) in op_types(o1):
                # left-nested: (x o1 y) o2 z   requires t1 == l2
                if t1 == l2:
                    for x in leaves(l1, False):
                        for y in leaves(r1, False):
                            for z in leaves(r2, False):
                                out.append((t2, ("bin", o2, ("bin", o1, x, y), z)))
                # right-nested: x o2 (y o1 z)   requires t1 == r2
                if t1 == r2:
                    for x in leaves(l2, False):
                        for y in leaves(l1, False):
                            for z in leaves(r1, False):
                                out.append((t2, ("bin", o2, x, ("bin", o1, y, z))))
    return out


def gen_triples():
    """all 5 binary-tree shapes with 3 operators, all typed operator triples, variable leaves."""
    out = []
    ops = ARITH + CMP + LOGIC
    vi = [("var", n) for n in "abcd"]
    vb = [("var", "u"), ("var", "w"), ("field", ("var", "p"), "ok"), ("tupidx", ("var", "q"), 1)]

    def leaf(t, k):
        return vi[k] if t == I else vb[k]

    def typed(o, want):
        return [(l, r) for (l, r, t) in op_types(o) if t == want]
    for o1, o2, o3 in itertools.product(ops, repeat=3):
        for (l3, r3, t3) in op_types(o3):
            # shapes with o3 at the root
            # S1: ((A o1 B) o2 C) o3 D
            for (l2, r2) in typed(o2, l3):
                for (l1, r1) in typed(o1, l2):
                    out.append((t3, ("bin", o3, ("bin", o2, ("bin", o1, leaf(l1, 0), leaf(r1, 1)), leaf(r2, 2)), leaf(r3, 3))))
            # S2: (A o1 (B o2 C)) o3 D
            for (l1, r1) in typed(o1, l3):
                for (l2, r2) in typed(o2, r1):
                    out.append((t3, ("bin", o3, ("bin", o1, leaf(l1, 0), ("bin", o2, leaf(l2, 1), leaf(r2, 2))), leaf(r3, 3))))
            # S3: (A o1 B) o3 (C o2 D)
            for (l1, r1) in typed(o1, l3):
                for (l2, r2) in typed(o2, r3):
                    out.append((t3, ("bin", o3, ("bin", o1, leaf(l1, 0), leaf(r1, 1)), ("bin", o2, leaf(l2, 2), leaf(r2, 3)))))
            # S4: A o3 ((B o1 C) o2 D)
            for (l2, r2) in typed(o2, r3):
                for (l1, r1) in typed(o1, l2):
                    out.append((t3, ("bin", o3, leaf(l3, 0), ("bin", o2, ("bin", o1, leaf(l1, 1), leaf(r1, 2)), leaf(r2, 3)))))
            # S5: A o3 (B o1 (C o2 D))
            for (l1, r1) in typed(o1, r3):
                for (l2, r2) in typed(o2, r1):
                    out.append((t3, ("bin", o3, leaf(l3, 0), ("bin", o1, leaf(l1, 1), ("bin", o2, leaf(l2, 2), leaf(r2, 3))))))
    return out


def gen_unary():
    """unary - / not at every operand position of every binary operator (and doubled, and over postfix leaves)."""
    out = []
    for op in ARITH + CMP + LOGIC:
        for (l, r, t) in op_types(op):
            un = lambda ty, x: ("un", "-" if ty == I else "not", x)
            for x in leaves(l, False)[1:6]:
                for y in leaves(r, False)[1:6]:
                    out.append((t, ("bin", op, un(l, x), y)))
                    out.append((t, ("bin", op, x, un(r, y))))
                    out.append((t, ("bin", op, un(l, x), un(r, y))))
            x, y = leaves(l, False)[1], leaves(r, False)[1]
            out.append((t, ("bin", op, un(l, un(l, x)), y)))
            out.append((t, ("bin", op, ("bin", op, un(l, x), un(r, y)), un(r, y))) if t == l else (t, ("bin", op, un(l, x), y)))
            out.append((t, un(t, ("bin", op, x, y))))
            # unary operator over a postfix chain whose head is NOT a bare identifier: a field of a call result
            # (added after seeded change C07-m9: the parser lets unary minus take over the postfix chain of its operand,
            # and a guard on the operand's node kind changes which node the field access attaches to)
            cx, cy = CALLFIELD[l], CALLFIELD[r]
            out.append((t, ("bin", op, un(l, cx), y)))
            out.append((t, ("bin", op, x, un(r, cy))))
            out.append((t, ("bin", op, un(l, cx), un(r, cy))))
            out.append((t, ("bin", op, cx, y)))
    return out


def gen_deep():
    out = []
    for depth in (10, 100, 300, 400, 499, 600, 700, 900, 990):
        e = ("var", "a")
        for _ in range(depth):
            e = ("bin", "+", ("var", "b"), e)          # right-nested: needs parentheses in infix
        out.append((I, e))
        e = ("var", "a")
        for k in range(depth):
            e = ("bin", "-" if k % 2 else "*", e, ("var", "b"))    # left-nested: no parentheses in infix
        out.append((I, e))
    return out


def program(cases_chunk, mode, base):
    pr = P2(mode)
    out = ["struct TN { y: int, z: bool }\nstruct TP { x: int, ok: bool, n: TN }\n",
           "fn fi(v: int) -> int {\n    return (+ v 100)\n}\nshadow fi { assert true }\nfn fb(v: bool) -> bool {\n    return (not v)\n}\nshadow fb { assert true }\nfn mkn(v: int) -> TN {\n    return TN { y: v, z: (> v 0) }\n}\nshadow mkn { assert true }\n"]
    params = ", ".join("%s: %s" % pt for pt in PARAMS)
    for k, case in enumerate(cases_chunk):
        t, e = case[0], case[1]
        extra = "".join("    let x%d: %s = %s\n" % (j, t2, pr.stmt_expr(e2)) for j, (t2, e2) in enumerate(case[2] if len(case) > 2 else []))
        out.append("fn c%d(%s) -> %s {\n%s    let v: %s = %s\n    return v\n}\nshadow c%d { assert true }\n" % (base + k, params, t, extra, t, pr.stmt_expr(e), base + k))
    argtxt = " ".join(nr.Printer("prefix").expr(a) for a in ARGS)
    out.append("fn main() -> int {\n" + "".join("    (println (c%d %s))\n" % (base + k, argtxt) for k in range(len(cases_chunk))) + "    return 0\n}\nshadow main { assert true }\n")
    return "".join(out)


def fn_code_by_name(path, optable):
    data = open(path, "rb").read()
    lay = nvmfmt.Layout(data, optable)
    # string pool
    import struct
    strs = []
    for (t, o, s) in lay.sections:
        if t == nvmfmt.SEC_STRINGS:
            pos = 0
            while pos + 4 <= s:
                ln = struct.unpack_from("<I", data, o + pos)[0]
                strs.append(data[o + pos + 4:o + pos + 4 + ln])
                pos += 4 + ln
    res = {}
    for (t, o, s) in lay.sections:
        if t == nvmfmt.SEC_FUNCTIONS:
            pos = 0
            while pos + 18 <= s:
                name, _ar, co, cl, _lc, _uc = struct.unpack_from("<IHIIHH", data, o + pos)
                res[strs[name].decode()] = data[lay.code_off + co: lay.code_off + co + cl]
                pos += 18
    return res


def _chunk_task(args):
    tree_root, virt, work, idx, chunk, base = args
    res = {"idx": idx}
    paths = {}
    for mode in ("prefix", "infix"):
        src = os.path.join(work, "c07_%d_%s.nano" % (idx, mode))
        with open(src, "w") as f:
            f.write(program(chunk, mode, base))
        out = src[:-5] + ".nvm"
        rc, o, e = common.run([virt, src, "--emit-nvm", "-o", out], timeout=120, cwd=work)
        res[mode] = (rc, e.decode(errors="replace")[-1500:])
        paths[mode] = out if rc == 0 else None
    rc, o, e = common.run([virt, os.path.join(work, "c07_%d_prefix.nano" % idx), "--run"], timeout=120, cwd=work)
    res["run"] = (rc, o.decode(errors="replace"), e.decode(errors="replace")[-800:])
    res["paths"] = paths
    return res


# ------------------------------------------------------------------------------------------ juxtaposition family
# A bare unary 'not' applies to the operand that FOLLOWS it wherever operands stand side by side: argument lists, operand
# lists of prefix operators, cond clauses, array / struct literals, statement slots.  Each element: (what, fully
# parenthesised spelling, bare spelling, result type, value for a=3 b=4 u=true w=false).
JUXTA_PRE = ("fn fb(v: bool) -> bool { return (not v) }\nshadow fb { assert true }\nstruct TB { f: bool, g: int }\nfn f2(a: int, b: bool) -> int { if b { return a } else { return (- 0 a) } }\nshadow f2 { assert true }\n"
             "fn g2(b: bool, a: int) -> int { if b { return a } else { return (- 0 a) } }\nshadow g2 { assert true }\n"
             "fn f3(a: int, b: bool, c: bool) -> int { if (and b c) { return a } else { return 0 } }\nshadow f3 { assert true }\n")
JUXTA = [
    ("last argument", "return (f2 a (not @U))", "return (f2 a not @U)", "int", lambda u, w: 3 if not u else -3),
    ("first argument", "return (g2 (not @U) a)", "return (g2 not @U a)", "int", lambda u, w: 3 if not u else -3),
    ("two arguments in a row", "return (f3 a (not @U) (not @W))", "return (f3 a not @U not @W)", "int", lambda u, w: 3 if (not u and not w) else 0),
    ("right operand of and", "return (and @W (not @U))", "return (and @W not @U)", "bool", lambda u, w: w and not u),
    ("left operand of or", "return (or (not @U) @W)", "return (or not @U @W)", "bool", lambda u, w: (not u) or w),
    ("right operand of ==", "return (== @U (not @W))", "return (== @U not @W)", "bool", lambda u, w: u == (not w)),
    ("value of a cond clause", "return (cond (@U (not @W)) (else @W))", "return (cond (@U not @W) (else @W))", "bool", lambda u, w: (not w) if u else w),
    ("condition of a cond clause", "return (cond ((not @U) @W) (else @U))", "return (cond (not @U @W) (else @U))", "bool", lambda u, w: w if not u else u),
    ("tail expression after a let", "let t: bool = @W\n    (not t)", "let t: bool = @W\n    not t", "bool", lambda u, w: not w),
    ("array literal element", "let xs: array<bool> = [@U, (not @W)]\n    return (at xs 1)", "let xs: array<bool> = [@U, not @W]\n    return (at xs 1)", "bool", lambda u, w: not w),
    ("struct literal field", "let s: TB = TB { f: (not @U), g: a }\n    return s.f", "let s: TB = TB { f: not @U, g: a }\n    return s.f", "bool", lambda u, w: not u),
    ("return value", "return (not @U)", "return not @U", "bool", lambda u, w: not u),
    ("if condition", "if (not @U) { return 1 } else { return 2 }", "if not @U { return 1 } else { return 2 }", "int", lambda u, w: 1 if not u else 2),
    ("while condition", "while (not @U) { return 1 }\n    return 2", "while not @U { return 1 }\n    return 2", "int", lambda u, w: 1 if not u else 2),
    ("let initialiser", "let t: bool = (not @U)\n    return t", "let t: bool = not @U\n    return t", "bool", lambda u, w: not u),
    ("set value", "let mut t: bool = @W\n    set t (not @U)\n    return t", "let mut t: bool = @W\n    set t not @U\n    return t", "bool", lambda u, w: not u),
    ("double not", "return (not (not @U))", "return not not @U", "bool", lambda u, w: u),
    ("argument that is not of a call", "return (f2 a (not (== a b)))", "return (f2 a not (== a b))", "int", lambda u, w: 3),
    ("argument that is not of a field", "let s: TB = TB { f: @U, g: a }\n    return (f2 a (not s.f))", "let s: TB = TB { f: @U, g: a }\n    return (f2 a not s.f)", "int", lambda u, w: 3 if not u else -3),
]
JUXTA_OPERANDS = [("u", "w"), ("w", "u"), ("(== a 3)", "(< b a)"), ("true", "false")]


JUXTA_OPERANDS_THOROUGH = JUXTA_OPERANDS + [("(fb w)", "(fb u)"), ("(and u w)", "(or u w)"), ("(not w)", "(not u)"), ("(a < b)", "(b < a)"), ("(== (+ a 1) 4)", "(!= a 3)")]


def juxta_programs(tier="quick"):
    """-> (items, prefix program text, bare program text); items = [(fn name, what, expected text)]"""
    vals = {"u": True, "w": False, "(== a 3)": True, "(< b a)": False, "true": True, "false": False, "(fb w)": True, "(fb u)": False, "(and u w)": False,
            "(or u w)": True, "(not w)": True, "(not u)": False, "(a < b)": True, "(b < a)": False, "(== (+ a 1) 4)": True, "(!= a 3)": False}
    items = []
    texts = {"p": [JUXTA_PRE], "b": [JUXTA_PRE]}
    for k, (what, pfx, bare, t, f) in enumerate(JUXTA):
        for j, (U, W) in enumerate(JUXTA_OPERANDS_THOROUGH if tier == "thorough" else JUXTA_OPERANDS):
            name = "j%d_%d" % (k, j)
            for tag, body in (("p", pfx), ("b", bare)):
                texts[tag].append("fn %s(a: int, b: int, u: bool, w: bool) -> %s {\n    %s\n}\nshadow %s { assert true }\n" % (name, t, body.replace("@U", U).replace("@W", W), name))
            v = f(vals[U], vals[W])
            items.append((name, "%s, operands %s / %s" % (what, U, W), ("true" if v else "false") if isinstance(v, bool) else str(v)))
    main = "fn main() -> int {\n" + "".join("    (println (%s 3 4 true false))\n" % it[0] for it in items) + "    return 0\n}\nshadow main { assert true }\n"
    return items, "".join(texts["p"]) + main, "".join(texts["b"]) + main


def juxta_family(rep, tree, work, optable, tier="quick"):
    items, ptxt, btxt = juxta_programs(tier)
    paths = {}
    diag = {}
    for tag, txt in (("p", ptxt), ("b", btxt)):
        src = os.path.join(work, "juxta_%s.nano" % tag)
        with open(src, "w") as f:
            f.write(txt)
        out = src[:-5] + ".nvm"
        rc, o, e = common.run([tree.exe("nano_virt"), src, "--emit-nvm", "-o", out], timeout=120, cwd=work)
        paths[tag] = out if rc == 0 else None
        diag[tag] = (rc, e.decode(errors="replace")[-1500:])
    files = {"parenthesised.nano": ptxt, "bare.nano": btxt}
    if not paths["p"]:
        raise common.HarnessError("the fully parenthesised juxtaposition program does not compile: %s" % diag["p"][1][-300:])
    if not paths["b"]:
        files["diagnostics.txt"] = diag["b"][1]
        rep.violation("c07:juxta:compile", files, "bare unary 'not' next to other operands: the bare spelling does not compile while the parenthesised one does: %s" % (
            diag["b"][1].strip().splitlines()[0][:200] if diag["b"][1].strip() else "rc=%s" % diag["b"][0]))
        return len(items)
    cp = fn_code_by_name(paths["p"], optable)
    cb = fn_code_by_name(paths["b"], optable)
    rc, o, e = common.run([tree.exe("nano_virt"), os.path.join(work, "juxta_p.nano"), "--run"], timeout=120, cwd=work)
    lines = o.decode(errors="replace").split("\n")
    for k, (name, what, exp) in enumerate(items):
        rep.count("transitions", 2)
        if name not in cp or cp.get(name) != cb.get(name):
            rep.violation("c07:juxta:" + what.split(",")[0], files, "bare 'not' as %s compiles to different code than the parenthesised spelling (function %s)" % (what, name))
        elif k >= len(lines) or lines[k] != exp:
            rep.violation("c07:juxta:value:" + what.split(",")[0], files, "%s (function %s): the program prints %r, the reference value is %r" % (what, name, lines[k] if k < len(lines) else None, exp))
    return len(items)


def run(tier):
    rep = common.Report("C07", tier)
    tree = common.build_tree("plain")
    work = os.path.join(common.scratch(), "c07")
    os.makedirs(work, exist_ok=True)
    probe = tree.build_probe(os.path.join(common.VERIF, "vf/probes/nvm_probe.c"), "nvm_probe")
    rc, o, _e = common.run([probe, "optable"])
    optable = nvmfmt.parse_optable(o.decode())
    cases = gen_pairs() + gen_triples() + gen_unary() + gen_deep()
    if tier == "never":   # (kept for reference: a reduced product; both tiers now run the full leaf-kind product)
        # pairs: the full op x op x shape product with every leaf kind in ONE position at a time (others fixed to kind 1),
        # triples complete; thorough runs the full leaf-kind product
        keep = []
        for (t, e) in gen_pairs():
            flat = []
            def fl(x):
                if x[0] == "bin" and x not in PAREN_PREFIX:
                    fl(x[2]); fl(x[3])
                else:
                    flat.append(x)
            fl(e)
            nonstd = sum(1 for x in flat if x not in (INT_LEAVES[1], BOOL_LEAVES[1]))
            if nonstd <= 1:
                keep.append((t, e))
        cases = keep + gen_triples() + gen_unary() + gen_deep()
    if tier == "thorough":
        cases = gen_pairs() + gen_triples() + gen_unary() + gen_deep()
    # long-file family: the same constructs 2,400 times in ONE source file (parser state must not accumulate
    # across expressions: depth counters, buffers)
    un = gen_unary()
    longfile = [(un[(9 * i) % len(un)][0], un[(9 * i) % len(un)][1], [un[(9 * i + j) % len(un)] for j in range(1, 9)]) for i in range(300)]   # 2,700 expressions
    K = 250
    while len(cases) % K:
        cases.append(un[len(cases) % len(un)])          # pad so that the long file starts on a chunk boundary
    jobs = []
    for i in range(0, len(cases), K):
        jobs.append((tree.root, tree.exe("nano_virt"), work, i // K, cases[i:i + K], i))
    base_long = len(cases)
    cases = cases + longfile
    jobs.append((tree.root, tree.exe("nano_virt"), work, len(jobs), longfile, base_long))
    compared = 0
    valued = 0
    rep.coverage["juxtaposition_spellings"] = juxta_family(rep, tree, work, optable, tier)
    progp = nr.Program()
    progp.add_struct("TN", [("y", I), ("z", B)])
    progp.add_struct("TP", [("x", I), ("ok", B), ("n", "TN")])
    progp.add_fn("fi", [("v", I)], I, [("return", ("bin", "+", ("var", "v"), ("int", 100)))])
    progp.add_fn("fb", [("v", B)], B, [("return", ("un", "not", ("var", "v")))])
    for r in common.pimap(_chunk_task, jobs):
        idx = r["idx"]
        chunk = jobs[idx][4]
        base = jobs[idx][5]
        if r["prefix"][0] != 0 or r["infix"][0] != 0:
            # identical diagnostic is acceptable only for the depth family (both refused the same way)
            bad = "infix" if r["infix"][0] != 0 else "prefix"
            # find the first function the failing tool mentions is not needed: report chunk with its diagnostics
            rep.violation("c07:compile:%d" % idx, {"prefix.nano": program(chunk, "prefix", base), "infix.nano": program(chunk, "infix", base),
                                                  "diagnostics.txt": "prefix rc=%s\n%s\ninfix rc=%s\n%s" % (r["prefix"][0], r["prefix"][1], r["infix"][0], r["infix"][1])},
                          "chunk %d: the %s spelling does not compile while the other does (rc prefix=%s infix=%s): %s" % (idx, bad, r["prefix"][0], r["infix"][0], r[bad][1].strip().splitlines()[0][:160] if r[bad][1].strip() else ""))
            continue
        cp = fn_code_by_name(r["paths"]["prefix"], optable)
        ci = fn_code_by_name(r["paths"]["infix"], optable)
        lines = r["run"][1].split("\n")
        for k, case in enumerate(chunk):
            t, e = case[0], case[1]
            name = "c%d" % (base + k)
            compared += 1
            rep.count("transitions", 2)
            if cp.get(name) != ci.get(name) or name not in cp:
                pr = P2("infix")
                rep.violation("c07:" + nr.Printer().expr(e), {"prefix.txt": nr.Printer().expr(e) + "\n", "infix.txt": pr.stmt_expr(e) + "\n",
                                                             "prefix_code.hex": (cp.get(name) or b"").hex() + "\n", "infix_code.hex": (ci.get(name) or b"").hex() + "\n"},
                              "infix '%s' compiles to different code than prefix '%s'" % (pr.stmt_expr(e)[:120], nr.Printer().expr(e)[:120]),
                              "# put both spellings in 'let v: T = ...' of otherwise identical functions and compare nano_virt --emit-nvm code")
                continue
            # value check against NanoRef (prefix program was run)
            if r["run"][0] == 0 and k < len(lines):
                ip = nr.Interp(progp)
                try:
                    env = [dict((pn, [ip.ev(a, [{}]), False]) for (pn, _pt), a in zip(PARAMS, ARGS))]
                    want = ip.show(ip.ev(e, env))
                except nr.Fault:
                    want = None
                except RecursionError:
                    want = None
                if want is not None:
                    valued += 1
                    if lines[k] != want:
                        rep.violation("c07:value:" + nr.Printer().expr(e), {"expr.txt": nr.Printer().expr(e) + "\n"},
                                      "both spellings compile identically but evaluate to %r, the specification gives %r: %s" % (lines[k][:40], want[:40], nr.Printer().expr(e)[:100]))
    rep.count("states", compared)
    rep.count("traces_validated_against_impl", valued)
    rep.coverage["expressions"] = len(cases)
    rep.coverage["families"] = {"pairs": len(gen_pairs()) if tier == "thorough" else len(cases) - len(gen_triples()) - len(gen_unary()) - len(gen_deep()),
                                "triples": len(gen_triples()), "unary": len(gen_unary()), "deep": len(gen_deep())}
    pr = P2("infix")
    for (t, e) in (cases[0], cases[len(cases) // 3], cases[len(cases) // 2], cases[5]):
        rep.sample({"prefix": nr.Printer().expr(e)[:200], "infix": pr.stmt_expr(e)[:200]})
    rep.assumptions += ["expressions are placed in 'let v: T = <expr>' (statement position); a parenthesised infix expression cannot start with a unary operator because '(' followed by an operator token is the prefix form by definition",
                        "both tiers run the full leaf-kind product for operator pairs"]
    if compared < 2000:
        raise common.HarnessError("vacuous C07: %d" % compared)
    return rep.finish()
