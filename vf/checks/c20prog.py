"""C20 part (a): nano source text families for the native backend (the shapes property C20 names).

Three exhaustive products, all written as nano source text:

  T  operation sequences: every sequence (length <= L) over the statement alphabet OPS acting on a fixed set of
     live variables (DECLS); each statement is guarded so that it cannot leave the defined behaviour of the
     language (every index is tested against the length first).  After the sequence OBS reads EVERY element
     reachable from every live variable, so a dangling pointer left behind by any statement is dereferenced.
  B  capacity-boundary matrix: element kind x array length n x operation, n running over every length around
     the growth boundaries of the runtime containers (dyn_array 8/16/32, generated List<T> 4/8/16).
  X  string operation matrix: str_substring / char_at / str_contains / bstring operations over every in-range
     (start, length) pair of short strings.

Statements the native backend cannot compile at all were dropped from the alphabet (they are C04's business,
not C20's); they are listed in DROPPED with the reason.
"""
import itertools
import re

PRELUDE = '''struct Box { xs: array<string>, name: string }
struct Outer { b: Box, tag: int }
struct P1 { x: int }
struct P3 { x: int, y: int, z: int }
struct Holder { rows: array<array<int>>, names: array<string>, n: int }
union Res { Ok { v: string }, Err { code: int, msg: string } }
let mut G: array<string> = []
fn ident(b: Box) -> Box { return b }
fn ida(v: array<string>) -> array<string> { return v }
fn ida3(v: array<string>) -> array<string> { return (ida (ida v)) }
fn mk(s: string) -> array<string> {
    let v: array<string> = [s, (+ s "!")]
    return (ida v)
}
fn mkbox(v: array<string>, s: string) -> Box { return Box { xs: v, name: s } }
fn poke(v: array<string>, s: string) -> int {
    if (> (array_length v) 0) { (array_set v 0 s) } else {}
    return (array_length v)
}
fn grow(v: array<string>, s: string) -> array<string> {
    let mut w: array<string> = v
    set w (array_push w s)
    return w
}
fn dbl(i: int) -> int { return (* i 2) }
fn inc(i: int) -> int { return (+ i 1) }
fn pick(k: int) -> fn(int) -> int {
    if (> k 0) { return dbl } else {}
    return inc
}
fn up(s: string) -> string { return (+ s "u") }
fn longer(s: string) -> bool { return (> (str_length s) 1) }
fn addi(x: int, y: int) -> int { return (+ x y) }
fn odd(x: int) -> bool { return (== (% x 2) 1) }
fn early(s: string, n: int) -> int {
    let v: array<string> = [s, (+ s "e")]
    if (> n 0) {
        let w: array<string> = [(at v 1)]
        for i in (range 0 3) {
            let z: string = (+ (at w 0) (int_to_string i))
            if (== i n) { return (str_length z) } else {}
        }
        return 1
    } else {}
    return 0
}
fn earlymap(s: string, n: int) -> string {
    let m: HashMap<string, string> = (map_new)
    (map_put m "k" s)
    if (> n 0) {
        let m2: HashMap<string, string> = (map_new)
        (map_put m2 "k" (+ s "2"))
        let mut i: int = 0
        while (< i 3) {
            let z: string = (+ (map_get m2 "k") (int_to_string i))
            if (== i n) { return z } else {}
            set i (+ i 1)
        }
        return (map_get m "k")
    } else {}
    return (map_get m "k")
}
fn mkmap(s: string) -> HashMap<string, string> {
    let m: HashMap<string, string> = (map_new)
    (map_put m "k" s)
    (map_put m s "v")
    return m
}
fn unwrap(r: Res) -> string {
    match r {
        Ok(x) => { return x.v }
        Err(e) => { return e.msg }
    }
    return ""
}
fn dump(v: array<string>) -> int {
    let mut t: int = 0
    for i in (range 0 (array_length v)) {
        (println (at v i))
        set t (+ t (str_length (at v i)))
    }
    return t
}
fn dumpi(v: array<int>) -> int {
    let mut t: int = 0
    for i in (range 0 (array_length v)) {
        set t (+ (* t 3) (at v i))
    }
    return t
}
fn dumpn(v: array<array<string>>) -> int {
    let mut t: int = 0
    for i in (range 0 (array_length v)) {
        set t (+ t (dump (at v i)))
    }
    return t
}
fn dumpb(v: array<Box>) -> int {
    let mut t: int = 0
    for i in (range 0 (array_length v)) {
        let e: Box = (at v i)
        (println e.name)
        set t (+ t (dump e.xs))
    }
    return t
}
fn dumpm(m: HashMap<string, string>) -> int {
    let ks: array<string> = (map_keys m)
    let vs: array<string> = (map_values m)
    let mut t: int = (+ (array_length ks) (array_length vs))
    for i in (range 0 (array_length ks)) {
        set t (+ t (+ (str_length (at ks i)) (str_length (map_get m (at ks i)))))
    }
    for i in (range 0 (array_length vs)) {
        set t (+ t (str_length (at vs i)))
    }
    return t
}
'''

DECLS = '''    set G []
    let mut s: string = (+ "s" (int_to_string k))
    let mut a: array<string> = ["p", s]
    let mut b: array<string> = a
    let mut ai: array<int> = [1, 2, k]
    let mut n: array<array<string>> = []
    set n (array_push n a)
    let mut bx: Box = Box { xs: a, name: s }
    let mut bs: array<Box> = []
    set bs (array_push bs bx)
    let mut o: Outer = Outer { b: bx, tag: k }
    let mut hd: Holder = Holder { rows: [], names: a, n: 0 }
    let mut t: (string, array<string>) = (s, a)
    let mut r: Res = Res.Ok { v: s }
    let mut f: fn(int) -> int = (pick k)
    let mut hm: HashMap<string, string> = (map_new)
    (map_put hm "k" (+ "k" s))
    let mut ks: array<string> = []
    let mut v: string = "v0"
    let lp: List<P3> = (list_P3_new)
    let mut c: int = 0
'''

OBS = '''    (println s)
    (println v)
    (println (dump a))
    (println (dump b))
    (println (dumpi ai))
    (println (dumpn n))
    (println bx.name)
    (println (dump bx.xs))
    (println o.b.name)
    (println (dump o.b.xs))
    (println (dumpb bs))
    (println (dump hd.names))
    (println (array_length hd.rows))
    (println t.0)
    (println (dump t.1))
    (println (unwrap r))
    (println (f 3))
    (println (map_size hm))
    (println (dumpm hm))
    (println (dump ks))
    (println (dump G))
    (println (list_P3_length lp))
    (println c)
'''

# name -> statement text
OPS = {
    # ---- array<string>: push/pop/set/remove/slice, aliasing, rebuilding
    "push_s":    'set a (array_push a s)',
    "push_new":  'set a (array_push a (+ s "x"))',
    "alias":     'set b a',
    "renew":     'set a ["n", s]',
    "relit":     'set a []',
    "set_cat":   'if (> (array_length a) 0) { (array_set a 0 (+ (at a 0) "y")) } else {}',
    "set_dup":   'if (> (array_length a) 0) { (array_set a 0 (at a (- (array_length a) 1))) } else {}',
    "pop":       'if (> (array_length a) 0) { set s (array_pop a) } else {}',
    "remove0":   'if (> (array_length a) 0) { set a (array_remove_at a 0) } else {}',
    "slice":     'if (> (array_length a) 0) { set b (array_slice a 0 1) } else {}',
    "slice_tl":  'if (> (array_length a) 1) { set b (array_slice a 1 (array_length a)) } else {}',
    "slice_all": 'set b (array_slice a 0 (array_length a))',
    "slice_mid": 'if (> (array_length a) 2) { set a (array_slice a 1 2) } else {}',
    "slice_e":   'set b (array_slice a (array_length a) (array_length a))',
    "set_last":  'if (> (array_length a) 1) { (array_set a (- (array_length a) 1) (+ (at a 0) "l")) } else {}',
    "rm_last":   'if (> (array_length a) 1) { set a (array_remove_at a (- (array_length a) 1)) } else {}',
    "rm_b":      'if (> (array_length b) 1) { (array_remove_at b 1) } else {}',
    "pop_b":     'if (> (array_length b) 0) { set s (array_pop b) } else {}',
    "fill8":     'while (< (array_length a) 8) { set a (array_push a (+ s (int_to_string (array_length a)))) }',
    "fill9":     'while (< (array_length a) 9) { set a (array_push a s) }',
    # ---- array<int>
    "i_push":    'set ai (array_push ai c)',
    "i_pop":     'if (> (array_length ai) 0) { set c (array_pop ai) } else {}',
    "i_rm":      'if (> (array_length ai) 0) { set ai (array_remove_at ai 0) } else {}',
    "i_slice":   'if (> (array_length ai) 1) { set ai (array_slice ai 1 (array_length ai)) } else {}',
    "i_map":     'set ai (map ai dbl)',
    "i_filter":  'set ai (filter ai odd)',
    "i_reduce":  'set c (reduce ai 0 addi)',
    "i_fill8":   'while (< (array_length ai) 8) { set ai (array_push ai (array_length ai)) }',
    # ---- nested arrays
    "n_push":    'set n (array_push n a)',
    "n_pushb":   'set n (array_push n b)',
    "n_get":     'if (> (array_length n) 0) { set b (at n 0) } else {}',
    "n_set":     'if (> (array_length n) 0) { (array_set n 0 b) } else {}',
    "n_pop":     'if (> (array_length n) 0) { set a (array_pop n) } else {}',
    "n_rm":      'if (> (array_length n) 0) { set n (array_remove_at n 0) } else {}',
    "n_slice":   'if (> (array_length n) 1) { set n (array_slice n 1 (array_length n)) } else {}',
    "n_renew":   'set n []\n    set n (array_push n b)\n    set n (array_push n a)',
    # ---- struct holding arrays, arrays of structs
    "box":       'set bx Box { xs: a, name: s }',
    "box_fn":    'set bx (mkbox b (+ s "k"))',
    "box_id":    'set bx (ident bx)',
    "box_xs":    'set a bx.xs',
    "box_name":  'set s bx.name',
    "bs_push":   'set bs (array_push bs bx)',
    "bs_get":    'if (> (array_length bs) 0) { set bx (at bs 0) } else {}',
    "bs_set":    'if (> (array_length bs) 0) { let tb: Box = (mkbox a s)\n        (array_set bs 0 tb) } else {}',
    "bs_pop":    'if (> (array_length bs) 0) { set bx (array_pop bs) } else {}',
    "bs_rm":     'if (> (array_length bs) 0) { set bs (array_remove_at bs 0) } else {}',
    "bs_slice":  'if (> (array_length bs) 0) { set bs (array_slice bs 0 1) } else {}',
    # an element of the array itself as the pushed / stored value (the argument points into the storage that may move)
    "bs_selfpush": 'if (> (array_length bs) 0) { set bs (array_push bs (at bs 0)) } else {}',
    "bs_fill8":  'while (< (array_length bs) 8) { set bs (array_push bs bx) }',
    "selfpush":  'if (> (array_length a) 0) { set a (array_push a (at a 0)) } else {}',
    "n_selfpush": 'if (> (array_length n) 0) { set n (array_push n (at n 0)) } else {}',
    "i_selfpush": 'if (> (array_length ai) 0) { set ai (array_push ai (at ai 0)) } else {}',
    "bs_renew":  'if (>= c c) { let tb2: Box = (mkbox b "w")\n        set bs []\n        set bs (array_push bs bx)\n        set bs (array_push bs tb2) } else {}',
    "outer":     'set o Outer { b: bx, tag: 2 }',
    "outer_get": 'set bx o.b',
    "hd_loop":   'for i in (range 0 3) {\n        let mut row: array<int> = [i, c]\n        set row (array_push row (* i 7))\n        set hd Holder { rows: (array_push hd.rows row), names: (array_push hd.names (int_to_string i)), n: i }\n    }',
    "hd_new":    'set hd Holder { rows: [], names: b, n: (array_length a) }',
    "hd_names":  'set a hd.names',
    # ---- tuples, unions, function values
    "tup":       'set t (s, a)',
    "tup_get":   'set a t.1\n    set s t.0',
    "un_ok":     'set r Res.Ok { v: s }',
    "un_err":    'set r Res.Err { code: 1, msg: (+ s "m") }',
    "un_get":    'set s (unwrap r)',
    "un_match":  'match r {\n        Ok(x) => { set a (array_push a x.v) }\n        Err(e) => { set s e.msg }\n    }',
    "fn_pick":   'set f (pick c)',
    "fn_call":   'set c (+ c (f 1))',
    # ---- hashmap<string,string>
    "hm_put":    '(map_put hm "k" s)',
    "hm_put2":   '(map_put hm s (+ s "v"))',
    "hm_putv":   '(map_put hm "k" v)',
    "hm_get":    'if (map_has hm "k") { set v (map_get hm "k") } else {}',
    "hm_gets":   'if (map_has hm "k") { set s (map_get hm "k") } else {}',
    "hm_self":   'if (map_has hm "k") { (map_put hm "k" (map_get hm "k")) } else {}',
    "hm_rm":     '(map_remove hm "k")',
    "hm_clear":  '(map_clear hm)',
    "hm_keys":   'set ks (map_keys hm)',
    "hm_vals":   'set ks (map_values hm)',
    "hm_new":    'set hm (mkmap s)',
    "hm_many":   'for i in (range 0 14) { (map_put hm (+ "q" (int_to_string i)) (+ s (int_to_string i))) }',
    "hm_early":  'set v (earlymap s 1)',
    "hm_early0": 'set v (earlymap s 0)',
    # ---- generated List<P3>
    "lp_push":   '(list_P3_push lp P3 { x: c, y: 2, z: 3 })',
    "lp_push5":  'for i in (range 0 5) { (list_P3_push lp P3 { x: i, y: c, z: 3 }) }',
    "lp_get":    'if (> (list_P3_length lp) 0) { let q: P3 = (list_P3_get lp (- (list_P3_length lp) 1))\n        set c (+ c (+ q.x (+ q.y q.z))) } else {}',
    "lp_set":    'if (> (list_P3_length lp) 0) { (list_P3_set lp 0 P3 { x: 9, y: 8, z: c }) } else {}',
    # ---- globals, higher-order functions, strings, calls through frames, early return
    "g_set":     'set G a',
    "g_get":     'set a G',
    "mapf":      'set a (map a up)',
    "filt":      'set b (filter a longer)',
    "substr":    'if (> (str_length s) 1) { set s (str_substring s 0 1) } else {}',
    "substr_e":  'set v (str_substring s (str_length s) 0)',
    "cat":       'set s (+ s "c")',
    "cat_loop":  'for i in (range 0 4) { set s (+ s (int_to_string i)) }',
    "concat":    'set v (str_concat s v)',
    "charat":    'if (> (str_length s) 0) { set c (+ c (char_at s (- (str_length s) 1))) } else {}',
    "contains":  'if (str_contains s "s") { set c (+ c 1) } else {}',
    "mk":        'set a (mk s)',
    "id3":       'set b (ida3 a)',
    "poke":      'set c (+ c (poke a (+ s "p")))',
    "grow":      'set b (grow a s)',
    "early":     'set c (+ c (early s 1))',
    "early0":    'set c (+ c (early s 0))',
}

CORE = ["push_new", "alias", "fill8", "remove0", "pop", "slice_tl", "set_dup", "box", "box_xs", "bs_get", "n_push", "n_get",
        "hm_put", "hm_get", "hm_self", "hm_rm", "hm_keys", "lp_push5", "mk", "g_set"]

CORE_THOROUGH = CORE + ["push_s", "rm_b", "n_set", "n_rm", "bs_push", "bs_set", "hd_loop", "tup_get", "un_match", "hm_putv", "hm_gets", "hm_clear", "hm_new",
                        "hm_many", "lp_get", "g_get", "mapf", "cat_loop", "grow", "early"]

# statements that had to be left out, with the reason (so the gap is visible, not silent)
DROPPED = {
    "closures (nested fn capturing locals)": "native backend emits a reference to an undeclared C function (use of undeclared identifier 'nl_get'): C compile error, not a run",
    "struct-valued call as array_set/array_push argument ((array_set bs 0 (mkbox a s)))": "native backend takes the address of an rvalue: C compile error; the value goes through a let first",
    "array literal of non-literal arrays/structs ([a], [bx, ..])": "native backend emits (DynArray*[]){a} / (struct[]){bx}: C compile error; the same values are built with [] + array_push",
}


def t_function(name, seq, ops=None):
    ops = ops or OPS
    body = "".join("    %s\n" % ops[o] for o in seq)
    return "fn %s(k: int) -> int {\n%s%s%s    return c\n}\nshadow %s { assert true }\n" % (name, DECLS, body, OBS, name)


def t_sequences(tier, ops=None):
    names = list(ops or OPS)
    core = [x for x in CORE if x in names]
    seqs = [(x,) for x in names] + list(itertools.product(names, repeat=2))
    if tier == "quick":
        seqs += list(itertools.product(core[:12], repeat=3))
    else:
        seqs += list(itertools.product([x for x in CORE_THOROUGH if x in names], repeat=3))
    return seqs


def t_program(items):
    """items: [(function name, sequence)] -> one nano program running every function once."""
    out = [PRELUDE]
    calls = []
    for i, (nm, sq) in enumerate(items):
        out.append(t_function(nm, sq))
        calls.append('    (println "@@%s")\n    (println (%s %d))\n' % (nm, nm, int(re.sub(r"\D", "", nm) or 0) % 3))
    out.append("fn main() -> int {\n%s    (println \"@@end\")\n    return 0\n}\nshadow main { assert true }\n" % "".join(calls))
    return "".join(out)


# ----------------------------------------------------------------------------- family B: capacity boundaries
KINDS = {
    # kind -> (nano element type, expression for the i-th element, expression reducing one element $E to an int, a constant element)
    "int":    ("int", "(* i 10)", "$E", "77"),
    "float":  ("float", "(* (cast_float i) 1.5)", "(cast_int $E)", "2.5"),
    "bool":   ("bool", "(== (% i 2) 0)", "(bi $E)", "true"),
    "string": ("string", '(+ "e" (int_to_string i))', "(str_length $E)", '"zz"'),
    "p1":     ("P1", "P1 { x: i }", "$E.x", "P1 { x: 77 }"),
    "p3":     ("P3", "P3 { x: i, y: (* i 2), z: 7 }", "(+ $E.x (+ $E.y $E.z))", "P3 { x: 77, y: 1, z: 2 }"),
    "arr":    ("array<int>", "[i, 1]", "(+ (at $E 0) (array_length $E))", "[77, 1, 2]"),
}
B_PRELUDE = '''struct P1 { x: int }
struct P2 { x: int, y: int }
struct P3 { x: int, y: int, z: int }
struct P4 { x: int, y: int, z: int, w: int }
fn bi(b: bool) -> int {
    if b { return 1 } else {}
    return 0
}
'''
B_OPS = {
    "none":   "",
    "rm0":    "if (> (array_length a) 0) { set a (array_remove_at a 0) } else {}",
    "rmmid":  "if (> (array_length a) 1) { set a (array_remove_at a (/ (array_length a) 2)) } else {}",
    "rmlast": "if (> (array_length a) 0) { set a (array_remove_at a (- (array_length a) 1)) } else {}",
    "pop":    "if (> (array_length a) 0) { let z: %(ty)s = (array_pop a)\n        set t (+ t %(redz)s) } else {}",
    "push":   "set a (array_push a %(el0)s)",
    "set0":   "if (> (array_length a) 0) { (array_set a 0 %(el0)s) } else {}",
    "setl":   "if (> (array_length a) 0) { (array_set a (- (array_length a) 1) %(el0)s) } else {}",
    "slice":  "set a (array_slice a 0 (array_length a))",
    "slice1": "if (> (array_length a) 1) { set a (array_slice a 1 (- (array_length a) 1)) } else {}",
    "alias_push": "let mut b2: array<%(ty)s> = a\n    set b2 (array_push b2 %(el0)s)\n    set t (+ t (array_length b2))",
}
B_LENGTHS_QUICK = [0, 1, 2, 7, 8, 9, 15, 16, 17]
B_LENGTHS_THOROUGH = list(range(0, 19)) + [31, 32, 33, 63, 64, 65]


def b_function(name, kind, n, op):
    ty, el, red, el0 = KINDS[kind]
    opt = B_OPS[op] % {"ty": ty, "el0": el0, "redz": red.replace("$E", "z")}
    return ("fn %s() -> int {\n    let mut a: array<%s> = []\n    let mut t: int = 0\n    for i in (range 0 %d) { set a (array_push a %s) }\n    %s\n"
            "    for j in (range 0 (array_length a)) {\n        let e: %s = (at a j)\n        set t (+ (* t 3) %s)\n    }\n    return (+ t (array_length a))\n}\nshadow %s { assert true }\n"
            % (name, ty, n, el, opt, ty, red.replace("$E", "e"), name))


def l_function(name, width, n):
    """generated List<Pw> grown to n elements, every element read back and overwritten"""
    fields = ["x", "y", "z", "w"][:width]
    lit = "P%d { %s }" % (width, ", ".join("%s: (+ i %d)" % (f, j) for j, f in enumerate(fields)))
    lit2 = "P%d { %s }" % (width, ", ".join("%s: %d" % (f, j + 1) for j, f in enumerate(fields)))
    red = " ".join("(+ e.%s" % f for f in fields) + " 0" + ")" * width
    return ("fn %(nm)s() -> int {\n    let l: List<P%(w)d> = (list_P%(w)d_new)\n    let mut t: int = 0\n    for i in (range 0 %(n)d) { (list_P%(w)d_push l %(lit)s) }\n"
            "    for j in (range 0 (list_P%(w)d_length l)) {\n        let e: P%(w)d = (list_P%(w)d_get l j)\n        set t (+ (* t 3) %(red)s)\n        (list_P%(w)d_set l j %(lit2)s)\n    }\n"
            "    for j in (range 0 (list_P%(w)d_length l)) {\n        let e: P%(w)d = (list_P%(w)d_get l j)\n        set t (+ t e.x)\n    }\n    return (+ t (list_P%(w)d_length l))\n}\nshadow %(nm)s { assert true }\n"
            % {"nm": name, "w": width, "n": n, "lit": lit, "lit2": lit2, "red": red})


def li_function(name, kind, n):
    """runtime list_int / list_string driven from nano: push n, insert front/middle, set, remove, pop, read back"""
    if kind == "int":
        return ("fn %(nm)s() -> int {\n    let l: List<int> = (list_int_new)\n    let mut t: int = 0\n    for i in (range 0 %(n)d) { (list_int_push l (* i 3)) }\n"
                "    (list_int_insert l 0 5)\n    (list_int_insert l (/ (list_int_length l) 2) 6)\n    (list_int_insert l (list_int_length l) 7)\n"
                "    (list_int_set l 0 9)\n    set t (+ t (list_int_remove l 1))\n    set t (+ t (list_int_pop l))\n"
                "    for j in (range 0 (list_int_length l)) { set t (+ (* t 3) (list_int_get l j)) }\n    return (+ t (list_int_length l))\n}\nshadow %(nm)s { assert true }\n"
                % {"nm": name, "n": n})
    return ("fn %(nm)s() -> int {\n    let l: List<string> = (list_string_new)\n    let mut t: int = 0\n    for i in (range 0 %(n)d) { (list_string_push l (+ \"e\" (int_to_string i))) }\n"
            "    (list_string_insert l 0 \"f\")\n    (list_string_insert l (/ (list_string_length l) 2) \"mm\")\n    (list_string_insert l (list_string_length l) \"bbb\")\n"
            "    (list_string_set l 0 (+ \"s\" (int_to_string %(n)d)))\n    (list_string_set l 1 (list_string_get l 1))\n    set t (+ t (str_length (list_string_remove l 1)))\n    set t (+ t (str_length (list_string_pop l)))\n"
            "    for j in (range 0 (list_string_length l)) { set t (+ (* t 3) (str_length (list_string_get l j))) }\n    return (+ t (list_string_length l))\n}\nshadow %(nm)s { assert true }\n"
            % {"nm": name, "n": n})


def b_cases(tier):
    """[(name, function source, label used in the cause signature)] of the boundary matrix"""
    lens = B_LENGTHS_QUICK if tier == "quick" else B_LENGTHS_THOROUGH
    out = []
    for kind in KINDS:
        for n in lens:
            for op in B_OPS:
                out.append(("b_%s_%d_%s" % (kind, n, op), b_function("b_%s_%d_%s" % (kind, n, op), kind, n, op), "array<%s> %s" % (KINDS[kind][0], op)))
    llens = [0, 1, 3, 4, 5, 6, 8, 9] if tier == "quick" else list(range(0, 19)) + [32, 33]
    for w in (1, 2, 3, 4):
        for n in llens:
            out.append(("l_p%d_%d" % (w, n), l_function("l_p%d_%d" % (w, n), w, n), "generated List<P%d>" % w))
    for kind in ("int", "string"):
        for n in llens:
            out.append(("li_%s_%d" % (kind, n), li_function("li_%s_%d" % (kind, n), kind, n), "List<%s>" % kind))
    return out


# ----------------------------------------------------------------------------- family X: string operation matrix
X_STRINGS = ["", "a", "ab", "abc", "h\\u00e9", "aXbXc"]


def x_cases(tier):
    out = []
    strs = ["", "a", "ab", "abc", "aXbXc"] if tier == "quick" else ["", "a", "ab", "abc", "abcd", "aXbXc", "aaaaaaaa", "aaaaaaaaa"]
    k = 0
    for s in strs:
        L = len(s)
        body = ['    let s: string = (+ "%s" "")' % s, "    let mut t: int = 0"]
        for st in range(0, L + 1):
            for ln in range(0, L - st + 1):
                body.append('    set t (+ t (str_length (str_substring s %d %d)))' % (st, ln))
        for i in range(0, L):
            body.append("    set t (+ t (char_at s %d))" % i)
            body.append("    set t (+ t (str_length (string_from_char (char_at s %d))))" % i)
        for nd in ["", "a", "X", "c", "zz", s]:
            body.append('    if (str_contains s "%s") { set t (+ t 1) } else {}' % nd)
            body.append('    set t (+ t (str_length (str_concat s "%s")))' % nd)
            body.append('    set t (+ t (str_length (+ "%s" s)))' % nd)
            body.append('    if (== s "%s") { set t (+ t 1) } else {}' % nd)
        # bstring view of the same bytes
        body.append('    let bs: bstring = (bstr_new s)')
        body.append('    set t (+ t (bstr_length bs))')
        for st in range(0, L + 1):
            for ln in range(0, L - st + 1):
                body.append('    set t (+ t (bstr_length (bstr_substring bs %d %d)))' % (st, ln))
        for i in range(0, L):
            body.append("    set t (+ t (bstr_byte_at bs %d))" % i)
        body.append('    let b2: bstring = (bstr_concat bs (bstr_new "q"))')
        body.append('    set t (+ t (str_length (bstr_to_cstr b2)))')
        body.append('    set t (+ t (str_length (bstr_to_cstr (bstr_substring bs 0 %d))))' % L)
        body.append('    if (bstr_validate_utf8 bs) { set t (+ t (bstr_utf8_length bs)) } else {}')
        body.append('    if (bstr_equals bs b2) { set t (+ t 1) } else {}')
        nm = "x_%d" % k
        k += 1
        out.append((nm, "fn %s() -> int {\n%s\n    return t\n}\nshadow %s { assert true }\n" % (nm, "\n".join(body), nm), "string operations"))
    # integer helpers on the boundary pool (abs/min/max/int_to_string/string_to_int: negation and formatting of INT64_MIN ...);
    # the values go through an array so that the C compiler cannot fold the arithmetic
    body = ["    let vs: array<int> = [0, 1, -1, 9223372036854775807, -9223372036854775807, -9223372036854775808]",
            "    let mut t: int = 0",
            "    for i in (range 0 (array_length vs)) {",
            "        let a: int = (at vs i)",
            "        set t (+ t (str_length (int_to_string (abs a))))",
            "        set t (+ t (str_length (int_to_string (string_to_int (int_to_string a)))))",
            "        for j in (range 0 (array_length vs)) {",
            "            let b: int = (at vs j)",
            "            set t (+ t (str_length (int_to_string (min a b))))",
            "            set t (+ t (str_length (int_to_string (max a b))))",
            "            set t (+ t (str_length (int_to_string (+ (* a b) (- a b)))))",
            "        }",
            "    }"]
    out.append(("x_num", "fn x_num() -> int {\n%s\n    return t\n}\nshadow x_num { assert true }\n" % "\n".join(body), "integer helpers"))
    return out


def flat_program(items, prelude):
    """items: [(name, function source)] -> program calling each zero-argument function once between markers"""
    out = [prelude]
    calls = []
    for nm, src in items:
        out.append(src)
        calls.append('    (println "@@%s")\n    (println (%s))\n' % (nm, nm))
    out.append("fn main() -> int {\n%s    (println \"@@end\")\n    return 0\n}\nshadow main { assert true }\n" % "".join(calls))
    return "".join(out)
