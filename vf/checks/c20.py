"""C20  Native programs and their C runtime are memory-safe.

(a) programs: every enumerated program of layers S, D, F, A (E in the thorough tier) and three C20-specific
    text families (vf/checks/c20prog.py: T operation sequences over live strings / arrays of strings / nested
    arrays / structs holding arrays / tuples / unions / function values / HashMap<string,string> / generated
    List<T>; B capacity-boundary matrix; X string-operation matrix) is compiled by the tree's own nanoc with
    clang -fsanitize=address,undefined -fno-sanitize-recover=undefined (through the caching NANO_CC wrapper
    vf/ccfast) and run.  Oracle: exit status 0 and no sanitizer report.
(b) runtime histories: vf/probes/rt_probe.c, compiled with the same sanitizers against the tree's
    src/runtime/{gc,dyn_array,gc_struct,nl_string,list_int,list_string}.c, enumerates depth-first EVERY operation
    history of length <= L over dyn_array (9 element kinds), list_int, list_string, the reference-counting GC
    (<= 3 objects) and nl_string, and compares the complete observable state with a plain reference model after
    every operation.

One root cause = one VIOLATION line: failures are grouped by cause signature (sanitizer error kind + top runtime
frames + last statement / operation of the minimal failing sequence).  Open known findings (known_findings.json,
property C20) are matched by that signature: {kind, frames_regex, shape_regex}.
"""
import os
import re

from .. import common, langrun
from . import langcommon as lc
from . import c20prog as P

PROBE_SRC = os.path.join(common.VERIF, "vf/probes/rt_probe.c")
RUNTIME = ["gc.c", "dyn_array.c", "gc_struct.c", "nl_string.c", "list_int.c", "list_string.c"]
EXTRA_CC = " -Wno-parentheses-equality"        # clang-only warning on nanoc's `if ((a == b))`; nanoc passes -Werror (default cc is gcc)
_ST = {}


# ----------------------------------------------------------------------------- sanitizer report -> cause signature
def _norm(s):
    s = re.sub(r"0x[0-9a-f]+", "ADDR", s)
    return re.sub(r"\d+", "N", s)


def signature(rc, err, user_fns=()):
    """(kind, [runtime frames]) of a failed run; kind None when the run did not fail."""
    text = err if isinstance(err, str) else err.decode(errors="replace")
    m = re.search(r"ERROR: AddressSanitizer: (attempting double-free|attempting free[\w -]*?(?= \(| on)|[\w-]+)", text)
    mu = re.search(r"runtime error: ([^\n]*)", text)
    ma = re.search(r"Assertion [`'](.*?)' failed", text)
    if m:
        kind = "asan:" + m.group(1).replace("attempting ", "").replace(" ", "-")
        if m.group(1) == "SEGV":
            z = re.search(r"The signal is caused by a (\w+) memory access", text)
            kind += ":" + (z.group(1) if z else "?")
            if re.search(r"address 0x0{8,}[0-9a-f]{0,3}\b", text):
                kind += ":null"
    elif mu:
        kind = "ubsan:" + _norm(mu.group(1))[:80]
    elif ma:
        kind = "assert:" + _norm(ma.group(1))[:80]
    elif rc == "timeout":
        kind = "timeout"
    elif isinstance(rc, int) and rc < 0:
        kind = "signal%d" % -rc
    elif rc not in (0, None):
        kind = "exit%s" % rc
    else:
        return None, []
    frames = []
    started = False
    for line in text.splitlines():
        fm = re.match(r"\s+#\d+ 0x[0-9a-f]+ in (\S+)", line)
        if fm:
            started = True
            frames.append(fm.group(1))
        elif started:
            break
    drop = set("nl_" + f for f in user_fns) | {"main", "nl_main", "_start"}
    frames = [f for f in frames if f not in drop and not f.startswith("__libc_start") and not f.startswith("__interceptor_")
              and f not in ("run_history", "dfs", "fork_level", "da_apply", "l_apply", "g_apply", "ns_apply", "da_finish", "l_finish", "g_finish", "ns_finish",
                            "da_check", "l_check", "g_check", "ns_check", "da_push", "da_set", "da_get", "l_push", "ns_put")]
    return kind, frames[:3]


def match_known(findings, kind, frames, shape):
    for f in findings:
        sg = f.get("signature")
        if not isinstance(sg, dict):
            continue
        if (re.search(sg.get("kind", ""), kind) and re.search(sg.get("frames_regex", ""), " <- ".join(frames))
                and re.search(sg.get("shape_regex", ""), shape, re.S)):
            return f
    return None


# ----------------------------------------------------------------------------- pool helper
def _guard(args):
    fn, a = args
    try:
        return ("ok", fn(a))
    except BaseException:            # the exception travels as data: raising inside a pool worker or inside a loop over
        import traceback             # common.pimap leaves the pool's terminate()/join() waiting for blocked workers
        return ("error", traceback.format_exc())


def pmap_all(fn, tasks):
    """ordered parallel map, completed before any result is looked at; worker exceptions become HarnessError afterwards"""
    out = list(common.pimap(_guard, [(fn, t) for t in tasks])) if tasks else []
    for st, v in out:
        if st != "ok":
            raise common.HarnessError("worker failed:\n" + v)
    return [v for _st, v in out]


# ----------------------------------------------------------------------------- part (a): text families
def _write(path, text):
    with open(path, "w") as f:
        f.write(text)


def _program(kind, items):
    if kind == "T":
        return P.t_program([(nm, payload) for nm, payload in items])
    return P.flat_program(items, P.B_PRELUDE if kind == "B" else "")


def _markers_ok(items, out):
    text = out.decode("utf-8", errors="replace")
    pos = 0
    for nm, _p in items:
        j = text.find("@@%s\n" % nm, pos)
        if j < 0:
            return False
        pos = j + 1
    return text.rstrip().endswith("@@end")


def _observe_text(kind, items, tag, depth=0):
    """{name: ('ok',) | ('compile', detail) | ('run', rc, stderr text)}; bisects a failing batch down to single functions."""
    lang = _ST["lang"]
    src = os.path.join(lang.work, "%s_%d_%d.nano" % (tag, depth, os.getpid()))
    _write(src, _program(kind, items))
    r = lang.native(src, timeout=120)
    if r["compile_rc"] == 0 and r["rc"] == 0 and _markers_ok(items, r["out"]) and not re.search(rb"ERROR: AddressSanitizer|runtime error:", r["err"]):
        return dict((nm, ("ok",)) for nm, _p in items)
    if len(items) == 1:
        nm = items[0][0]
        if r["compile_rc"] != 0 or not r["exe_exists"]:
            return {nm: ("compile", (r["compile_err"][-3000:] + r["compile_out"][-1000:]).decode(errors="replace"))}
        if r["rc"] == 0 and not re.search(rb"ERROR: AddressSanitizer|runtime error:", r["err"]):
            return {nm: ("markers", r["out"][-500:].decode(errors="replace"))}
        return {nm: ("run", r["rc"], r["err"].decode(errors="replace"))}
    mid = len(items) // 2
    res = _observe_text(kind, items[:mid], tag, depth + 1)
    res.update(_observe_text(kind, items[mid:], tag, depth + 1))
    return res


def _text_task(args):
    kind, bi, items = args
    return kind, items, _observe_text(kind, items, "%s%05d" % (kind, bi))


def _user_fns(src):
    return set(re.findall(r"\bfn (\w+)\(", src))


class Collector:
    """Groups failing elements by cause signature (error kind + top runtime frames) and keeps the smallest element per
    signature; an element explained by an open known finding (kind, frames and statement shape all match) is counted
    under that finding instead.  The last statement / operation of every element is listed in the summary."""

    def __init__(self, rep, findings):
        self.rep = rep
        self.findings = findings
        self.groups = {}

    def add(self, size, kind, frames, last, shape, files, what, replay_sh, confirm):
        if not kind.startswith(("asan:", "ubsan:", "signal", "model:", "oob:")):
            # the run stopped cleanly (failed runtime assertion, non-zero exit) without touching memory it does not own:
            # a functional defect (C01/C04's business), recorded in the evidence but not a C20 violation
            key = "%s|%s" % (kind, last)
            d = self.rep.coverage.setdefault("stopped_without_memory_error", {})
            d[key] = d.get(key, 0) + 1
            self.rep.sample({"stopped_without_memory_error": key, "element": what}, cap=12)
            return
        kf = match_known(self.findings, kind, frames, shape)
        key = ("known", kf["id"]) if kf is not None else ("viol", "%s|%s" % (kind, _norm(" <- ".join(frames))))
        g = self.groups.get(key)
        if g is None:
            g = self.groups[key] = dict(size=None, count=0, lasts=[], kf=kf)
        g["count"] += 1
        if last not in g["lasts"]:
            g["lasts"].append(last)
        if g["size"] is None or size < g["size"]:
            g.update(size=size, kind=kind, frames=frames, files=files, what=what, replay=replay_sh, confirm=confirm)

    def flush(self):
        for key in sorted(self.groups):
            g = self.groups[key]
            # reproducibility: the representative is replayed alone twice and must fail with the same signature both times
            for _i in range(2):
                k2, f2 = g["confirm"]()
                if (k2, f2) != (g["kind"], g["frames"]):
                    raise common.HarnessError("failure not reproducible for %s: replay gave %s %s" % (key, k2, f2))
            if g["kf"] is not None:
                for _i in range(g["count"]):
                    self.rep.known_finding(g["kf"]["id"], g["kf"]["what"])
                continue
            summary = "%s in %s; minimal element: %s; %d element(s) with this signature, last statement/operation: %s" % (
                g["kind"], " <- ".join(g["frames"]) or "(no runtime frame)", g["what"], g["count"], ", ".join(sorted(g["lasts"])[:12]) + (" ..." if len(g["lasts"]) > 12 else ""))
            self.rep.violation("c20:" + key[1], g["files"], summary,
                               'cd %s && ./check C20 --replay "$(cd "$(dirname "$0")" && pwd)"\n# by hand:\n# %s' % (common.VERIF, g["replay"].replace("\n", "\n# ")))


def run_text_family(rep, col, kind, level_items, label):
    """level_items: list of levels; each level a list of (name, payload, seq-or-label) - a tuple is a T sequence, a string a label.  A level is run completely before
    the next one; sequences that contain an already failing sequence as a subsequence are not run."""
    failing = []          # sequences (tuples of op names) that failed
    nrun = nskip = 0
    BATCH = 100

    def contains(seq, sub):
        it = iter(seq)
        return all(any(x == y for y in it) for x in sub)

    for level in level_items:
        todo = []
        for nm, payload, seq in level:
            if isinstance(seq, tuple) and any(contains(seq, f) for f in failing):
                nskip += 1
                continue
            todo.append((nm, payload, seq))
        seqof = dict((nm, seq) for nm, _p, seq in todo)
        srcof = dict((nm, p) for nm, p, _s in todo)
        tasks = [(kind, bi, [(nm, p) for nm, p, _s in todo[bi:bi + BATCH]]) for bi in range(0, len(todo), BATCH)]
        for _k, items, res in pmap_all(_text_task, tasks):
            for nm, _p in items:
                nrun += 1
                r = res[nm]
                if r[0] == "ok":
                    continue
                seq = seqof[nm]
                single = _program(kind, [(nm, srcof[nm])])
                if r[0] in ("compile", "markers"):
                    raise common.HarnessError("%s family element %s %s: %s" % (label, nm, "does not compile" if r[0] == "compile" else "lost its output markers", r[1][-1500:]))
                kind_, frames = signature(r[1], r[2], _user_fns(single))
                if isinstance(seq, tuple):
                    failing.append(seq)
                    shape = "\n".join(P.OPS[o] for o in seq)
                    last = seq[-1]
                    what = "sequence %s" % "/".join(seq)
                    size = len(seq)
                else:
                    shape = srcof[nm]
                    last = seq
                    what = "function %s" % nm
                    size = len(shape)

                def confirm(single=single, nm=nm):
                    p = os.path.join(_ST["lang"].work, "confirm_%s.nano" % nm)
                    _write(p, single)
                    rr = _ST["lang"].native(p, timeout=600)
                    return signature(rr["rc"], rr["err"], _user_fns(single))
                col.add(size, kind_, frames, last, shape, {"program.nano": single, "stderr.txt": r[2][-30000:]}, what,
                        "# ASan+UBSan build of the generated C:\nNANO_CC='clang -fsanitize=address,undefined -fno-sanitize-recover=undefined -g -Wno-parentheses-equality' bin/nanoc_c program.nano -o p && ./p", confirm)
        if rep.out_of_time():
            break
    return nrun, nskip


def part_a(rep, col, tier, tree):
    lang = langrun.Lang(tree, os.path.join(common.scratch(), "lang"), sanitize=True)
    lang.envx["CCFAST_EXTRA"] += EXTRA_CC
    lang.warm()
    _ST["lang"] = lang

    # ---- enumerator layers
    layers = ["layer_S", "layer_D", "layer_F", "layer_A", "op_matrix", "effect_order"] + (["layer_E"] if tier != "quick" else [])
    cases = lc.all_cases(tier, layers)
    res = langrun.run_all(lang, cases, ["native"])
    byid = dict((c["id"], c) for c in cases)
    judged = rejected = notcompiled = outdom = differs = 0
    for cid in sorted(res, key=lambda k: (len(k), k)):
        r, case = res[cid], byid[cid]
        if r["expected"][0] != "normal":
            outdom += 1          # leaves the defined behaviour of the language: not in C20's domain
            continue
        n = r["native"]
        if n[0] == "ok":
            judged += 1
            if r["expected"][1] is not None and n[1] != r["expected"][1]:
                differs += 1     # wrong output without a memory error: C01/C02's business
            continue
        if lc.is_frontend_reject(n):
            rejected += 1
            continue
        if n[1].startswith("native compile"):
            notcompiled += 1     # accepted by the front end, refused by the C compiler: C04's business
            continue
        judged += 1
        src = langrun.source_of([case])

        def confirm(src=src, cid=cid):
            p = os.path.join(lang.work, "confirm_%s.nano" % cid)
            _write(p, src)
            rr = lang.native(p, timeout=600)
            return signature(rr["rc"], rr["err"], _user_fns(src)), rr
        (kind_, frames), rr = confirm()
        if kind_ is None:
            raise common.HarnessError("case %s failed in its batch (%s) but runs clean alone" % (cid, n[1]))
        col.add(len(src), kind_, frames, "layer " + case["layer"], src, {"program.nano": src, "stderr.txt": rr["err"].decode(errors="replace")[-30000:]},
                "enumerated case %s" % cid, "NANO_CC='clang -fsanitize=address,undefined -fno-sanitize-recover=undefined -g -Wno-parentheses-equality' bin/nanoc_c program.nano -o p && ./p",
                lambda c=confirm: c()[0])
    rep.count("states", judged)
    rep.count("transitions", judged)
    rep.coverage["enumerator_cases"] = len(cases)
    rep.coverage["enumerator_cases_run_natively"] = judged
    rep.coverage["not_accepted_by_front_end"] = rejected
    rep.coverage["accepted_but_refused_by_c_compiler"] = notcompiled
    rep.coverage["outside_defined_domain"] = outdom
    rep.coverage["output_differs_from_reference_without_memory_error"] = differs
    rep.coverage["per_layer"] = dict((l, sum(1 for c in cases if c["layer"] == l)) for l in sorted(set(c["layer"] for c in cases)))
    if judged < 500:
        raise common.HarnessError("vacuous: only %d enumerated programs ran natively" % judged)

    # ---- family T: statement sequences, level by level
    seqs = P.t_sequences(tier)
    levels = {}
    for i, sq in enumerate(seqs):
        levels.setdefault(len(sq), []).append(("h%d" % i, sq, sq))
    nrun, nskip = run_text_family(rep, col, "T", [levels[k] for k in sorted(levels)], "T")
    rep.count("states", nrun)
    rep.count("transitions", nrun)
    rep.coverage["T_statement_alphabet"] = len(P.OPS)
    rep.coverage["T_sequences"] = len(seqs)
    rep.coverage["T_sequences_run"] = nrun
    rep.coverage["T_sequences_not_run_extending_a_failing_sequence"] = nskip
    rep.sample({"family": "T", "sequence": list(seqs[len(seqs) // 2]), "statements": [P.OPS[o] for o in seqs[len(seqs) // 2]]})
    if nrun < 1000:
        raise common.HarnessError("vacuous T family: %d" % nrun)

    # ---- families B and X
    b = P.b_cases(tier)
    nb, _s = run_text_family(rep, col, "B", [b], "B")
    x = P.x_cases(tier)
    nx, _s = run_text_family(rep, col, "X", [x], "X")
    rep.count("states", nb + nx)
    rep.count("transitions", nb + nx)
    rep.coverage["B_boundary_functions"] = nb
    rep.coverage["X_string_functions"] = nx
    rep.sample({"family": "B", "function": b[len(b) // 3][1]})
    rep.count("traces_validated_against_impl", judged + nrun + nb + nx)


# ----------------------------------------------------------------------------- part (b): runtime histories
def build_probe(tree):
    out = os.path.join(tree.root, "bin", "rt_probe")
    cmd = ["clang"] + [c for c in common.SAN_CFLAGS.split() if c != "-Werror"] + ["-Wno-unused-function", "-Wno-unused-parameter", "-o", out, PROBE_SRC]
    cmd += [os.path.join("src/runtime", f) for f in RUNTIME] + ["-lm"]
    rc, o, e = common.run(cmd, cwd=tree.root, timeout=600)
    if rc != 0:
        raise common.HarnessError("rt_probe build failed: %s" % e.decode(errors="replace")[-3000:])
    return out


def _probe(args, timeout=3000):
    mode, fam, L, branch, excl = args
    cmd = [_ST["probe"], mode, fam] + ([str(L), str(branch)] if mode in ("dfs", "forkdfs") else [L] if mode == "replay" else [])
    rc, o, e = common.run(cmd, timeout=timeout, envx={"RT_EXCLUDE": ",".join(excl), "ASAN_OPTIONS": "detect_leaks=0:quarantine_size_mb=64"})
    return args, rc, o.decode(errors="replace"), e.decode(errors="replace")


STAT = re.compile(r"^STAT family=(\S+) histories=(\d+) ops=(\d+) checks=(\d+) fails=(\d+) maxlen=(\d+)", re.M)


def families(tier):
    q = tier == "quick"
    fams = [("da:" + k, 6 if q else 7) for k in ("int", "u8", "float", "bool", "str", "arr", "st24", "st12", "st1")]
    fams += [("li", 6 if q else 8), ("ls", 6 if q else 7), ("gc", 6 if q else 8), ("ns", 4 if q else 5)]
    return fams


def opclass(op):
    """operation class = name cut at its first digit (the same rule RT_EXCLUDE applies inside the probe)"""
    return re.sub(r"\d.*$", "", op)


def part_b(rep, col, tier, tree):
    _ST["probe"] = build_probe(tree)
    fams = families(tier)
    excl = dict((f, []) for f, _L in fams)
    tot_h = tot_o = tot_c = 0
    maxlen = 0
    pending = []
    for fam, L in fams:
        _a, rc, o, _e = _probe(("count", fam, 0, 0, []))
        m = re.search(r"BRANCHES (\d+)", o)
        if rc != 0 or not m:
            raise common.HarnessError("rt_probe count %s failed" % fam)
        pending += [("dfs", fam, L, b, []) for b in range(int(m.group(1)))]
    rounds = 0
    while pending:
        rounds += 1
        if rounds > 12:
            raise common.HarnessError("rt_probe: more than 12 exclusion rounds")
        nxt = []
        for args, rc, o, e in pmap_all(_probe, pending):
            _m, fam, L, branch, ex = args
            st = STAT.search(o)
            for line in o.splitlines():
                if line.startswith("FAIL "):
                    hist, detail = line[5:].split(" :: ", 1)
                    ops = hist.split(",")

                    def confirm(fam=fam, hist=hist):
                        _a, rc2, o2, _e2 = _probe(("replay", fam, hist, 0, []))
                        m2 = re.search(r"^FAIL .* :: (.*)$", o2, re.M)
                        return ("model:" + _norm(m2.group(1))[:100] if m2 else None), []
                    col.add(len(ops), "model:" + _norm(detail)[:100], [], fam.split(":")[0] + " " + opclass(ops[-1]), "%s %s" % (fam, hist),
                            {"history.txt": "%s %s\n" % (fam, hist), "detail.txt": line + "\n"}, "history %s %s: %s" % (fam, hist, detail),
                            "# rt_probe built from vf/probes/rt_probe.c + src/runtime/*.c with clang -fsanitize=address,undefined\nrt_probe replay %s %s" % (fam, hist), confirm)
            if st and rc in (0, 1):
                tot_h += int(st.group(2)); tot_o += int(st.group(3)); tot_c += int(st.group(4)); maxlen = max(maxlen, int(st.group(6)))
                continue
            if rc == "timeout":
                raise common.HarnessError("rt_probe %s branch %s timed out" % (fam, branch))
            # the branch died: find a shortest dying history with one forked child per history, then replay it alone
            ca = re.search(r"^CRASH-AT (\S*) step=", o, re.M)
            Lc = max(1, min(L, len(ca.group(1).split(",")))) if ca and ca.group(1) else L
            _a, rc2, o2, e2 = _probe(("forkdfs", fam, Lc, branch, ex), timeout=6000)
            cm = re.search(r"^CRASH (\S+) status=", o2, re.M)
            if not cm:
                raise common.HarnessError("rt_probe %s branch %s died (rc=%s) but no single history reproduces it: %s" % (fam, branch, rc, e[-1500:]))
            hist = cm.group(1)
            ops = hist.split(",")
            _a, rc3, o3, e3 = _probe(("replay", fam, hist, 0, []))
            kind_, frames = signature(rc3, e3)
            if kind_ is None:
                raise common.HarnessError("rt_probe %s history %s dies in the enumeration but not when replayed alone" % (fam, hist))

            def confirm2(fam=fam, hist=hist):
                _a, rc4, _o4, e4 = _probe(("replay", fam, hist, 0, []))
                return signature(rc4, e4)
            # a death inside finish() (after the last operation) is attributed to the last operation as well
            col.add(len(ops), kind_, frames, fam.split(":")[0] + " " + opclass(ops[-1]), "%s %s" % (fam, hist),
                    {"history.txt": "%s %s\n" % (fam, hist), "stderr.txt": e3[-30000:], "stdout.txt": o3[-3000:]}, "shortest history %s %s" % (fam, hist),
                    "# rt_probe built from vf/probes/rt_probe.c + src/runtime/*.c with clang -fsanitize=address,undefined\nrt_probe replay %s %s" % (fam, hist), confirm2)
            newex = sorted(set(ex + [opclass(ops[-1])]))
            if newex == sorted(ex):
                raise common.HarnessError("rt_probe %s: crash %s not removed by excluding %s" % (fam, hist, ex))
            for x in newex:
                if x not in excl[fam]:
                    excl[fam].append(x)
            nxt.append(("dfs", fam, L, branch, newex))
        pending = nxt
        if rep.out_of_time():
            break
    # ---- out-of-range family: must stop (assert / exit) without touching memory
    _a, rc, o, e = _probe(("oob", "x", 0, 0, []))
    oob = re.findall(r"^OOB (\d+) (\w+) (\d+)", o, re.M)
    if rc != 0 or len(oob) < 20:
        raise common.HarnessError("oob family did not run: %s" % e[-1000:])
    if re.search(r"ERROR: AddressSanitizer|runtime error:", e):
        kind_, frames = signature(1, e)
        col.add(1, kind_, frames, "out-of-range access", "oob", {"stderr.txt": e[-30000:], "stdout.txt": o}, "out-of-range family: an out-of-range index reaches memory", "rt_probe oob x",
                lambda: signature(1, _probe(("oob", "x", 0, 0, []))[3]))
    for k, how, code in oob:
        if (how, code) not in (("signal", "6"), ("exit", "1"), ("exit", "0")):
            col.add(1, "oob:%s%s" % (how, code), [], "out-of-range access %s" % k, "oob %s" % k, {"stdout.txt": o}, "out-of-range case %s ends with %s %s instead of stopping cleanly" % (k, how, code), "rt_probe oob x",
                    lambda k=k, how=how, code=code: ("oob:%s%s" % (how, code), []))
    rep.count("states", tot_h + len(oob))
    rep.count("transitions", tot_o + len(oob))
    rep.count("traces_validated_against_impl", tot_h)
    rep.coverage["rt_histories"] = tot_h
    rep.coverage["rt_operations"] = tot_o
    rep.coverage["rt_state_comparisons"] = tot_c
    rep.coverage["rt_longest_container"] = maxlen
    rep.coverage["rt_out_of_range_cases"] = len(oob)
    rep.coverage["rt_families"] = dict(fams)
    rep.coverage["rt_operations_excluded_after_a_crash"] = dict((f, v) for f, v in excl.items() if v)
    rep.sample({"family": "rt", "history": "da:str newcap9,pushcopy0,fill,rm0,clone,pop", "meaning": "dyn_array_new_with_capacity(ELEM_STRING, 9); push_string_copy; push until length == capacity; remove_at(0); clone (continue on the clone, original still checked); pop"})
    if tot_h < 20000 or maxlen < 16:
        raise common.HarnessError("vacuous runtime exploration: histories=%d longest=%d" % (tot_h, maxlen))
    return fams


def run(tier):
    rep = common.Report("C20", tier)
    rep.set_deadline(1500 if tier == "quick" else 7200)
    findings = common.load_findings("C20")
    col = Collector(rep, findings)
    tree = common.build_tree("plain")
    fams = part_b(rep, col, tier, tree)
    part_a(rep, col, tier, tree)
    col.flush()
    rep.assumptions += [
        "part (a): programs stay inside the language's defined behaviour (NanoRef-classified for the enumerator layers; every index/pop/remove/slice of the text families is guarded by a length test); leaks are not violations (detect_leaks=0)",
        "part (a): the C compiler is clang with -fsanitize=address,undefined -fno-sanitize-recover=undefined plus nanoc's own flags (incl. -fwrapv) and -Wno-parentheses-equality; programs the front end or the C compiler refuse are counted, not judged (C04/C05)",
        "part (a): T = all sequences of <= 2 statements over %d statements + all triples over a %d-statement core; sequences extending an already failing sequence are not run; B = 7 element kinds x lengths around 8/16/32(/64) x 11 operations, generated List<T> for 1-4 field structs, list_int/list_string; X = all in-range (start,length) pairs of short strings" % (
            len(P.OPS), 12 if tier == "quick" else len(P.CORE_THOROUGH)),
        "part (a): not compiled by the native backend and therefore outside the alphabet: " + "; ".join(sorted(P.DROPPED)),
        "part (b): histories of length <= L (first operation = constructor choice): %s; indices: every in-range index for length <= 4, else {0,1,len/2,len-2,len-1}; 'fill' pushes until length == capacity; dyn_array_insert_* is declared in dyn_array.h but not defined anywhere, so it is not in the alphabet" % ", ".join("%s L=%d" % f for f in fams),
        "part (b): gc model from the documented contract: gc_alloc starts at 1, gc_struct_set_field retains the new and releases the old value, dyn_array_push_array borrows (no retain), reaching 0 frees at once and releases struct fields, gc_collect_cycles must not free anything still counted (cycle reclamation is not demanded); release is only issued while the model count of the harness' own references is > 0",
        "part (b): nl_string substring lengths up to len+1 (no SIZE_MAX arithmetic); utf8 character arithmetic is not judged, only memory safety and byte containment",
        "freed memory is recognised by AddressSanitizer (quarantine 64 MB in the probe, default in programs)",
    ]
    return rep.finish()


def replay(path):
    tree = common.build_tree("plain")
    if os.path.exists(os.path.join(path, "program.nano")):
        lang = langrun.Lang(tree, os.path.join(common.scratch(), "lang"), sanitize=True)
        lang.envx["CCFAST_EXTRA"] += EXTRA_CC
        src = os.path.join(lang.work, "replay.nano")
        text = open(os.path.join(path, "program.nano")).read()
        _write(src, text)
        r = lang.native(src, timeout=600)
        if r["compile_rc"] != 0:
            print("program no longer compiles:\n" + r["compile_err"].decode(errors="replace")[-2000:])
            return 2
        print(r["err"].decode(errors="replace")[:6000])
        kind_, frames = signature(r["rc"], r["err"], _user_fns(text))
    else:
        _ST["probe"] = build_probe(tree)
        fam, hist = open(os.path.join(path, "history.txt")).read().split()
        _a, rc, o, e = _probe(("replay", fam, hist, 0, []))
        print(o[-3000:])
        print(e[:6000])
        kind_, frames = signature(rc, e)
        if kind_ is None and rc == 1:
            kind_ = "model mismatch"
    if kind_:
        print("VIOLATION property=C20 replay=%s  # %s %s" % (path, kind_, " <- ".join(frames)))
        return 1
    print("not reproduced")
    return 0
