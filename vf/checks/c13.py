"""C13  No bytecode input can make the loader, verifier or VM misbehave.

Deviation-bounded fault enumeration over well-checksummed hostile modules: for every corpus
module every named container field and every instruction operand is set to each boundary
value, every instruction's opcode byte is replaced by every defined opcode, instructions are
deleted / duplicated / swapped, sections are re-pointed; plus raw prefix families and an
arithmetic operand matrix.  Each case: real nvm_deserialize -> nvm_verify -> (accepted and
import-free) vm_execute under an instruction budget (hook H1), asan+ubsan build, forked with
bisection.  thorough adds all pairs of operand deviations inside one function.

Function extent (vf/c13lim.py): for every function of every corpus module every code_length from 0
to its real length + 8 (each byte position: every instruction is cut at every operand byte) combined
with every code_offset delta in -4..4 (thorough -16..16), on the module as compiled and on a copy
whose code section is followed by 12 more bytes of valid instructions, so that the bytes after a
function's end always exist; same oracle (an accepted module never shows the VM an undecodable
instruction on the verifier's path, no crash / sanitizer report / hang).

Resource limits of the VM at their exact boundary (vf/c13lim.py, probe vf/probes/c13_lim_probe.c, VM
sources recompiled with -fsanitize=address,undefined,bounds): programs compiled by the tree's own
nano_virt and hand-built modules that need VM_MAX_FRAMES-3 .. +2 frames through every call-like
construct separately (CALL, function values / CALL_INDIRECT, CLOSURE_CALL, CALL_MODULE, map / filter /
reduce, closures, __init__, host re-entry), that fill the operand stack to capacity-2 .. capacity+1
before each instruction that can deepen it (every doubling of the tier), that touch globals / locals
at their last and first-invalid index, and that nest values around the printer's depth limit and on a
ladder up to 100000 (thorough 10^6) levels, where the VM declares no limit and must not have one.  Each
run is judged against a plain Python model of the program: it completes with the model's output
(mandatory below the limit) or stops with the documented error of that limit after the model's
output prefix; state invariants (frame_count, top frame, ip range, stack_size) are checked at every
instruction boundary; the compiler-produced ones also go through the real nano_vm binary.
"""
import os
import re
import struct

from .. import common, corpus, nvmfmt, c13lim

V32 = [0, 1, 0x7F, 0x80, 0xFF, 0x7FFF, 0x8000, 0xFFFF, 0x10000, 0x7FFFFFFF, 0x80000000, 0xFFFFFFFF, 0xFFFFFFFE, 0xFFFFFF00]
V16 = [0, 1, 0x7F, 0x80, 0xFF, 0x100, 0x7FFF, 0x8000, 0xFFFF]
V8 = [0, 1, 0x0E, 0x0F, 0x7F, 0x80, 0xFF]
VI32 = [0, 1, -1, 2, 3, 5, 9, -3, -5, -9, 0x7FFFFFFF, -0x80000000, 0x7FFFFFF0]
VI64 = [0, 1, -1, 2, 7, -7, 2**31 - 1, 2**31, 2**32, -2**31, 2**63 - 1, -2**63, 2**63 - 2, -2**63 + 1]
F64 = [0x0000000000000000, 0x8000000000000000, 0x7FF0000000000000, 0xFFF0000000000000, 0x7FF8000000000001, 0x0000000000000001, 0x7FEFFFFFFFFFFFFF, 0x43E0000000000000, 0xC3E0000000000000]
ARITH_B = [0, 1, -1, 2, -2, 7, -7, 2**31 - 1, 2**31, 2**32, -2**31, 2**63 - 1, 2**63 - 2, -2**63, -2**63 + 1]


def field_values(cur, w, size):
    base = {1: V8, 2: V16, 4: V32}[w]
    vals = set(base)
    for d in (-1, 1):
        vals.add((cur + d) & ((1 << (8 * w)) - 1))
    if w == 4:
        for x in (size - 1, size, size + 1, size - cur, size - cur + 1, (1 << 32) - cur, (1 << 32) - cur + 1, (1 << 32) - size, size + 0x7FFFFFFF):
            vals.add(x & 0xFFFFFFFF)
    vals.discard(cur)
    return sorted(vals)


def gen_mutations(data, optable, tier):
    """Returns list of (line, description)."""
    lay = nvmfmt.Layout(data, optable)
    size = len(data)
    out = []
    # --- container fields
    for name, off, w in lay.fields:
        cur = int.from_bytes(data[off:off + w], "little")
        for v in field_values(cur, w, size):
            out.append(("P%d:%s" % (off, nvmfmt.le(v, w)), "%s=%#x (was %#x)" % (name, v, cur)))
    # --- instruction operands
    defined = sorted(optable)
    for (fi, a, op, ops, ln) in lay.instrs:
        opname = optable[op][0]
        for (oa, t) in ops:
            w = nvmfmt.OPSIZE[t]
            cur = int.from_bytes(data[oa:oa + w], "little")
            pool = {1: V8, 2: V16, 3: V32, 4: VI32, 5: VI64, 6: F64}[t]
            vals = set(x & ((1 << (8 * w)) - 1) for x in pool)
            vals.add((cur + 1) & ((1 << (8 * w)) - 1))
            vals.add((cur - 1) & ((1 << (8 * w)) - 1))
            vals.discard(cur)
            for v in sorted(vals):
                out.append(("P%d:%s" % (oa, nvmfmt.le(v, w)), "fn%d %s@%d operand@%d=%#x (was %#x)" % (fi, opname, a, oa, v, cur)))
        # --- opcode replacement (raw byte, following bytes kept)
        for nop in defined:
            if nop != op:
                out.append(("P%d:%02x" % (a, nop), "fn%d opcode@%d %s -> %s" % (fi, a, opname, optable[nop][0])))
        # --- delete / duplicate (function length and later offsets left stale on purpose: splice shifts sections)
        out.append(("P%d:%s" % (a, "00" * ln), "fn%d %s@%d overwritten with NOPs" % (fi, opname, a)))
    # swap adjacent instructions of equal total span
    for i in range(len(lay.instrs) - 1):
        (f1, a1, o1, _p1, l1), (f2, a2, o2, _p2, l2) = lay.instrs[i], lay.instrs[i + 1]
        if f1 == f2 and a1 + l1 == a2:
            out.append(("P%d:%s" % (a1, (data[a2:a2 + l2] + data[a1:a1 + l1]).hex()), "fn%d swap %s@%d with %s" % (f1, optable[o1][0], a1, optable[o2][0])))
    # --- section re-pointing: every section offset/size pair to every other section's
    for i, (t, o, s) in enumerate(lay.sections):
        for j, (t2, o2, s2) in enumerate(lay.sections):
            if i != j:
                off = 32 + 12 * i
                out.append(("P%d:%s" % (off + 4, nvmfmt.le(o2, 4) + nvmfmt.le(s2, 4)), "section[%d] (type %d) pointed at section[%d]'s bytes" % (i, t, j)))
                out.append(("P%d:%s" % (off, nvmfmt.le(t2, 4)), "section[%d] type %d -> %d (duplicate section)" % (i, t, t2)))
    # --- truncations with fixed checksum, appended garbage
    for ln in sorted(set([32, 33, 43, 44, 45, size // 2, size - 1] + [32 + 12 * k for k in range(0, 8)])):
        if 32 <= ln < size:
            out.append(("T%d" % ln, "truncated to %d bytes, checksum recomputed" % ln))
    return out, lay


def raw_family():
    """32-byte valid header + every body of <= 2 bytes (checksum fixed), section_count 0..17."""
    out = []
    hdr = bytearray(b"NVM\x01" + struct.pack("<IIIIIII", 1, 1, 0, 0, 0, 0, 0))
    out.append(("R" + bytes(hdr).hex(), "bare header, no sections"))
    for sc in range(0, 18):
        h = bytearray(hdr)
        struct.pack_into("<I", h, 16, sc)
        out.append(("R" + bytes(h).hex(), "header only, section_count=%d" % sc))
        out.append(("R" + (bytes(h) + b"\x00" * 12).hex(), "section_count=%d + 12 zero bytes" % sc))
        out.append(("R" + (bytes(h) + b"\xff" * 12).hex(), "section_count=%d + 12 0xFF bytes" % sc))
    for b0 in range(256):
        out.append(("R" + (bytes(hdr) + bytes([b0])).hex(), "header + 1 body byte %#x" % b0))
    for b0 in (0, 1, 2, 3, 8, 9, 0xFF):
        for b1 in range(256):
            out.append(("R" + (bytes(hdr) + bytes([b0, b1])).hex(), "header + body %02x%02x" % (b0, b1)))
    # one-section images: each section type with boundary offset/size
    for t in (1, 2, 3, 8, 9, 0xFFFF):
        for o in (0, 31, 32, 44, 45, 0xFFFFFFFF, 0xFFFFFFF0):
            for s in (0, 1, 4, 11, 12, 18, 0xFFFFFFFF, 0x10, 0x20):
                h = bytearray(hdr)
                struct.pack_into("<I", h, 16, 1)
                body = struct.pack("<III", t, o, s) + b"\x01\x00\x00\x00\xff\xff\xff\xff" + b"\x00" * 24
                out.append(("R" + (bytes(h) + body).hex(), "one section type=%#x offset=%#x size=%#x" % (t, o, s)))
    return out


def count_family(optable):
    """Whole images whose table sizes sit on and around every capacity / doubling boundary of the loader."""
    out = []
    inv = {v[0]: k for k, v in optable.items()}
    code = bytes([inv["PUSH_I64"]]) + (7).to_bytes(8, "little") + bytes([inv["RET"]])
    counts = [0, 1, 2, 3, 7, 8, 9, 15, 16, 17, 31, 32, 33, 63, 64, 65, 127, 128, 129, 255, 256, 257, 511, 512, 513, 1023, 1024, 1025]
    for n in counts:
        strs = [b"main"] + [b"s%d" % i for i in range(n)]
        out.append(("R" + nvmfmt.build_image(strs, code, [(0, 0, 0, len(code), 0, 0)]).hex(), "%d+1 strings" % n))
        fns = [(0, 0, 0, len(code), 0, 0)] * (n + 1)
        out.append(("R" + nvmfmt.build_image([b"main"], code, fns).hex(), "%d+1 functions" % n))
        imps = [(0, 0, 1, [1, 5][: (i % 3)]) for i in range(n)]
        out.append(("R" + nvmfmt.build_image([b"main"], code, [(0, 0, 0, len(code), 0, 0)], imports=imps).hex(), "%d imports" % n))
        dbg = [(i, i) for i in range(n)]
        out.append(("R" + nvmfmt.build_image([b"main"], code, [(0, 0, 0, len(code), 0, 0)], debug=dbg).hex(), "%d debug entries" % n))
    for n in (4095, 4096, 4097, 5000):
        strs = [b"main"] + [b"%d" % i for i in range(n)]
        out.append(("R" + nvmfmt.build_image(strs, code, [(0, 0, 0, len(code), 0, 0)]).hex(), "%d+1 strings" % n))
    for n in (0, 1, 4095, 4096, 4097, 8191, 8192, 8193, 65535, 65536, 65537):
        c = bytes(n) + code       # n NOPs then the body
        out.append(("R" + nvmfmt.build_image([b"main"], c, [(0, 0, 0, len(c), 0, 0)]).hex(), "code section of %d bytes" % len(c)))
    return out


def arith_family(data, optable, names):
    """PUSH_I64 a; PUSH_I64 b; <op>  for op in arithmetic/comparison opcodes x B x B (+ unary NEG)."""
    lay = nvmfmt.Layout(data, optable)
    inv = {v[0]: k for k, v in optable.items()}
    # find pattern PUSH_I64, PUSH_I64, ADD in main
    seq = lay.instrs
    out = []
    for i in range(len(seq) - 2):
        if seq[i][2] == inv["PUSH_I64"] and seq[i + 1][2] == inv["PUSH_I64"] and seq[i + 2][2] == inv["ADD"]:
            a1, a2, a3 = seq[i][3][0][0], seq[i + 1][3][0][0], seq[i + 2][1]
            for opn in names:
                for x in ARITH_B:
                    for y in ARITH_B:
                        out.append(("P%d:%s;P%d:%s;P%d:%02x" % (a1, nvmfmt.le(x, 8), a2, nvmfmt.le(y, 8), a3, inv[opn]),
                                    "PUSH_I64 %d; PUSH_I64 %d; %s" % (x, y, opn)))
            return out
    raise common.HarnessError("arith base pattern not found")


def _run_chunk(args):
    probe, base, mutfile, lo, hi, fuel = args
    rc, out, err = common.run([probe, "c13", base, mutfile, str(lo), str(hi), str(fuel)], timeout=7200,
                              envx={"ASAN_OPTIONS": "detect_leaks=0:allocator_may_return_null=1:max_allocation_size_mb=1024:handle_abort=1"})
    return (args, rc, out.decode(errors="replace"), err.decode(errors="replace")[-3000:])


def classify(probe, base, mutfile, idx, fuel):
    """Re-run one case alone (twice) and derive a cause signature from the sanitizer report."""
    sigs = []
    report = ""
    for _ in range(2):
        rc, out, err = common.run([probe, "c13", base, mutfile, str(idx), str(idx + 1), str(fuel)], timeout=120,
                                  envx={"ASAN_OPTIONS": "detect_leaks=0:allocator_may_return_null=1:max_allocation_size_mb=1024:handle_abort=1"})
        out = out.decode(errors="replace")
        err = err.decode(errors="replace")
        report = err
        line = [l for l in out.splitlines() if l.startswith("FAIL")]
        if not line:
            sigs.append(None)
            continue
        kind = "unknown"
        m = re.search(r"ERROR: AddressSanitizer: ([A-Za-z0-9_-]+)", err)
        if m:
            kind = m.group(1)
        else:
            m = re.search(r"runtime error: ([^\n]*)", err)
            if m:
                kind = "ubsan:" + re.sub(r"-?\d[\d.e+]*", "N", m.group(1)).strip()[:70]
            elif "timeout" in line[0]:
                kind = "timeout"
            elif "signal=" in line[0]:
                kind = "signal" + re.search(r"signal=(\d+)", line[0]).group(1)
        frame = "?"
        for fm in re.finditer(r"#\d+ 0x[0-9a-f]+ in (\S+) [^\n]*?/src/([^\s:]+):(\d+)", err):
            frame = "%s(%s)" % (fm.group(1), os.path.basename(fm.group(2)))
            break
        ph = re.search(r"phase=(-?\d+) op=(-?\d+)", line[0])
        phase, op = (int(ph.group(1)), int(ph.group(2))) if ph else (-1, -1)
        sigs.append((kind, frame, phase, op))
    return sigs, report


def run(tier):
    rep = common.Report("C13", tier, level="fault_enumeration")
    rep.set_deadline(1500 if tier == "quick" else 5 * 3600)
    tree = common.build_tree("asan")
    probe = tree.build_probe(os.path.join(common.VERIF, "vf/probes/nvm_probe.c"), "nvm_probe")
    work = os.path.join(common.scratch(), "c13")
    os.makedirs(work, exist_ok=True)
    rc, o, _e = common.run([probe, "optable"])
    optable = nvmfmt.parse_optable(o.decode())
    if len(optable) < 50:
        raise common.HarnessError("optable")
    mods = corpus.corpus_modules(tree, os.path.join(work, "mods"))
    vmdir = os.path.join(common.VERIF, "vf/corpus_vm")
    for s in sorted(os.listdir(vmdir)):
        out = os.path.join(work, "mods", s[:-5] + ".nvm")
        if s.endswith(".nano") and corpus.emit_nvm(tree, os.path.join(vmdir, s), out):
            mods.append((s, out))
    fuel = 20000
    sets = []   # (label, base, mutfile, descs)
    total = 0
    for src, f in mods:
        data = open(f, "rb").read()
        muts, _lay = gen_mutations(data, optable, tier)
        if tier == "quick":
            pass
        mf = f + ".mut"
        with open(mf, "w") as fh:
            fh.write("\n".join(m[0] for m in muts) + "\n")
        sets.append((os.path.basename(f), f, mf, [m[1] for m in muts]))
        total += len(muts)
    # function extents: every length x small offset deltas, as compiled and with code following the last function
    inv_op = {v[0]: k for k, v in optable.items()}
    pad = bytes([inv_op["PUSH_I64"]]) + (7).to_bytes(8, "little") + bytes([inv_op["RET"], inv_op["NOP"], inv_op["NOP"]])
    n_extent = n_padded = 0
    extent_sample = None
    for src, f in mods:
        data = open(f, "rb").read()
        lay0 = nvmfmt.Layout(data, optable)
        variants = [("extent", f, data)]
        if lay0.code_off is not None:
            code = data[lay0.code_off:lay0.code_off + lay0.code_size]
            if c13lim.rebuild_with_code(data, code) != data:
                raise common.HarnessError("re-serialising %s does not reproduce it" % f)
            pf = f + ".padded.nvm"
            with open(pf, "wb") as fh:
                fh.write(c13lim.rebuild_with_code(data, code + pad))
            variants.append(("extent+pad", pf, open(pf, "rb").read()))
            n_padded += 1
        for vlabel, vf_, vdata in variants:
            ex, _l = c13lim.extent_family(vdata, optable, tier)
            mf = vf_ + ".extent.mut"
            with open(mf, "w") as fh:
                fh.write("\n".join(m[0] for m in ex) + "\n")
            sets.append((os.path.basename(f) + ":" + vlabel, vf_, mf, [m[1] for m in ex]))
            total += len(ex)
            n_extent += len(ex)
            if ex and extent_sample is None:
                extent_sample = {"module": os.path.basename(f) + ":" + vlabel, "deviation": ex[len(ex) // 3][1]}
    if n_padded < len(mods) // 2 or n_extent < 20000:
        raise common.HarnessError("vacuous extent family: %d cases, %d padded modules" % (n_extent, n_padded))
    # raw + arithmetic families hang off the smallest arithmetic module
    arith_src = os.path.join(work, "arith.nano")
    with open(arith_src, "w") as fh:
        fh.write("fn main() -> int {\n    let x: int = (+ 11 22)\n    (println x)\n    return 0\n}\nshadow main { assert true }\n")
    arith_nvm = os.path.join(work, "arith.nvm")
    if not corpus.emit_nvm(tree, arith_src, arith_nvm):
        raise common.HarnessError("arith base does not compile")
    adata = open(arith_nvm, "rb").read()
    am = arith_family(adata, optable, ["ADD", "SUB", "MUL", "DIV", "MOD", "EQ", "NE", "LT", "LE", "GT", "GE", "AND", "OR",
                                       "ARR_GET", "STR_CONCAT", "STR_CHAR_AT", "ARR_SLICE", "STRUCT_GET", "TUPLE_GET", "ARR_NEW"][:13 if tier == "quick" else 99])
    rm = raw_family()
    cm = count_family(optable)
    for label, ms in (("arith", am), ("raw", rm), ("counts", cm)):
        mf = os.path.join(work, label + ".mut")
        with open(mf, "w") as fh:
            fh.write("\n".join(m[0] for m in ms) + "\n")
        sets.append((label, arith_nvm, mf, [m[1] for m in ms]))
        total += len(ms)
    if tier == "thorough":
        # pairs of operand deviations within one function (bounded product per function)
        for src, f in mods:
            data = open(f, "rb").read()
            lay = nvmfmt.Layout(data, optable)
            per_fn = {}
            for (fi, a, op, ops, ln) in lay.instrs:
                for (oa, t) in ops:
                    w = nvmfmt.OPSIZE[t]
                    for v in ({1: [0, 0xFF], 2: [0, 0xFFFF], 3: [0, 0xFFFFFFFF], 4: [-1 & 0xFFFFFFFF, 5], 5: [0, 2**63], 6: [0x7FF8000000000001]}[t]):
                        per_fn.setdefault(fi, []).append(("P%d:%s" % (oa, nvmfmt.le(v, w)), "%s@%d op@%d=%#x" % (optable[op][0], a, oa, v)))
            pairs = []
            for fi, lst in per_fn.items():
                lst = lst[:60]
                for i in range(len(lst)):
                    for j in range(i + 1, len(lst)):
                        if lst[i][0].split(":")[0] != lst[j][0].split(":")[0]:
                            pairs.append((lst[i][0] + ";" + lst[j][0], "fn%d pair: %s + %s" % (fi, lst[i][1], lst[j][1])))
            mf = f + ".pairs.mut"
            with open(mf, "w") as fh:
                fh.write("\n".join(m[0] for m in pairs) + "\n")
            sets.append((os.path.basename(f) + ":pairs", f, mf, [m[1] for m in pairs]))
            total += len(pairs)

    jobs = []
    for label, base, mf, descs in sets:
        n = len(descs)
        step = max(256, (n + 31) // 32)
        step = (step + 255) // 256 * 256
        for lo in range(0, n, step):
            jobs.append((probe, base, mf, lo, min(n, lo + step), fuel))
    agg = {}
    ext_agg = {}
    fails = []
    setmap = {mf: (label, base, descs) for label, base, mf, descs in sets}
    done_cases = 0
    for (args, rc, out, err) in common.pimap(_run_chunk, jobs):
        _p, base, mf, lo, hi, _f = args
        stat = [l for l in out.splitlines() if l.startswith("STAT")]
        if rc != 0 or not stat:
            raise common.HarnessError("c13 probe failed rc=%s %s [%d,%d): %s" % (rc, mf, lo, hi, err))
        kv = dict(x.split("=") for x in stat[0].split()[1:])
        for k in ("evaluations", "loaded", "verified", "ran", "ran_ok", "ran_err", "fuel_exhausted", "crashes"):
            agg[k] = agg.get(k, 0) + int(kv[k])
            if ":extent" in setmap[mf][0]:
                ext_agg[k] = ext_agg.get(k, 0) + int(kv[k])
        done_cases += hi - lo
        for l in out.splitlines():
            if l.startswith("FAIL"):
                fails.append((mf, l))
        if rep.out_of_time():
            break

    findings = common.load_findings("C13")
    by_sig = {}
    classified = 0
    for mf, l in fails:
        label, base, descs = setmap[mf]
        idx = int(re.search(r"idx=(\d+)", l).group(1))
        if "crash" in l:
            if classified >= 400 and len(by_sig) > 0:
                # cap on re-runs: unclassified crashes are reported under their probe line
                sig = ("unclassified", l.split("idx=")[0], -1, -1)
                by_sig.setdefault(sig, []).append((label, base, mf, idx, descs[idx], l, ""))
                continue
            sigs, report = classify(probe, base, mf, idx, fuel)
            classified += 1
            if sigs[0] is None and sigs[1] is None:
                # did not reproduce alone: state leaked between cases inside one child; not a verdict
                rep.count("nonreproducible_in_isolation")
                continue
            if sigs[0] != sigs[1]:
                raise common.HarnessError("non-deterministic replay of %s idx %d: %s" % (mf, idx, sigs))
            by_sig.setdefault(sigs[0], []).append((label, base, mf, idx, descs[idx], l, report))
        else:
            by_sig.setdefault(("oracle", l.split()[1], 3, -1), []).append((label, base, mf, idx, descs[idx], l, ""))
    for sig, items in sorted(by_sig.items(), key=lambda kv: str(kv[0])):
        kind, frame, phase, op = sig
        opname = optable[op][0] if op in optable else str(op)
        text = "%s in %s during %s%s" % (kind, frame, {1: "load", 2: "verify", 3: "execute", 4: "vm_destroy"}.get(phase, "?"), (" at " + opname) if phase == 3 else "")
        matched = None
        for fnd in findings:
            s = fnd.get("sig", {})
            if s.get("kind") == kind and s.get("frame") == frame and s.get("phase") == phase and (s.get("op") in (None, opname)):
                matched = fnd
                break
        if matched:
            rep.known[matched["id"]] = rep.known.get(matched["id"], 0) + len(items)
            rep.known_text[matched["id"]] = matched["what"]
            continue
        label, base, mf, idx, desc, l, report = items[0]
        line = open(mf).read().split("\n")[idx]
        rep.violation("c13:" + str(sig), {"base.nvm": open(base, "rb").read(), "mutation.txt": line + "\n",
                                          "cases.txt": "\n".join("%s idx=%d %s" % (i[0], i[3], i[4]) for i in items[:200]) + "\n",
                                          "sanitizer_report.txt": report[-6000:]},
                      "%s  (%d cases; first: %s: %s)" % (text, len(items), label, desc),
                      "# apply mutation.txt to base.nvm with the probe: nvm_probe c13 base.nvm mutation.txt 0 1 %d" % fuel)
    # ---- resource limits at their exact boundary (separate probe, Python model as oracle)
    lim_cov, lim_samples = c13lim.run_limits(rep, tree, tier, work, optable)
    rep.coverage.update(lim_cov)
    rep.coverage.update({"extent_cases": n_extent, "extent_modules_with_trailing_code": n_padded,
                         "extent_loaded": ext_agg.get("loaded", 0), "extent_verifier_accepted": ext_agg.get("verified", 0),
                         "extent_executed_ok": ext_agg.get("ran_ok", 0), "extent_executed_vm_error": ext_agg.get("ran_err", 0)})
    if done_cases >= total and not by_sig:
        if not (0 < ext_agg.get("verified", 0) < ext_agg.get("loaded", 0)) or not ext_agg.get("ran_ok") or not ext_agg.get("ran_err"):
            raise common.HarnessError("vacuous extent family: outcomes %s" % ext_agg)
    rep.coverage.update({
        "evaluations": agg.get("evaluations", 0) + lim_cov["limit_cases"], "distinct_nontrivial": agg.get("loaded", 0),
        "rule": "each evaluation is one distinct (module, deviation) element, checksum recomputed; non-trivial = the real loader accepted the mutated image (it got past the checksum and header checks, so verifier and/or VM were exercised)",
        "loaded": agg.get("loaded", 0), "verifier_accepted": agg.get("verified", 0), "executed": agg.get("ran", 0),
        "executed_ok": agg.get("ran_ok", 0), "executed_vm_error": agg.get("ran_err", 0), "fuel_exhausted": agg.get("fuel_exhausted", 0),
        "crash_cases": agg.get("crashes", 0), "distinct_crash_signatures": len(by_sig), "modules": len(mods),
        "cases_generated": total, "cases_done": done_cases, "fuel": fuel,
    })
    rep.sample({"module": sets[0][0], "deviation": sets[0][3][0]})
    rep.sample({"module": sets[0][0], "deviation": sets[0][3][len(sets[0][3]) // 2]})
    rep.sample({"family": "arith", "case": am[7][1]})
    rep.sample({"family": "raw", "case": rm[40][1]})
    rep.sample({"family": "counts", "case": cm[50][1]})
    rep.coverage["samples"] = rep.coverage["samples"][:4]
    rep.sample(extent_sample)
    for sm in lim_samples[:3]:
        rep.sample(sm)
    rep.assumptions += ["1 deviation per case (thorough: + pairs of operand deviations within a function)", "boundary value pools, not all values",
                        "modules with imports are loaded and verified but not executed (property: 'declares no external imports')",
                        "malloc failure is emulated by asan allocator_may_return_null for requests > 1 GiB",
                        "function extent: every code_length 0..len+8 x code_offset delta -%d..%d per function, two images per module" % ((4, 4) if tier == "quick" else (16, 16)),
                        "resource limits: VM_MAX_FRAMES, VM_STACK_INITIAL doublings (%s), VM_MAX_GLOBALS, u16 local_count, VAL_PRINT_MAX_DEPTH; "
                        "values taken from the tree's own headers; depths limit-3..limit+2 plus controls; Python model of each program is trusted; "
                        "memory exhaustion (string / array sizes near 2^32, failing realloc) is NOT reached" % ("2" if tier == "quick" else "5"),
                        "limit oracle state invariants are observed at instruction boundaries only (hook H1)"]
    if done_cases < total:
        rep.exhaustive = False
    if agg.get("ran", 0) < 1000:
        raise common.HarnessError("vacuous C13: only %d executions" % agg.get("ran", 0))
    return rep.finish()
