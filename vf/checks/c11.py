"""C11  Instruction encoding and the textual assembly form are exact inverses.

Exhaustive at both tiers: all 256 opcode bytes x the full product of boundary operand
patterns per operand slot x every truncation length, judged against an independent
little-endian reference encoder inside the probe; undefined opcode bytes (the set is taken
from the enum in isa.h, not from the table under test) in 13 trailing contexts; and
assemble(disassemble(m)) = m on code / functions / strings for every corpus module.
"""
import os
import re

from .. import common, corpus


def defined_opcodes(tree):
    txt = open(os.path.join(tree.root, "src/nanoisa/isa.h")).read()
    ops = {}
    for m in re.finditer(r"^\s*(OP_[A-Z0-9_]+)\s*=\s*0x([0-9A-Fa-f]{2})\s*,?", txt, re.M):
        if m.group(1) != "OP_COUNT":   # sentinel, not an instruction
            ops[m.group(1)] = int(m.group(2), 16)
    if len(ops) < 50:
        raise common.HarnessError("could not parse opcode enum from isa.h")
    return ops


def run(tier):
    rep = common.Report("C11", tier)
    tree = common.build_tree("asan")
    probe = tree.build_probe(os.path.join(common.VERIF, "vf/probes/nvm_probe.c"), "nvm_probe")
    ops = defined_opcodes(tree)
    envx = {"ASAN_OPTIONS": "detect_leaks=0:abort_on_error=0", "UBSAN_OPTIONS": "print_stacktrace=1"}

    # --- codec product
    rc, out, err = common.run([probe, "c11"] + [str(v) for v in sorted(set(ops.values()))], timeout=600, envx=envx)
    out = out.decode(errors="replace")
    stat = [l for l in out.splitlines() if l.startswith("STAT")]
    fails = [l for l in out.splitlines() if l.startswith("FAIL")]
    if rc != 0 or not stat:
        # crash of the codec itself (sanitizer report) is a violation: refused-not-misdecoded includes no overread
        d = rep.violation("codec-crash", {"stdout.txt": out, "stderr.txt": err.decode(errors="replace")},
                          "codec enumeration aborted rc=%s (sanitizer report / crash in isa_encode/isa_decode)" % rc,
                          "cd /verif && ./check C11 --tier quick")
    else:
        kv = dict(x.split("=") for x in stat[0].split()[1:])
        rep.count("states", int(kv["instrs"]) + int(kv["undef_cases"]))
        rep.count("transitions", int(kv["evaluations"]))
        rep.count("traces_validated_against_impl", int(kv["instrs"]))
        rep.coverage["codec_instruction_patterns"] = int(kv["instrs"])
        rep.coverage["codec_truncations"] = int(kv["truncations"])
        rep.coverage["undefined_opcode_cases"] = int(kv["undef_cases"])
        rep.coverage["defined_opcodes_in_header"] = len(set(ops.values()))
        if int(kv["instrs"]) < 1000:
            raise common.HarnessError("vacuous codec enumeration")
    groups = {}
    for f in fails:
        key = " ".join(f.split()[:3])
        groups.setdefault(key, []).append(f)
    for key, lines in groups.items():
        rep.violation("codec:" + key, {"fails.txt": "\n".join(lines) + "\n"},
                      "%s (%d cases) e.g. %s" % (key, len(lines), lines[0]),
                      "cd /verif && ./check C11 --tier quick")
    rep.sample({"codec": "opcode 0x01 PUSH_I64 x 20 i64 bit patterns x every truncation 0..8"})

    # --- assemble(disassemble(m)) on corpus modules
    mods = corpus.corpus_modules(tree, os.path.join(common.scratch(), "c11mods"))
    rmods, skipped = corpus.repo_modules(tree, os.path.join(common.scratch(), "c11rmods"))
    rep.coverage["repo_programs_compiled"] = len(rmods)
    rep.coverage["repo_programs_not_compiling"] = skipped
    mods = mods + rmods
    rc, out, err = common.run([probe, "asmrt"] + [m for _s, m in mods], timeout=600, envx=envx)
    out = out.decode(errors="replace")
    if rc != 0:
        rep.violation("asmrt-crash", {"stdout.txt": out, "stderr.txt": err.decode(errors="replace")},
                      "assembler/disassembler round trip aborted rc=%s" % rc)
    findings = {f["id"]: f for f in common.load_findings("C11")}
    for l in out.splitlines():
        if l.startswith("KNOWN asm-layout-order"):
            if "asm-layout-order" in findings:
                rep.known_finding("asm-layout-order", findings["asm-layout-order"]["what"])
            else:
                rep.violation("asmrt-layout-init", {"fail.txt": l + "\n"}, l)
        if l.startswith("FAIL"):
            name = l.split()[2]
            files = {"fail.txt": l + "\n"}
            if os.path.exists(name):
                files["module.nvm"] = open(name, "rb").read()
            rep.violation("asmrt:" + os.path.basename(name) + l.split()[1], files, l)
    rep.count("states", len(mods))
    rep.count("transitions", len(mods))
    rep.count("traces_validated_against_impl", len(mods))
    rep.coverage["asm_roundtrip_modules"] = len(mods)
    rep.sample({"asm_roundtrip": [os.path.basename(s) for s, _m in mods][:6]})
    rep.assumptions += ["operand values outside the boundary pattern pools are not covered",
                        "assembler round trip is claimed for compiler-produced modules of the corpus only",
                        "the set of defined opcodes is the enum in src/nanoisa/isa.h"]
    return rep.finish()
