"""C08  Out-of-range operations stop the program and never yield a value.

Exhaustive matrix: array lengths x boundary indices x access kinds {at, array_set,
array_remove_at, array_pop on empty} x element kinds {int, string, nested array, struct, float, bool, u8} x
surrounding shapes {straight-line, in a callee, in a loop} x engines {native, NanoVM,
compile-time evaluator (shadow block)}.  Each program takes the index from the environment,
so one compiled artefact is run with every index.  Oracle: exit status != 0 and the sentinel
printed after the access is absent; a native SIGSEGV/SIGBUS or (asan build of the same
program, thorough) any sanitizer report means memory outside the object was touched.
In-range control indices must succeed.  Non-existent tuple/struct/union fields can only be
requested at the bytecode level: all (count, index) pairs via the tree's assembler.
"""
import os

from .. import common

I64_MIN, I64_MAX = -2**63, 2**63 - 1

ELEMS = {
    "int": dict(ty="int", lit=lambda i: str(10 + i), show=lambda v: "(println %s)" % v, new="77"),
    "string": dict(ty="string", lit=lambda i: '"s%d"' % i, show=lambda v: "(println %s)" % v, new='"nw"'),
    "float": dict(ty="float", lit=lambda i: "%d.5" % (10 + i), show=lambda v: "(println (< %s 1000.0))" % v, new="7.5"),
    "bool": dict(ty="bool", lit=lambda i: "true" if i % 2 == 0 else "false", show=lambda v: "(println %s)" % v, new="true"),
    "u8": dict(ty="u8", lit=lambda i: str(10 + i), show=lambda v: "(println (cast_int %s))" % v, new="7"),
    "nested": dict(ty="array<int>", lit=lambda i: "[%d, %d]" % (i, i + 1), show=lambda v: "(println (array_length %s))" % v, new="[9]"),
    "struct": dict(ty="TS", lit=lambda i: "TS { p: %d, q: %d }" % (i, i * 2), show=lambda v: "(println %s.p)" % v, new="TS { p: 5, q: 6 }"),
}


def indices(n):
    out = [-1, n, n + 1, 2 * n + 1, I64_MIN, I64_MAX, 2**32 - 1, 2**32, -2**32, 2**31, -2**31, 2**32 + 0]
    if n > 0:
        out += [2**32 + (n - 1), -2**32 + (n - 1), 2**61, 2**61 + (n - 1), 2**63 - 2**61]
    bad = sorted(set(i for i in out if not (0 <= i < n)))
    good = sorted(set([0, n - 1])) if n > 0 else []
    return bad, good


def access(kind, elem, arr="a", idx="k"):
    e = ELEMS[elem]
    if kind == "at":
        return "let v: %s = (at %s %s)\n    %s" % (e["ty"], arr, idx, e["show"]("v"))
    if kind == "set":
        return "(array_set %s %s %s)\n    (println (array_length %s))" % (arr, idx, e["new"], arr)
    if kind == "remove":
        return "(array_remove_at %s %s)\n    (println (array_length %s))" % (arr, idx, arr)
    if kind == "pop":
        return "let v: %s = (array_pop %s)\n    %s" % (e["ty"], arr, e["show"]("v"))
    raise ValueError(kind)


def program(kind, elem, shape, n, for_eval=False):
    e = ELEMS[elem]
    lit = "[" + ", ".join(e["lit"](i) for i in range(n)) + "]"
    head = "struct TS { p: int, q: int }\n" if elem == "struct" else ""
    acc = access(kind, elem)
    if elem in ("nested", "struct"):
        # arrays of arrays / structs are built with array_push (literals of these element kinds are not
        # accepted by the C backend: that is C04's concern, not this property's)
        body_decl = "    let mut a: array<%s> = []\n" % e["ty"] + "".join("    set a (array_push a %s)\n" % e["lit"](i) for i in range(n))
    else:
        body_decl = "    let mut a: array<%s> = %s\n" % (e["ty"], lit)
    if shape == "drained":
        # n elements pushed one by one and then all taken out again (pop, or remove_at 0 for odd n):
        # the array is empty but has a history - storage allocated, element size known, length went up and down
        body_decl = "    let mut a: array<%s> = []\n" % e["ty"] + "".join("    set a (array_push a %s)\n" % e["lit"](i) for i in range(n))
        for i in range(n):
            if n % 2 == 1 and i == 0:
                body_decl += "    (array_remove_at a 0)\n"
            else:
                body_decl += "    let d%d: %s = (array_pop a)\n    %s\n" % (i, e["ty"], e["show"]("d%d" % i))
        body_decl += "    (println (array_length a))\n"
    if shape in ("straight", "drained"):
        core = "%s    (println \"before\")\n    %s\n    (println \"after\")\n" % (body_decl, acc)
        fn = "fn probe(k: int) -> int {\n%s    return 1\n}\nshadow probe {\n%s}\n"
    elif shape == "callee":
        head += "fn inner(a: array<%s>, k: int) -> int {\n    %s\n    (println \"after-inner\")\n    return 2\n}\nshadow inner { assert true }\n" % (e["ty"], acc)
        core = "%s    (println \"before\")\n    let r: int = (inner a k)\n    (println r)\n    (println \"after\")\n" % body_decl
        fn = "fn probe(k: int) -> int {\n%s    return 1\n}\nshadow probe {\n%s}\n"
    else:  # loop
        core = ("%s    (println \"before\")\n    let mut i: int = 0\n    while (< i 3) {\n        if (== i 1) {\n    %s\n        } else {\n            (println i)\n        }\n        set i (+ i 1)\n    }\n    (println \"after\")\n"
                % (body_decl, acc.replace("\n    ", "\n            ")))
        fn = "fn probe(k: int) -> int {\n%s    return 1\n}\nshadow probe {\n%s}\n"
    if for_eval:
        shadow = '    let kk: int = (string_to_int (getenv "VK"))\n    let r: int = (probe kk)\n    (println "shadow-after")\n    assert (== r 1)\n'
        main = "fn main() -> int {\n    return 0\n}\nshadow main { assert true }\n"
    else:
        shadow = "    assert true\n"
        main = 'fn main() -> int {\n    let kk: int = (string_to_int (getenv "VK"))\n    let r: int = (probe kk)\n    (println r)\n    return 0\n}\nshadow main { assert true }\n'
    return head + fn % (core, shadow) + main


def _task(args):
    tree_root, work, key, kind, elem, shape, n, envx_native = args
    name = "c08_%s_%s_%s_%d" % (kind, elem, shape, n)
    bad, good = indices(0 if shape == "drained" else n)
    if kind == "pop":
        bad, good = ([0] if (n == 0 or shape == "drained") else []), ([0] if (n > 0 and shape != "drained") else [])
    if shape == "drained":
        bad = bad[:6]
    res = {"key": key, "name": name, "runs": []}
    src = os.path.join(work, name + ".nano")
    open(src, "w").write(program(kind, elem, shape, n))
    srce = os.path.join(work, name + "_ev.nano")
    open(srce, "w").write(program(kind, elem, shape, n, for_eval=True))
    exe = os.path.join(work, name + ".bin")
    virt = os.path.join(tree_root, "bin/nano_virt")
    nanoc = os.path.join(tree_root, "bin/nanoc_c")
    rc, o, e = common.run([nanoc, src, "-o", exe], timeout=300, cwd=work, envx=envx_native)
    res["native_compile"] = (rc, (e[-800:] + o[-300:]).decode(errors="replace"))
    for idx, expect_fault in [(i, True) for i in bad] + [(i, False) for i in good]:
        ev = {"VK": str(idx)}
        v = common.run([virt, src, "--run"], timeout=30, cwd=work, envx=ev)
        res["runs"].append(("vm", idx, expect_fault, v[0], v[1].decode(errors="replace"), v[2].decode(errors="replace")[-300:]))
        if rc == 0 and os.path.exists(exe):
            nn = common.run([exe], timeout=30, cwd=work, envx=ev)
            res["runs"].append(("native", idx, expect_fault, nn[0], nn[1].decode(errors="replace"), nn[2].decode(errors="replace")[-300:]))
        evx = dict(envx_native)
        evx["VK"] = str(idx)
        exe2 = os.path.join(work, name + "_ev.bin")
        if os.path.exists(exe2):
            os.unlink(exe2)
        if not expect_fault:
            evx["CCFAST_CC"] = evx.get("CCFAST_CC", "cc")
        ee = common.run([nanoc, srce, "-o", exe2, "--verbose"], timeout=300, cwd=work, envx=evx)
        res["runs"].append(("eval", idx, expect_fault, ee[0], ee[1].decode(errors="replace"), ("binary=%s " % os.path.exists(exe2)) + ee[2].decode(errors="replace")[:3000]))
    if os.path.exists(exe):
        os.unlink(exe)
    return res


def bytecode_cases():
    """(name, asm text, expect_fault) for TUPLE_GET / STRUCT_GET / STRUCT_SET / UNION_FIELD with every (count, index)."""
    out = []
    for count in range(0, 5):
        for index in list(range(0, 6)) + [0xFFFF]:
            pushes = "".join("  PUSH_I64 %d\n" % (100 + i) for i in range(count))
            bodies = {
                "tuple_get": pushes + "  TUPLE_NEW %d\n  TUPLE_GET %d\n  PRINTLN\n" % (count, index),
                "struct_get": pushes + "  STRUCT_LITERAL 0 %d\n  STRUCT_GET %d\n  PRINTLN\n" % (count, index),
                "struct_set": pushes + "  STRUCT_LITERAL 0 %d\n  PUSH_I64 9\n  STRUCT_SET %d\n  POP\n" % (count, index),
                "union_field": pushes + "  UNION_CONSTRUCT 0 1 %d\n  UNION_FIELD %d\n  PRINTLN\n" % (count, index),
            }
            for k, b in bodies.items():
                txt = '.string "main"\n.string "after"\n\n.entry 0\n\n.function main 0 0 0\n' + b + "  PUSH_STR 1\n  PRINTLN\n  PUSH_I64 0\n  RET\n.end\n"
                out.append(("%s_c%d_i%d" % (k, count, index), txt, index >= count))
    return out


def run(tier):
    rep = common.Report("C08", tier)
    tree = common.build_tree("plain")
    work = os.path.join(common.scratch(), "c08")
    os.makedirs(work, exist_ok=True)
    from .. import langrun
    lang = langrun.Lang(tree, os.path.join(common.scratch(), "c08lang"))
    lang.warm()
    lengths = [0, 1, 3, 8] if tier == "quick" else [0, 1, 2, 3, 4, 7, 8, 9, 16, 17]
    jobs = []
    for kind in ("at", "set", "remove", "pop"):
        for elem in ("int", "string", "nested", "struct", "float", "bool", "u8"):      # every element kind has its own runtime accessors
            for shape in ("straight", "callee", "loop"):
                for n in lengths:
                    if kind == "pop" and n not in (0, 3):
                        continue
                    jobs.append((tree.root, work, len(jobs), kind, elem, shape, n, lang.envx))
            for n in ((1, 2) if tier == "quick" else (1, 2, 3, 8, 9)):
                jobs.append((tree.root, work, len(jobs), kind, elem, "drained", n, lang.envx))
    findings = dict((f["id"], f) for f in common.load_findings("C08"))
    faults = controls = 0
    classes = set()
    for r in common.pimap(_task, jobs):
        _root, _w, _k, kind, elem, shape, n, _e = jobs[r["key"]]
        if r["native_compile"][0] != 0:
            rep.violation("c08:compile:" + r["name"], {"program.nano": program(kind, elem, shape, n), "diag.txt": r["native_compile"][1]},
                          "%s: the program does not compile natively (rc %s): %s" % (r["name"], r["native_compile"][0], r["native_compile"][1].strip()[-150:].replace("\n", " | ")))
        for (eng, idx, expect_fault, rc, out, err) in r["runs"]:
            rep.count("transitions")
            after = ("after" in out.replace("shadow-after", "after")) if eng != "eval" else ("after" in out)
            if eng == "eval":
                binary = err.startswith("binary=True")
            if expect_fault:
                faults += 1
                ok = (rc not in (0, "timeout")) and not after
                if eng == "native" and isinstance(rc, int) and rc < 0 and -rc in (11, 7):
                    ok = False      # SIGSEGV / SIGBUS: memory outside the object was touched
                if eng == "eval" and binary:
                    ok = False
                classes.add((eng, kind, "fault", rc if isinstance(rc, int) and rc < 0 else ("nz" if rc else 0)))
                if not ok:
                    fid = None
                    import re
                    if (eng == "eval" and rc == 0 and "eval-unsupported-array-op-continues" in findings and
                            re.search(r"Error: (at|array_set|array_remove_at|array_pop|array_push|array_length)\(\) requires", err)):
                        fid = "eval-unsupported-array-op-continues"
                    if fid:
                        rep.known_finding(fid, findings[fid]["what"])
                        continue
                    rep.violation("c08:%s:%s:%s" % (eng, r["name"], idx), {"program.nano": program(kind, elem, shape, n, for_eval=(eng == "eval")),
                                                                          "observed.txt": "VK=%s\nexit=%s\nstdout:\n%s\nstderr:\n%s" % (idx, rc, out, err)},
                                  "%s on %s: %s(%s, length %d) with index %d: exit=%s, 'after' %s" % (eng, shape, kind, elem, n, idx, rc, "PRINTED" if after else "absent"),
                                  "VK=%d bin/nano_virt program.nano --run   # or nanoc_c program.nano -o p && VK=%d ./p" % (idx, idx))
            else:
                controls += 1
                ok = (rc == 0) and after and (eng != "eval" or binary)
                classes.add((eng, kind, "control", rc))
                if not ok:
                    rep.violation("c08:control:%s:%s:%s" % (eng, r["name"], idx), {"program.nano": program(kind, elem, shape, n, for_eval=(eng == "eval")),
                                                                                  "observed.txt": "VK=%s\nexit=%s\nstdout:\n%s\nstderr:\n%s" % (idx, rc, out, err)},
                                  "%s: in-range control %s(%s, length %d) index %d does not run normally: exit=%s" % (eng, kind, elem, n, idx, rc))
    # ---- bytecode-level field requests
    probe = tree.build_probe(os.path.join(common.VERIF, "vf/probes/nvm_probe.c"), "nvm_probe")
    bc = bytecode_cases()
    for name, txt, expect_fault in bc:
        tp = os.path.join(work, name + ".s")
        op = os.path.join(work, name + ".nvm")
        open(tp, "w").write(txt)
        rc, o, e = common.run([probe, "asm", tp, op])
        if rc != 0:
            raise common.HarnessError("assembler refused %s: %s" % (name, o))
        rc, o, e = common.run([tree.exe("nano_vm"), op], timeout=20)
        rep.count("transitions")
        after = b"after" in o
        if expect_fault:
            faults += 1
            if rc in (0, "timeout") or after or (isinstance(rc, int) and rc < 0):
                rep.violation("c08:bc:" + name, {"module.s": txt, "observed.txt": "exit=%s\n%s\n%s" % (rc, o.decode(errors="replace"), e.decode(errors="replace"))},
                              "bytecode %s: non-existent field requested, exit=%s, 'after' %s" % (name, rc, "PRINTED" if after else "absent"))
        else:
            controls += 1
            if rc != 0 or not after:
                rep.violation("c08:bc:control:" + name, {"module.s": txt, "observed.txt": "exit=%s\n%s\n%s" % (rc, o.decode(errors="replace"), e.decode(errors="replace"))},
                              "bytecode control %s fails: exit=%s" % (name, rc))
    rep.count("states", faults + controls)
    rep.count("traces_validated_against_impl", faults + controls)
    rep.coverage.update({"fault_cases": faults, "control_cases": controls, "programs": len(jobs), "bytecode_cases": len(bc),
                         "lengths": lengths, "distinct_outcome_classes": len(classes)})
    rep.sample({"program": program("at", "int", "straight", 3)})
    rep.sample({"indices_for_length_3": [str(i) for i in indices(3)[0]]})
    rep.sample({"bytecode": bc[10][1]})
    rep.assumptions += ["native abort (SIGABRT from the runtime's bounds assertion) is the documented panic; SIGSEGV/SIGBUS are violations",
                        "the line printed before the access is not required (a native abort may lose buffered output)"]
    if faults < 500 or controls < 100:
        raise common.HarnessError("vacuous C08")
    return rep.finish()
