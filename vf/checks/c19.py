"""C19  Compilation is a function of the source: outputs are reproducible.

Enumerated: the FULL product of a configuration lattice

    cwd      in {tree root, an empty directory, the source's own directory}
    TMPDIR   in {short path, long path}
    env      in {scrubbed, +200 noise variables, unrelated NANO_*-looking variables}
    ASLR     in {on, off (setarch -R)}
    MALLOC_PERTURB_ in {unset, 0x55, 0xAA}
    tool invocation path in {absolute, relative to cwd, through a symlink}
    source path spelling in {absolute, relative to cwd}
    run index in {1, 2}                                         = 3*2*3*2*3*3*2*2 = 1296 configurations

times a program corpus (hand programs, multi-module programs, enumerator batches of every layer, a program
with hundreds of functions / strings / one function far beyond the code-buffer growth steps, builtin families,
floats, unions / structs / tuples / function values, programs that only produce diagnostics).  quick = a
sub-lattice in which every dimension still takes >= 2 values.

Every (program, configuration) cell is executed by the real `nano_virt --emit-nvm` and `nanoc_c -S` (NANO_CC=true,
so nanoc stops after writing <input>.genC) of a fresh plain build, in a private directory holding its own copy
of the sources and its own output paths.  Oracle: per program and per artefact kind (bytecode file, generated C,
diagnostics of either tool, nanoc's --llm-diags-json document, exit statuses) the set of observations over all
configurations is a singleton.
"""
import glob
import itertools
import json
import os
import re
import shutil
import struct

from .. import common, corpus, langrun
from . import langcommon as lc

HERE_CORPUS = os.path.join(common.VERIF, "vf/corpus_c19")

# ------------------------------------------------------------------------------------------ lattice
DIMS = [
    ("cwd", ["tree", "empty", "srcdir"]),
    ("tmpdir", ["short", "long"]),
    ("env", ["scrubbed", "noise200", "nano_like"]),
    ("aslr", ["on", "off"]),
    ("perturb", [None, 0x55, 0xAA]),
    ("invoke", ["abs", "rel", "symlink"]),
    ("srcpath", ["abs", "rel"]),
    ("run", [1, 2]),
]
# quick: every dimension varies (>= 2 levels); the three-level dimensions whose third level is an
# independent mechanism (cwd, invocation) keep all three
QUICK_LEVELS = {
    "cwd": ["tree", "empty", "srcdir"],
    "tmpdir": ["short", "long"],
    "env": ["scrubbed", "noise200", "nano_like"],
    "aslr": ["on", "off"],
    "perturb": [None, 0x55],
    "invoke": ["abs", "rel", "symlink"],
    "srcpath": ["abs", "rel"],
    "run": [1, 2],
}
# sub-lattice used for the supplementary corpus (the tree's own example programs) in the thorough tier
SUB_LEVELS = {
    "cwd": ["empty", "srcdir"],
    "tmpdir": ["short", "long"],
    "env": ["scrubbed", "noise200"],
    "aslr": ["on", "off"],
    "perturb": [None, 0x55, 0xAA],
    "invoke": ["abs", "symlink"],
    "srcpath": ["abs", "rel"],
    "run": [1],
}

# variables that look like the tool's own but are not read by it (verified against the tree's sources at run time)
NANO_LIKE = {"NANO_CACHE_DIR": "/nonexistent/cache", "NANO_OPT_LEVEL": "3", "NANO_SEED": "12345",
             "NANOLANG_HOME": "/nonexistent/home", "NANO_COLOR": "always", "NANO_TARGET": "riscv64",
             "NANO_JOBS": "7", "NANOC_FLAGS": "-O3 -funroll", "NANO_DEBUG_LEVEL": "9", "NANO_BUILD_ID": "deadbeef"}
NOISE = dict(("C19_NOISE_%03d" % i, ("v%d-" % i) + "x" * (i % 37)) for i in range(200))
LONG_TMP = "t_" + "long-tmp-dir-component-" * 7            # 163 characters

KINDS = ["nvm", "genc", "virt_diag", "nanoc_diag", "nanoc_json", "again"]

_STATE = {}


def lattice(levels=None):
    names = [n for n, _ in DIMS]
    vals = [(levels[n] if levels else v) for n, v in DIMS]
    return [dict(zip(names, combo)) for combo in itertools.product(*vals)]


# ------------------------------------------------------------------------------------------ corpus
def prog(name, files, entry="main.nano", origin=""):
    return {"name": name, "files": files, "entry": entry, "origin": origin}


def _single(path, name=None, origin="hand"):
    with open(path) as f:
        return prog(name or os.path.basename(path)[:-5], {"main.nano": f.read()}, origin=origin)


def gen_big(nfun, nstr, nstmt):
    """> 32 functions, hundreds of distinct string constants, and one function whose bytecode crosses the
    4 KiB / 8 KiB / 16 KiB growth steps of the per-function code buffer."""
    out = []
    for i in range(nfun):
        out.append('fn g%d(x: int) -> int {\n    (println "fn-%d-says-%s")\n    return (+ x %d)\n}\nshadow g%d { assert true }\n'
                   % (i, i, "z" * (i % 7), i, i))
    out.append("fn long_one(seed: int) -> int {\n    let mut acc: int = seed\n")
    for i in range(nstmt):
        out.append("    set acc (%% (+ (* acc %d) %d) 1000003)\n" % (i + 3, 7 * i + 1))
        if i % 11 == 10:
            out.append("    if (> acc %d) { set acc (- acc %d) } else { set acc (+ acc %d) }\n" % (1000 * i, i, i))
    out.append("    return acc\n}\nshadow long_one { assert true }\n")
    out.append("fn main() -> int {\n    let mut t: int = 0\n")
    for i in range(nfun):
        out.append("    set t (g%d t)\n" % i)
    for i in range(nstr):
        out.append('    (println "const-%03d-%s")\n' % (i, "ab" * (i % 5)))
    out.append("    (println (long_one t))\n    return (% t 256)\n}\nshadow main { assert true }\n")
    return "".join(out)


def gen_globals(nfun, nglob):
    """nfun ordinary functions followed by top-level `let` globals: the bytecode compiler then appends a synthetic
    initialiser function to the function table after all the declared ones, i.e. at an index chosen by nfun -- the
    table's first allocation holds 32 entries and grows from there, so nfun around 32 / 64 puts the synthetic entry
    (whose fields nobody back-patches) into freshly grown, never zeroed memory."""
    out = ["let FIRST: int = 3\n"]
    for i in range(nfun):
        out.append("fn h%d(x: int) -> int {\n    return (+ x %d)\n}\nshadow h%d { assert (== (h%d 1) %d) }\n" % (i, i, i, i, i + 1))
    for i in range(nglob):
        out.append("let G%d: int = %d\n" % (i, 7 * i + 1))
    out.append("fn main() -> int {\n    (println (+ (h%d FIRST) (h0 G%d)))\n    return 0\n}\nshadow main { assert true }\n" % (nfun - 1, nglob - 1))
    return "".join(out)


def gen_wide():
    """declarations whose member counts sit around the fixed-size buffers a compiler typically has: extern functions with
    0, 1, 15, 16, 17, 18, 32 and 40 parameters (declared, some called), functions with 16 / 17 / 33 parameters, structs
    with 16 / 17 / 64 / 65 fields, an enum with 65 variants, a union with 33 variants, 17 / 33-element tuples are left
    out (tuples are 'in development')."""
    out = []
    for n in (0, 1, 15, 16, 17, 18, 32, 40):
        out.append("extern fn wide_ext_%d(%s) -> int\n" % (n, ", ".join("p%d: %s" % (i, "int" if i % 3 else "float") for i in range(n))))
    out.append("extern fn labs(x: int) -> int\n")
    for n in (16, 17, 33):
        out.append("fn wide_fn_%d(%s) -> int {\n    return (+ a0 a%d)\n}\nshadow wide_fn_%d { assert true }\n" % (n, ", ".join("a%d: int" % i for i in range(n)), n - 1, n))
    for n in (16, 17, 64, 65):
        out.append("struct Wide%d { %s }\n" % (n, ", ".join("f%d: int" % i for i in range(n))))
    out.append("enum WideE { %s }\n" % ", ".join("V%d" % i for i in range(65)))
    out.append("union WideU { %s }\n" % ", ".join("U%d { x%d: int }" % (i, i) for i in range(33)))
    out.append("fn main() -> int {\n")
    for n in (16, 17, 33):
        out.append("    (println (wide_fn_%d %s))\n" % (n, " ".join(str(i) for i in range(n))))
    for n in (16, 17, 64, 65):
        out.append("    let s%d: Wide%d = Wide%d { %s }\n    (println s%d.f%d)\n" % (n, n, n, ", ".join("f%d: %d" % (i, i) for i in range(n)), n, n - 1))
    out.append("    let e: WideE = WideE.V64\n    (println (== e WideE.V0))\n")
    out.append("    let u: WideU = WideU.U32 { x32: 5 }\n    match u {\n%s    }\n" % "".join("        U%d(b) => { (println b.x%d) }\n" % (i, i) for i in range(33)))
    out.append("    let mut r: int = 0\n    unsafe { set r (labs -3) }\n    (println r)\n    return 0\n}\nshadow main { assert true }\n")
    return "".join(out)


def _accepted(tree, lnk, work, program):
    cfg = dict((n, v[0]) for n, v in DIMS)
    o = run_cell(tree.root, lnk, program, cfg, os.path.join(work, "fit"), keep=True)
    return o["nvm"] is not None and o["genc"] is not None


def build_corpus(tier, tree, lnk, work):
    """Returns (core programs, names of the quick subset)."""
    progs = []
    for p in corpus.hand_programs():
        progs.append(_single(p))
    for p in sorted(glob.glob(os.path.join(HERE_CORPUS, "*.nano"))):
        progs.append(_single(p))
    for d in sorted(glob.glob(os.path.join(HERE_CORPUS, "mm_*"))):
        files = {}
        for f in sorted(os.listdir(d)):
            with open(os.path.join(d, f)) as fh:
                files[f] = fh.read()
        progs.append(prog(os.path.basename(d), files, origin="multi-module"))
    progs.append(prog("g_big", {"main.nano": gen_big(120, 400, 1500)}, origin="generated: 120 functions, 400 strings, one 1500-statement function"))
    progs.append(prog("g_many", {"main.nano": gen_big(40, 100, 12)}, origin="generated: 40 functions, 100 strings"))
    progs.append(prog("g_wide", {"main.nano": gen_wide()}, origin="generated: declarations with member counts around 16 / 32 / 64 (extern parameters, parameters, fields, variants)"))
    for nf in (30, 31, 32, 33, 63, 64, 65, 130):
        progs.append(prog("g_glob%d" % nf, {"main.nano": gen_globals(nf, 3)}, origin="generated: %d functions + main, then top-level globals (synthetic initialiser entry lands at function-table index %d)" % (nf, nf + 1)))
    # enumerator batches: a leading block and an evenly strided block of every layer (deterministic slices of the
    # exhaustive enumeration; prefix and infix spelling).  The block length is the largest of 120/60/30/15 that both
    # tools accept (a batch can exceed a tool limit or contain a case of an open front-end finding).
    layers = ["layer_E", "layer_S", "layer_F", "layer_D", "layer_A", "op_matrix", "effect_order"]
    for ln in layers:
        cases = lc.all_cases("quick", [ln])
        variants = [("head", "prefix")]
        if tier == "thorough" and len(cases) > 240:
            variants.append(("strided", "infix"))
        for what, mode in variants:
            cand = None
            for k in (120, 60, 30, 15):
                if what == "head":
                    sl = cases[:k]
                    origin = "enumerator %s[0:%d] %s" % (ln, len(sl), mode)
                else:
                    step = (len(cases) - k) // k
                    sl = cases[k::step][:k]
                    origin = "enumerator %s[%d::%d] %s, %d cases" % (ln, k, step, mode, len(sl))
                cand = prog("b_%s_%s" % (ln, what), {"main.nano": langrun.source_of(sl, mode)}, origin=origin)
                if _accepted(tree, lnk, work, cand):
                    break
            progs.append(cand)
    quick = ["c_structs", "c_floats", "c_strpool", "k_hashmap", "k_data", "k_builtins", "mm_one", "mm_two", "mm_extern", "mm_rebind", "g_big", "g_wide", "g_glob31", "g_glob33", "g_glob64",
             "d_typeerr", "d_noshadow", "d_shadowfail", "b_layer_S_head", "b_layer_D_head"]
    names = [p["name"] for p in progs]
    if len(set(names)) != len(names):
        raise common.HarnessError("duplicate program names in the corpus")
    for q in quick:
        if q not in names:
            raise common.HarnessError("quick corpus names a missing program: " + q)
    return progs, quick


def tree_programs(tree):
    """Supplementary corpus: the tree's own single-file example / test programs."""
    srcs = sorted(glob.glob(os.path.join(tree.root, "examples/language/*.nano")) +
                  glob.glob(os.path.join(tree.root, "tests/*.nano")) +
                  glob.glob(os.path.join(tree.root, "examples/verified/*.nano")))
    out = []
    seen = set()
    for s in srcs:
        name = "t_" + os.path.basename(s)[:-5]
        if name in seen:
            continue
        seen.add(name)
        try:
            with open(s) as f:
                txt = f.read()
        except (OSError, UnicodeDecodeError):
            continue
        out.append(prog(name, {"main.nano": txt}, origin="tree:" + os.path.relpath(s, tree.root)))
    return out


# ------------------------------------------------------------------------------------------ one cell
def _norm_text(b, subs):
    """Diagnostics normalisation: remove the directory prefixes under which this run saw its files, name the
    other run-private paths, and undo the path-length dependent padding of the `-- TITLE ---- file` header."""
    for old, new in subs:
        if old:
            b = b.replace(old, new)
    b = re.sub(rb"(?m)^(-- .+? )-{3,}( |$)", rb"\1---\2", b)
    # the C compiler's own messages name nanoc's temporary C file, whose name carries the process id
    b = re.sub(rb"nanoc_\d+_", b"nanoc_<pid>_", b)
    return b


def _norm_genc(b, prefix):
    """Generated C embeds the resolved path of every imported module (directory of the source path as spelled on
    the command line + the import string) in the module-metadata block; exactly these two occurrences are
    reduced to the import string."""
    if not prefix:
        return b
    p = re.escape(prefix)
    b = re.sub(rb"(/\* Module: \w+ \(path: )" + p, rb"\1", b)
    b = re.sub(rb"(___module_path_\w+\(void\) \{\n    return \")" + p, rb"\1", b)
    return b


def run_cell(tree_root, lnk, program, cfg, rundir, keep=False, timeout=120):
    """Execute both tools for one (program, configuration) in the private directory `rundir`.
    Returns {kind: bytes} when keep else {kind: sha}; plus exit statuses inside the diag kinds."""
    if os.path.exists(rundir):
        shutil.rmtree(rundir)
    os.makedirs(rundir)
    obs = {}
    machine = os.uname().machine
    for tool, tag in (("nano_virt", "v"), ("nanoc_c", "c")):
        base = os.path.join(rundir, tag)
        srcdir = os.path.join(base, "src")
        outdir = os.path.join(base, "out")
        empty = os.path.join(base, "cwd0")
        tmpd = os.path.join(base, "t" if cfg["tmpdir"] == "short" else LONG_TMP)
        for d in (srcdir, outdir, empty, tmpd):
            os.makedirs(d)
        for fn, txt in program["files"].items():
            with open(os.path.join(srcdir, fn), "w") as f:
                f.write(txt)
        cwd = {"tree": tree_root, "empty": empty, "srcdir": srcdir}[cfg["cwd"]]
        exe_abs = os.path.join(tree_root, "bin", tool)
        exe = {"abs": exe_abs, "rel": os.path.relpath(exe_abs, cwd), "symlink": os.path.join(lnk, tool)}[cfg["invoke"]]
        if cfg["invoke"] == "rel" and "/" not in exe:
            exe = "./" + exe
        src_abs = os.path.join(srcdir, program["entry"])
        src = src_abs if cfg["srcpath"] == "abs" else os.path.relpath(src_abs, cwd)
        envx = {}
        if cfg["env"] == "noise200":
            envx.update(NOISE)
        elif cfg["env"] == "nano_like":
            envx.update(NANO_LIKE)
        if cfg["perturb"] is not None:
            envx["MALLOC_PERTURB_"] = str(cfg["perturb"])
        pre = ["setarch", machine, "-R"] if cfg["aslr"] == "off" else []
        if tool == "nano_virt":
            outp = os.path.join(outdir, "x.nvm")
            cmd = pre + [exe, src, "--emit-nvm", "-o", outp]
        else:
            envx["NANO_CC"] = "true"
            # multi-module programs on a small sub-lattice use a REAL C compiler (caching wrapper), so that module
            # objects and whatever else a full compilation leaves in the directory exist when the same command is
            # run again in place; private cwd only (the object cache lives under the cwd)
            if (len(program["files"]) > 1 and _STATE.get("ccenv") and cfg.get("run") == 2 and cfg["env"] == "scrubbed" and cfg["tmpdir"] == "short"
                    and cfg["aslr"] == "on" and cfg["perturb"] is None and cfg["cwd"] != "tree"):
                envx.update(_STATE["ccenv"])
            outp = os.path.join(outdir, "a.bin")
            cmd = pre + [exe, src, "-S", "-o", outp, "--llm-diags-json", os.path.join(outdir, "diags.json")]
        rc, so, se = common.run(cmd, timeout=timeout, cwd=cwd, envx=envx, tmp=tmpd)
        spelled_dir = src[:-len(program["entry"])]           # '' when the source is named without a directory
        subs = [(os.path.join(srcdir, "").encode(), b"")]
        if spelled_dir and spelled_dir != os.path.join(srcdir, ""):
            subs.append((spelled_dir.encode(), b""))
        subs += [(outdir.encode(), b"<OUT>"), (tmpd.encode(), b"<TMP>"), (exe.encode(), b"<TOOL>"),
                 (exe_abs.encode(), b"<TOOL>"), (tree_root.encode(), b"<TREE>")]
        diag = b"exit=%s\n--stdout--\n%s\n--stderr--\n%s" % (str(rc).encode(), _norm_text(so, subs), _norm_text(se, subs))
        if tool == "nano_virt":
            obs["virt_diag"] = diag
            obs["nvm"] = _read(outp)
        else:
            obs["nanoc_diag"] = diag
            g = _read(src_abs + ".genC")
            obs["genc"] = None if g is None else _norm_genc(g, spelled_dir.encode())
            j = _read(os.path.join(outdir, "diags.json"))
            obs["nanoc_json"] = None if j is None else _norm_text(j, subs)
        # "compiling the same source files twice": in the repeated-run half of the lattice the same command is run
        # again IN PLACE (same directories, whatever the first compilation left behind - object caches, temporary
        # files - is there now) and must produce the same bytes and the same diagnostics
        if cfg.get("run") == 2:
            rc2, so2, se2 = common.run(cmd, timeout=timeout, cwd=cwd, envx=envx, tmp=tmpd)
            diag2 = b"exit=%s\n--stdout--\n%s\n--stderr--\n%s" % (str(rc2).encode(), _norm_text(so2, subs), _norm_text(se2, subs))
            if tool == "nano_virt":
                pairs = [("nvm", obs["nvm"], _read(outp)), ("virt_diag", obs["virt_diag"], diag2)]
            else:
                g2 = _read(src_abs + ".genC")
                pairs = [("genc", obs["genc"], None if g2 is None else _norm_genc(g2, spelled_dir.encode())), ("nanoc_diag", obs["nanoc_diag"], diag2)]
            for kname, v1, v2 in pairs:
                if v1 != v2:
                    obs["again"] = (obs.get("again", b"") + b"%s differs when the same command is run again in the same directory (first difference at byte %s)\n"
                                    % (kname.encode(), str(first_diff(v1 or b"", v2 or b"")).encode()))
    obs.setdefault("again", b"same")
    if keep:
        return obs
    shutil.rmtree(rundir, ignore_errors=True)
    return dict((k, (None if v is None else (common.sha(v), len(v)))) for k, v in obs.items())


def _read(p):
    try:
        with open(p, "rb") as f:
            return f.read()
    except OSError:
        return None


def _cell_task(item):
    pi, ci = item
    st = _STATE
    rundir = os.path.join(st["work"], "runs", "p%03d" % pi, "c%04d" % ci)
    return pi, ci, run_cell(st["tree_root"], st["lnk"], st["programs"][pi], st["configs"][pi][ci], rundir)


# ------------------------------------------------------------------------------------------ reporting helpers
SECTION_NAMES = {1: "CODE", 2: "STRINGS", 3: "FUNCTIONS", 8: "IMPORTS", 9: "DEBUG"}


def first_diff(a, b):
    n = min(len(a), len(b))
    for i in range(n):
        if a[i] != b[i]:
            return i
    return n if len(a) != len(b) else None


def nvm_where(data, off):
    """Name the part of an .nvm image that byte offset `off` lies in (header 32 bytes, section directory, sections)."""
    try:
        if off < 32:
            return "header"
        nsec = struct.unpack_from("<I", data, 16)[0]
        if off < 32 + 12 * nsec:
            return "section directory"
        for i in range(min(nsec, 64)):
            t, o, s = struct.unpack_from("<III", data, 32 + 12 * i)
            if o <= off < o + s:
                return "section %s (+%d)" % (SECTION_NAMES.get(t, "type %d" % t), off - o)
    except struct.error:
        pass
    return "outside every section"


def describe_cfg(c):
    return ", ".join("%s=%s" % (k, ("0x%X" % v if isinstance(v, int) and k == "perturb" else v)) for k, v in c.items())


def _bytes_or_absent(v):
    return b"<artefact not produced>" if v is None else v


def confirm_and_report(rep, tree, lnk, work, program, kind, cfg_a, cfg_b):
    """Re-run the two configurations (each in fresh private directories) and classify."""
    runs = {"a": [], "b": []}
    rounds = 0
    verdict = None
    for n_more in (2, 16):
        for _ in range(n_more):
            for key, cfg in (("a", cfg_a), ("b", cfg_b)):
                d = os.path.join(work, "confirm", "%s_%s_%s_%d" % (program["name"], kind, key, len(runs[key])))
                runs[key].append(run_cell(tree.root, lnk, program, cfg, d, keep=True, timeout=1200)[kind])
                shutil.rmtree(d, ignore_errors=True)
                rep.count("transitions", 2)
        rounds += n_more
        sa, sb = set(runs["a"]), set(runs["b"])
        if len(sa) == 1 and len(sb) == 1 and sa != sb:
            verdict = "configuration-dependent"
            xa, xb = runs["a"][0], runs["b"][0]
            break
        if len(sa) > 1:
            verdict = "differs between repeated runs of one configuration"
            xa, xb = runs["a"][0], [x for x in runs["a"] if x != runs["a"][0]][0]
            cfg_b = cfg_a
            break
        if len(sb) > 1:
            verdict = "differs between repeated runs of one configuration"
            xa, xb = runs["b"][0], [x for x in runs["b"] if x != runs["b"][0]][0]
            cfg_a = cfg_b
            break
    if verdict is None:
        return False
    ba, bb = _bytes_or_absent(xa), _bytes_or_absent(xb)
    off = first_diff(ba, bb)
    where = ""
    if kind == "nvm" and xa is not None and xb is not None:
        where = " in %s" % nvm_where(ba, off)
        if off < 32:
            off2 = first_diff(ba[32:], bb[32:])
            if off2 is not None:
                where += "; first difference after the header (which holds the checksum) at offset %d in %s: %r vs %r" % (
                    off2 + 32, nvm_where(ba, off2 + 32), ba[off2 + 32:off2 + 40], bb[off2 + 32:off2 + 40])
    elif kind in ("genc", "virt_diag", "nanoc_diag", "nanoc_json"):
        where = " (line %d)" % (ba[:off].count(b"\n") + 1)
    summary = ("%s: %s %s: first difference at byte offset %s%s (lengths %d / %d); A={%s} B={%s}; A has %r, B has %r"
               % (program["name"], kind, verdict, off, where, len(ba), len(bb), describe_cfg(cfg_a), describe_cfg(cfg_b),
                  ba[off:off + 24], bb[off:off + 24]))
    files = {"replay.json": json.dumps({"program": program["name"], "entry": program["entry"], "files": sorted(program["files"]),
                                        "kind": kind, "config_a": cfg_a, "config_b": cfg_b, "first_difference_offset": off,
                                        "verdict": verdict}, indent=1, sort_keys=True) + "\n",
             "out_a.bin": ba, "out_b.bin": bb}
    for fn, txt in program["files"].items():
        files["prog." + fn] = txt
    key = "%s:%s" % (program["name"], kind)
    d = os.path.join(common.OUT, "replays", "C19", common.sha(key)[:16])
    rep.violation(key, files, summary, "cd %s && ./check C19 --replay %s" % (common.VERIF, d))
    return True


# ------------------------------------------------------------------------------------------ dimension probes
def check_dimensions_are_real(tree, work):
    """Vacuity guards on the lattice itself: each mechanism demonstrably changes what it is meant to change."""
    machine = os.uname().machine

    def stack_line(pre):
        rc, o, _e = common.run(pre + ["cat", "/proc/self/maps"], timeout=30)
        if rc != 0:
            raise common.HarnessError("cannot read /proc/self/maps under %s" % pre)
        return [l.split()[0] for l in o.decode().splitlines() if "[stack]" in l][0]
    off = set(stack_line(["setarch", machine, "-R"]) for _ in range(3))
    on = set(stack_line([]) for _ in range(4))
    if len(off) != 1:
        raise common.HarnessError("setarch -R does not switch address-space randomisation off here: %s" % off)
    if len(on) < 2:
        raise common.HarnessError("address-space randomisation is not active: the ASLR dimension would be vacuous")
    # MALLOC_PERTURB_ really changes the bytes malloc returns
    src = os.path.join(work, "perturb.c")
    exe = os.path.join(work, "perturb")
    with open(src, "w") as f:
        f.write('#include <stdio.h>\n#include <stdlib.h>\nint main(void){unsigned char*p=malloc(100);printf("%d\\n",p[50]);return 0;}\n')
    rc, _o, e = common.run(["cc", "-O0", "-o", exe, src], timeout=60)
    if rc != 0:
        raise common.HarnessError("cannot build the MALLOC_PERTURB_ probe: %s" % e[-300:])
    seen = set()
    for v in (None, 0x55, 0xAA):
        rc, o, _e = common.run([exe], timeout=30, envx=({"MALLOC_PERTURB_": str(v)} if v is not None else None))
        seen.add(o.strip())
    if len(seen) != 3:
        raise common.HarnessError("MALLOC_PERTURB_ has no effect on this libc: %s" % seen)
    # the NANO_*-looking names must not be read by the tools
    names = set(NANO_LIKE)
    for dp, _dn, fs in os.walk(os.path.join(tree.root, "src")):
        for fn in fs:
            if fn.endswith((".c", ".h")):
                with open(os.path.join(dp, fn), errors="replace") as f:
                    txt = f.read()
                for n in list(names):
                    if '"%s"' % n in txt:
                        raise common.HarnessError("%s is read by the tree (%s); it is not an unrelated variable" % (n, fn))


def self_test_comparison(tree, lnk, work):
    """The comparison can fail: two programs that differ in one string literal give different artefacts, and
    first_diff / nvm_where locate the difference."""
    cfg = dict((n, v[0]) for n, v in DIMS)
    a = prog("selftest_a", {"main.nano": 'fn main() -> int {\n    (println "self-test-A")\n    return 0\n}\nshadow main { assert true }\n'})
    b = prog("selftest_b", {"main.nano": 'fn main() -> int {\n    (println "self-test-B")\n    return 0\n}\nshadow main { assert true }\n'})
    oa = run_cell(tree.root, lnk, a, cfg, os.path.join(work, "selftest_a"), keep=True)
    ob = run_cell(tree.root, lnk, b, cfg, os.path.join(work, "selftest_b"), keep=True)
    for k in ("nvm", "genc"):
        if oa[k] is None or ob[k] is None:
            raise common.HarnessError("self-test program produced no %s: %r" % (k, oa["virt_diag"][-300:] + oa["nanoc_diag"][-300:]))
        if oa[k] == ob[k] or first_diff(oa[k], ob[k]) is None:
            raise common.HarnessError("self-test: different programs gave identical %s; the comparison cannot fail" % k)
    w = nvm_where(oa["nvm"], first_diff(oa["nvm"], ob["nvm"]))
    if "STRINGS" not in w and "header" not in w:
        raise common.HarnessError("self-test: difference of a string literal located in %s" % w)
    if oa["virt_diag"] != ob["virt_diag"] or oa["nanoc_diag"] != ob["nanoc_diag"]:
        raise common.HarnessError("self-test: diagnostics of two clean programs differ after normalisation:\n%r\n%r" % (oa["nanoc_diag"], ob["nanoc_diag"]))


# ------------------------------------------------------------------------------------------ driver
def _prepare(work):
    tree = common.build_tree("plain")
    lnk = os.path.join(work, "lnk")
    os.makedirs(lnk, exist_ok=True)
    for t in ("nano_virt", "nanoc_c"):
        p = os.path.join(lnk, t)
        if os.path.lexists(p):
            os.unlink(p)
        os.symlink(os.path.join(tree.root, "bin", t), p)
        if not os.path.islink(p):
            raise common.HarnessError("could not create the invocation symlink")
    return tree, lnk


def explore(rep, tree, lnk, work, programs, configs_of, label):
    """Run every (program, configuration) cell; judge each program whose cells all completed."""
    _STATE.update({"work": work, "tree_root": tree.root, "lnk": lnk, "programs": programs, "configs": configs_of})
    items = [(pi, ci) for pi in range(len(programs)) for ci in range(len(configs_of[pi]))]
    table = [dict() for _ in programs]
    truncated = False
    gen = common.pimap(_cell_task, items, chunksize=4)
    try:
        for pi, ci, obs in gen:
            table[pi][ci] = obs
            if rep.out_of_time():
                truncated = True
                break
    finally:
        gen.close()
    stats = {"ok_both": 0, "judged": 0, "cells": 0, "artefacts": 0}
    for pi, program in enumerate(programs):
        cfgs = configs_of[pi]
        if len(table[pi]) != len(cfgs):
            continue            # incomplete (deadline): not judged, exhaustive=False
        stats["judged"] += 1
        stats["cells"] += len(cfgs)
        rep.count("states", len(cfgs))
        rep.count("transitions", 2 * len(cfgs))
        first = table[pi][0]
        program["ok"] = first["nvm"] is not None and first["genc"] is not None
        if program["ok"]:
            stats["ok_both"] += 1
            if first["nvm"][1] == 0 or first["genc"][1] == 0:
                raise common.HarnessError("%s: empty artefact" % program["name"])
        program["sizes"] = dict((k, (first[k][1] if first[k] else None)) for k in KINDS)
        for kind in KINDS:
            classes = {}
            for ci in range(len(cfgs)):
                classes.setdefault(table[pi][ci][kind], []).append(ci)
            stats["artefacts"] += len(cfgs)
            rep.count("traces_validated_against_impl", len(cfgs))
            if kind == "again":
                bad = [ci for ci in range(len(cfgs)) if table[pi][ci][kind] != (common.sha(b"same"), 4)]
                if bad:
                    obs = run_cell(tree.root, lnk, program, cfgs[bad[0]], os.path.join(work, "again", program["name"]), keep=True)
                    rep.violation("again:%s:%s" % (program["name"], obs["again"][:30].decode(errors="replace")),
                                  dict([("config.json", json.dumps(cfgs[bad[0]], indent=1)), ("what.txt", obs["again"].decode(errors="replace"))] +
                                       [(fn, txt) for fn, txt in program["files"].items()]),
                                  "%s: %s (%d of %d repeated-run configurations; first: %s)" % (program["name"], obs["again"].decode(errors="replace").strip().replace("\n", "; "), len(bad), len(cfgs), describe_cfg(cfgs[bad[0]])),
                                  "# compile the program twice in the same directory with the same command and compare the outputs")
                continue
            if len(classes) == 1:
                continue
            order = sorted(classes.values(), key=lambda l: (-len(l), l[0]))
            a, b = order[0][0], order[1][0]
            common.log("%s %s: %d distinct observations over %d configurations; confirming c%d vs c%d" % (program["name"], kind, len(classes), len(cfgs), a, b))
            if not confirm_and_report(rep, tree, lnk, work, program, kind, cfgs[a], cfgs[b]):
                rep.coverage["unreproduced_mismatches"] = rep.coverage.get("unreproduced_mismatches", 0) + 1
                _STATE.setdefault("unreproduced", []).append("%s %s {%s} vs {%s}" % (program["name"], kind, describe_cfg(cfgs[a]), describe_cfg(cfgs[b])))
    if truncated:
        common.log("%s: deadline reached; %d of %d programs fully covered" % (label, stats["judged"], len(programs)))
    return stats


def run(tier):
    rep = common.Report("C19", tier)
    rep.set_deadline(170 if tier == "quick" else 1650)
    work = os.path.join(common.scratch(), "c19")
    os.makedirs(work, exist_ok=True)
    tree, lnk = _prepare(work)
    from .. import langrun
    cclang = langrun.Lang(tree, os.path.join(work, "cc"))
    cclang.warm()
    _STATE["ccenv"] = dict(cclang.envx)
    check_dimensions_are_real(tree, work)
    self_test_comparison(tree, lnk, work)

    core, quick_names = build_corpus(tier, tree, lnk, work)
    if tier == "quick":
        core = [p for p in core if p["name"] in quick_names]
        configs = lattice(QUICK_LEVELS)
    else:
        configs = lattice()
    for n, _v in DIMS:
        if len(set(c[n] for c in configs)) < 2:
            raise common.HarnessError("dimension %s does not vary" % n)
    if len(set(json.dumps(c, sort_keys=True) for c in configs)) != len(configs):
        raise common.HarnessError("duplicate configurations")
    common.log("core: %d programs x %d configurations" % (len(core), len(configs)))
    st = explore(rep, tree, lnk, work, core, [configs] * len(core), "core")
    rep.coverage["configurations"] = len(configs)
    rep.coverage["programs"] = st["judged"]
    rep.coverage["programs_accepted_by_both_tools"] = st["ok_both"]
    rep.coverage["programs_with_diagnostics_only"] = st["judged"] - st["ok_both"]
    rep.coverage["program_list"] = ["%s%s" % (p["name"], "" if p.get("ok") else " (not accepted by both tools: diagnostics / one artefact only)") for p in core if "sizes" in p]

    extra_st = None
    if tier == "thorough" and not rep.out_of_time():
        extra = tree_programs(tree)
        sub = lattice(SUB_LEVELS)
        common.log("supplementary: %d tree programs x %d configurations" % (len(extra), len(sub)))
        extra_st = explore(rep, tree, lnk, work, extra, [sub] * len(extra), "supplementary")
        rep.coverage["supplementary_programs"] = extra_st["judged"]
        rep.coverage["supplementary_programs_accepted_by_both_tools"] = extra_st["ok_both"]
        rep.coverage["supplementary_configurations"] = len(sub)

    for p in core[:3] + [q for q in core if q["name"] in ("mm_two", "g_big", "d_typeerr")]:
        if "sizes" in p:
            rep.sample({"program": p["name"], "origin": p["origin"], "artefact_bytes": p["sizes"]}, cap=10)
    rep.sample({"configuration": configs[0]}, cap=10)
    rep.sample({"configuration": configs[len(configs) // 2 + 7]}, cap=10)
    rep.sample({"configuration": configs[-1]}, cap=10)
    rep.assumptions += [
        "lattice: " + "; ".join("%s in %s" % (n, sorted(set(str(c[n]) for c in configs))) for n, _v in DIMS) + " (full product)",
        "every run has a private copy of the sources and private output / TMPDIR paths, so the absolute source directory also differs between any two runs",
        "NANO_DETERMINISTIC is left unset: the property is unconditional (on Linux the switch only affects Mach-O post-processing)",
        "generated C: the resolved module path embedded in the module-metadata block (`/* Module: m (path: P) */` and `___module_path_m()`), "
        "which is the directory of the source path as spelled on the command line + the import string, is reduced to the import string; nothing else is normalised; .nvm files are compared raw",
        "diagnostics: stdout+stderr+exit status of both tools and nanoc's --llm-diags-json document; directory prefixes of the run's private paths are removed and the "
        "path-length dependent dash padding of `-- TITLE ---- file` headers is collapsed",
        "messages of the C compiler about nanoc's temporary file `nanoc_<pid>_*.c` have the process id replaced",
        "times / process ids vary naturally between the runs (every cell is a new process at a different time); they are not controlled dimensions",
    ]
    if tier == "thorough":
        rep.assumptions.append("supplementary corpus (the tree's own examples/language, tests, examples/verified single-file programs) is run on the sub-lattice %s" % json.dumps(SUB_LEVELS))
    # vacuity guards
    need_ok = 8 if tier == "quick" else 24
    if rep.exhaustive:
        if st["ok_both"] < need_ok:
            raise common.HarnessError("only %d core programs were accepted by both tools (need %d)" % (st["ok_both"], need_ok))
        if st["judged"] - st["ok_both"] < 2:
            raise common.HarnessError("no diagnostics-only programs in the corpus")
        sizes = [p["sizes"]["nvm"] for p in core if p.get("ok")]
        if max(sizes) < 20000:
            raise common.HarnessError("no program with a large code section (largest .nvm is %d bytes)" % max(sizes))
        if not any(len(p["files"]) >= 3 and p.get("ok") for p in core):
            raise common.HarnessError("no accepted program with two imported modules")
        if extra_st is not None and extra_st["ok_both"] < 100:
            raise common.HarnessError("only %d supplementary programs accepted by both tools" % extra_st["ok_both"])
    if _STATE.get("unreproduced"):
        raise common.HarnessError("mismatch seen in the sweep but not reproduced in 18 re-runs of both configurations "
                                  "(neither a verdict nor ignorable): " + "; ".join(_STATE["unreproduced"][:5]))
    return rep.finish()


# ------------------------------------------------------------------------------------------ replay
def replay(path):
    with open(os.path.join(path, "replay.json")) as f:
        meta = json.load(f)
    files = {}
    for fn in meta["files"]:
        with open(os.path.join(path, "prog." + fn)) as f:
            files[fn] = f.read()
    program = prog(meta["program"], files, entry=meta["entry"])
    work = os.path.join(common.scratch(), "c19")
    os.makedirs(work, exist_ok=True)
    tree, lnk = _prepare(work)
    kind = meta["kind"]
    outs = {"a": [], "b": []}
    for i in range(2):
        for key in ("a", "b"):
            d = os.path.join(work, "replay_%s_%d" % (key, i))
            outs[key].append(_bytes_or_absent(run_cell(tree.root, lnk, program, meta["config_" + key], d, keep=True, timeout=1200)[kind]))
    allv = outs["a"] + outs["b"]
    print("program %s, artefact %s" % (meta["program"], kind))
    print("A = {%s}" % describe_cfg(meta["config_a"]))
    print("B = {%s}" % describe_cfg(meta["config_b"]))
    for key in ("a", "b"):
        print("%s: run1 sha256=%s len=%d; run2 %s" % (key.upper(), common.sha(outs[key][0])[:16], len(outs[key][0]),
                                                      "identical" if outs[key][0] == outs[key][1] else "DIFFERENT"))
    if len(set(allv)) == 1:
        print("all four runs produced the identical %s: not reproduced" % kind)
        return 0
    x = allv[0]
    y = [v for v in allv if v != x][0]
    off = first_diff(x, y)
    where = (" in " + nvm_where(x, off)) if kind == "nvm" else ""
    if kind == "nvm" and off is not None and off < 32 and first_diff(x[32:], y[32:]) is not None:
        o2 = first_diff(x[32:], y[32:]) + 32
        where += "; after the header at offset %d in %s" % (o2, nvm_where(x, o2))
    print("first difference at byte offset %s%s: %r vs %r" % (off, where, x[off:off + 24], y[off:off + 24]))
    print("VIOLATION property=C19 replay=%s  # %s differs between the stored configurations" % (path, kind))
    return 1
