"""C14  The VM heap never frees or loses count of an object that is still referenced.

Explicit-state exploration of the real VM: every program of the enumeration is compiled by the tree's
own nano_virt and executed by the tree's own vm_core_execute (ASan+UBSan build) with the verification
seam H1 installed; at EVERY instruction boundary of EVERY run heap_probe walks the object graph from
the roots and checks  allocated(o)  and  ref_count(o) >= indegree(o)  for every reachable object
(vf/probes/heap_probe.c).  A double release / use after free inside the VM is an ASan abort.

Enumerated:
  H  heap operation sequences: all sequences (length <= L) over an alphabet of ~70 statements acting on a
     fixed set of live variables (string, two array<string> that may alias, array<array<string>>, struct
     holding an array and a string, tuple, union, closure capturing an array and a string, hashmap,
     global array) - aliasing, storing into containers, overwriting while aliased, returning through
     frames, early return out of nested scopes with live locals.
  A/D/F/S  the aliasing / data / function / statement layers of the shared program enumerator.
  churn  every statement and every ordered pair of statements as a loop body whose values die each
     iteration, run with K=64 and K=512 iterations: the peak number of live objects must not grow.
  P  value shapes, arrays: array-producing operation (literal, array_new + array_push, sized array_new fill, push in a
     for loop, map with the identity / with a constructor, filter, user-level concatenation, array_remove_at /
     array_set / array_pop results, array_slice of a longer literal, element-wise + of string arrays array+scalar /
     scalar+array / array+array, element-wise int arithmetic)
       x element kind (string built at run time, string literal, nested array, struct with a string field, struct
         holding a struct, struct holding a union, closure capturing a string, tuple, union, int as control)
       x derived value (alias, array_slice windows all / head / tail / middle / empty, map identity, filter all / none,
         concatenation with itself, through a temporary outer array, element-wise + in its three forms)
       x which of the two dies first and how (derived dies in a callee frame, source dies in a callee frame, derived /
         source variable overwritten, source never held by anything but the operand stack, both alive as control)
       x array length (3 and 9 = beyond the initial capacity of 8 in the quick tier; 0, 1, 3, 9 in the thorough tier,
         which also applies every ordered pair of derivations one after the other at length 3);
     after the death: allocation churn of the same size classes, then EVERY element of what remains is read and
     printed: the printed lines must be the values the case built (computed here in Python).
  T  value shapes, access on a value nothing else references: access form (struct field / its string neighbour,
     field of a nested struct, the nested struct itself, tuple element 0 / 1, union field bound by a match in both
     variants, first / last element of the array returned by every producer of layer P, array_pop, map_get on a
     returned hashmap, call of a returned closure)
       x payload kind (as above)
       x holder (result of a call = temporary, constructor expression in place, local variable that stays alive =
         control with a second read, parameter, local of a callee frame that is dead when the value is read)
       x sink (typed let, array literal, argument of a call),
     followed by the same churn and a read of the extracted value.
  leak  every P and T case as the body of a loop of its own (8 and 64 calls, fresh seeds per call and per case): the
     number of objects it leaves behind must not depend on the number of calls.
Combinations the front end cannot type are excluded by explicit rules (t_supported, kinds of PRODUCERS / DERIVED /
ACCESS), never by trial: a P / T program that does not compile is a harness error.
"""
import itertools
import os
import re
import time

from .. import common, langrun
from . import langcommon

PROBE = os.path.join(common.VERIF, "vf/probes/heap_probe.c")

# ----------------------------------------------------------------------------- layer H
PRELUDE = '''struct Box { xs: array<string>, name: string }
struct Outer { b: Box, tag: int }
union Res { Ok { v: string }, Err { code: int, msg: string } }
let mut G: array<string> = []
fn ident(b: Box) -> Box { return b }
fn ida(v: array<string>) -> array<string> { return v }
fn ida3(v: array<string>) -> array<string> { return (ida (ida v)) }
fn mk(s: string) -> array<string> {
    let v: array<string> = [s, (+ s "!")]
    return (ida v)
}
fn mkbox(v: array<string>, s: string) -> Box { return Box { xs: v, name: s } }
fn poke(v: array<string>, s: string) -> int {
    if (> (array_length v) 0) { (array_set v 0 s) } else {}
    return (array_length v)
}
fn grow(v: array<string>, s: string) -> array<string> {
    let mut w: array<string> = v
    set w (array_push w s)
    return w
}
fn getter(arr: array<string>, s: string) -> fn(int) -> int {
    fn get(i: int) -> int {
        if (< i (array_length arr)) { return (+ (str_length (at arr i)) (str_length s)) } else {}
        return (str_length s)
    }
    return get
}
fn up(s: string) -> string { return (+ s "u") }
fn longer(s: string) -> bool { return (> (str_length s) 1) }
fn early(s: string, n: int) -> int {
    let v: array<string> = [s, (+ s "e")]
    if (> n 0) {
        let w: array<string> = [(at v 1)]
        for i in (range 0 3) {
            let z: string = (+ (at w 0) (int_to_string i))
            if (== i n) { return (str_length z) } else {}
        }
        return 1
    } else {}
    return 0
}
fn unwrap(r: Res) -> string {
    match r {
        Ok(x) => { return x.v }
        Err(e) => { return e.msg }
    }
    return ""
}
'''

DECLS = '''    let mut s: string = (+ "s" (int_to_string k))
    let mut a: array<string> = ["p", s]
    let mut b: array<string> = a
    let mut n: array<array<string>> = [a]
    let mut bx: Box = Box { xs: a, name: s }
    let mut bs: array<Box> = [bx]
    let mut o: Outer = Outer { b: bx, tag: k }
    let mut t: (string, array<string>) = (s, a)
    let mut r: Res = Res.Ok { v: s }
    let mut f: fn(int) -> int = (getter a s)
    let hm: HashMap<string, string> = (map_new)
    let mut c: int = 0
'''

OBS = '''    (println s)
    (println (array_length a))
    (println (array_length b))
    (println (array_length n))
    (println bx.name)
    (println (array_length bx.xs))
    (println o.b.name)
    (println (array_length bs))
    (println t.0)
    (println (array_length t.1))
    (println (unwrap r))
    (println (f 0))
    (println (map_size hm))
    (println (array_length G))
    (println c)
'''

# name -> (statement text, accumulates-by-design?)
OPS = {
    "push_s":    ('set a (array_push a s)', True),
    "push_new":  ('set a (array_push a (+ s "x"))', True),
    "alias":     ('set b a', False),
    "renew":     ('set a ["n", s]', False),
    "relit":     ('set a []', False),
    "set_cat":   ('if (> (array_length a) 0) { (array_set a 0 (+ (at a 0) "y")) } else {}', False),
    "set_dup":   ('if (> (array_length a) 0) { (array_set a 0 (at a (- (array_length a) 1))) } else {}', False),
    "pop":       ('if (> (array_length a) 0) { set s (array_pop a) } else {}', False),
    "remove0":   ('if (> (array_length a) 0) { (array_remove_at a 0) } else {}', False),
    "slice":     ('if (> (array_length a) 0) { set b (array_slice a 0 1) } else {}', False),
    "slice_tl":  ('if (> (array_length a) 1) { set b (array_slice a 1 (array_length a)) } else {}', False),
    "slice_all": ('set b (array_slice a 0 (array_length a))', False),
    "slice_mid": ('if (> (array_length a) 2) { set a (array_slice a 1 2) } else {}', False),
    "slice_e":   ('set b (array_slice a (array_length a) (array_length a))', False),
    "set_last":  ('if (> (array_length a) 1) { (array_set a (- (array_length a) 1) (+ (at a 0) "l")) } else {}', False),
    "rm_last":   ('if (> (array_length a) 1) { (array_remove_at a (- (array_length a) 1)) } else {}', False),
    "rm_b":      ('if (> (array_length b) 1) { (array_remove_at b 1) } else {}', False),
    "pop_b":     ('if (> (array_length b) 0) { set s (array_pop b) } else {}', False),
    "n_set":     ('if (> (array_length n) 0) { (array_set n 0 b) } else {}', False),
    "n_pop":     ('if (> (array_length n) 0) { set a (array_pop n) } else {}', False),
    "n_rm":      ('if (> (array_length n) 0) { (array_remove_at n 0) } else {}', False),
    "n_slice":   ('if (> (array_length n) 1) { set n (array_slice n 1 (array_length n)) } else {}', False),
    "bs_push":   ('set bs (array_push bs bx)', True),
    "bs_get":    ('if (> (array_length bs) 0) { set bx (at bs 0) } else {}', False),
    "bs_set":    ('if (> (array_length bs) 0) { (array_set bs 0 (mkbox a s)) } else {}', False),
    "bs_pop":    ('if (> (array_length bs) 0) { set bx (array_pop bs) } else {}', False),
    "bs_renew":  ('set bs [bx, (mkbox b "w")]', False),
    "n_push":    ('set n (array_push n a)', True),
    "n_get":     ('if (> (array_length n) 0) { set b (at n 0) } else {}', False),
    "n_renew":   ('set n [b, a]', False),
    "box":       ('set bx Box { xs: a, name: s }', False),
    "box_fn":    ('set bx (mkbox b (+ s "k"))', False),
    "box_id":    ('set bx (ident bx)', False),
    "box_xs":    ('set a bx.xs', False),
    "box_name":  ('set s bx.name', False),
    "outer":     ('set o Outer { b: bx, tag: 2 }', False),
    "outer_get": ('set bx o.b', False),
    "tup":       ('set t (s, a)', False),
    "tup_get":   ('set a t.1\n    set s t.0', False),
    "un_ok":     ('set r Res.Ok { v: s }', False),
    "un_err":    ('set r Res.Err { code: 1, msg: (+ s "m") }', False),
    "un_get":    ('set s (unwrap r)', False),
    "clo":       ('set f (getter a s)', False),
    "clo_call":  ('set c (+ c (f 0))', False),
    "hm_put":    ('(map_put hm "k" s)', False),
    "hm_put2":   ('(map_put hm s (+ s "v"))', True),
    "hm_get":    ('if (map_has hm "k") { set s (map_get hm "k") } else {}', False),
    "g_set":     ('set G a', False),
    "g_get":     ('set a G', False),
    "mapf":      ('set a (map a up)', False),
    "filt":      ('set b (filter a longer)', False),
    "substr":    ('if (> (str_length s) 1) { set s (str_substring s 0 1) } else {}', False),
    "cat":       ('set s (+ s "c")', False),
    "mk":        ('set a (mk s)', False),
    "id3":       ('set b (ida3 a)', False),
    "poke":      ('set c (+ c (poke a (+ s "p")))', False),
    "grow":      ('set b (grow a s)', True),
    "early":     ('set c (+ c (early s 1))', False),
    "early0":    ('set c (+ c (early s 0))', False),
    # arrays that do not come from a string literal (array_new / loop / element-wise results carry another element tag)
    "anew":      ('set a (array_push (array_push (array_new 0 "") s) (+ s "n"))', False),
    "fill":      ('set a (array_new 2 (+ s "f"))', False),
    "loop_push": ('set b []\n    for j in (range 0 2) { set b (array_push b (+ s (int_to_string j))) }', False),
    "ew_as":     ('set a (+ a "w")', False),
    "ew_aa":     ('set b (+ a b)', False),
    # accesses on a value that only the operand stack references
    "tmp_name":  ('set s (mkbox a (+ s "t")).name', False),
    "tmp_xs":    ('set b (mkbox (mk s) s).xs', False),
    "tmp_at":    ('set s (up (at (mk s) 0))', False),
    "tmp_deep":  ('set s Outer { b: (mkbox b (+ s "d")), tag: 1 }.b.name', False),
}
CORE = ["push_new", "alias", "renew", "set_dup", "pop", "remove0", "box", "box_xs", "tup", "clo", "g_set", "mk", "slice_tl", "n_push", "bs_get"]


def h_function(name, seq):
    body = "".join("    %s\n" % OPS[o][0] for o in seq)
    return "fn %s(k: int) -> int {\n%s%s%s    return c\n}\nshadow %s { assert true }\n" % (name, DECLS, body, OBS, name)


def h_sequences(tier):
    names = list(OPS)
    seqs = [(x,) for x in names] + list(itertools.product(names, repeat=2))
    if tier == "quick":
        seqs += list(itertools.product(CORE, repeat=3))
    else:
        seqs += list(itertools.product(names, repeat=3))
        seqs += list(itertools.product(CORE[:9], repeat=4))
    return seqs


def h_program(seqs, base):
    out = [PRELUDE]
    calls = []
    for i, sq in enumerate(seqs):
        nm = "h%d" % (base + i)
        out.append(h_function(nm, sq))
        calls.append('    (println "@@%s")\n    (println (%s %d))\n' % (nm, nm, (base + i) % 7))
    out.append("fn main() -> int {\n%s    return 0\n}\nshadow main { assert true }\n" % "".join(calls))
    return "".join(out)


def churn_program(seq, K):
    """loop body: fresh string, fresh array (everything of the previous iteration dies), then the statements"""
    body = "".join("        %s\n" % OPS[o][0].replace("\n    ", "\n        ") for o in seq)
    return (PRELUDE + "fn work(k: int, iters: int) -> int {\n" + DECLS +
            "    for i in (range 0 iters) {\n"
            '        set s (+ "v" (int_to_string i))\n'
            '        set a [s, "q"]\n'
            "        set b a\n"
            "        set n [a]\n"
            "        set bs [bx]\n"
            + body +
            "    }\n" + OBS + "    return c\n}\nshadow work { assert true }\n"
            "fn main() -> int {\n    (println (work 1 %d))\n    return 0\n}\nshadow main { assert true }\n" % K)


# ----------------------------------------------------------------------------- layers P / T: value shapes
# Element / payload kinds that live on the VM heap (plus `lit` and `int` as controls).  Every value is built at
# run time from an integer seed; py(seed) is the text the kind's show function must print for it.
def _S(i):
    return "str-number-%d" % i


class Kind(object):
    def __init__(self, name, T, mk, sh, py, heap=True):
        self.name, self.T, self.mk_fn, self.sh, self.py, self.heap = name, T, mk, sh, py, heap

    def mk(self, seed):
        return "(%s %s)" % (self.mk_fn, seed)


KINDS = [
    Kind("str", "string", "mkstr", "shstr", _S),
    Kind("lit", "string", "mklit", "shstr", lambda i: ("lit-zero", "lit-one", "lit-two")[i % 3]),
    Kind("arr", "array<string>", "mkarr", "sharr", lambda i: _S(i) + "in-%d" % i),
    Kind("rec", "Rec", "mkrec", "shrec", lambda i: _S(i) + str(i)),
    Kind("deep", "Deep", "mkdeep", "shdeep", lambda i: _S(i) + "deep-%d" % i),
    Kind("wun", "W", "mkw", "shw", lambda i: (_S(i) if i % 2 == 0 else "err-%d%d" % (i, i)) + str(i)),
    Kind("clo", "fn(int) -> string", "mkclo", None, lambda i: _S(i) + "7"),
    Kind("tup", "(string, int)", "mktup", "shtup", lambda i: _S(i) + str(i)),
    Kind("res", "Res", "mkres", "unres", lambda i: (_S(i) if i % 2 == 0 else "err-%d%d" % (i, i))),
    Kind("int", "int", "mkint", "shint", lambda i: str(i * 3), heap=False),
]
KIND = dict((k.name, k) for k in KINDS)

PRE2 = """struct Rec { name: string, n: int }
struct Deep { inner: Rec, s: string }
union Res { Ok { v: string }, Err { code: int, msg: string } }
struct W { r: Res, k: int }
fn mkstr(i: int) -> string { return (+ "str-number-" (int_to_string i)) }
fn mklit(i: int) -> string {
    if (== (% i 3) 0) { return "lit-zero" } else {}
    if (== (% i 3) 1) { return "lit-one" } else {}
    return "lit-two"
}
fn mkarr(i: int) -> array<string> { return [(mkstr i), (+ "in-" (int_to_string i))] }
fn mkrec(i: int) -> Rec { return Rec { name: (mkstr i), n: i } }
fn mkdeep(i: int) -> Deep { return Deep { inner: (mkrec i), s: (+ "deep-" (int_to_string i)) } }
fn mkres(i: int) -> Res {
    if (== (% i 2) 0) { return Res.Ok { v: (mkstr i) } } else {}
    return Res.Err { code: i, msg: (+ "err-" (int_to_string i)) }
}
fn mkw(i: int) -> W { return W { r: (mkres i), k: i } }
fn mkclo(i: int) -> fn(int) -> string {
    let s: string = (mkstr i)
    fn get(j: int) -> string { return (+ s (int_to_string j)) }
    return get
}
fn mktup(i: int) -> (string, int) { return ((mkstr i), i) }
fn mkint(i: int) -> int { return (* i 3) }
fn shstr(x: string) -> string { return x }
fn sharr(x: array<string>) -> string { return (+ (at x 0) (at x 1)) }
fn shrec(x: Rec) -> string { return (+ x.name (int_to_string x.n)) }
fn shdeep(x: Deep) -> string { return (+ x.inner.name x.s) }
fn unres(r: Res) -> string {
    match r {
        Ok(x) => { return x.v }
        Err(e) => { return (+ e.msg (int_to_string e.code)) }
    }
    return ""
}
fn shw(x: W) -> string { return (+ (unres x.r) (int_to_string x.k)) }
fn shtup(x: (string, int)) -> string { return (+ x.0 (int_to_string x.1)) }
fn shint(x: int) -> string { return (int_to_string x) }
fn churn(i: int) -> int {
    /* allocate and drop objects of the size classes the cases use, so that freed memory is handed out again */
    let mut total: int = 0
    let mut j: int = 0
    while (< j 6) {
        let s: string = (+ "STR-NUMBER-" (int_to_string (+ i j)))
        let t: string = (+ s (int_to_string j))
        let v: array<string> = [s, (+ "IN-" (int_to_string (+ i j)))]
        let r: Rec = Rec { name: (+ "DEEP-" (int_to_string (+ i j))), n: j }
        set total (+ total (+ (str_length t) (+ (array_length v) r.n)))
        set j (+ j 1)
    }
    return total
}
"""


def churn_py(i):
    return sum(len("STR-NUMBER-%d%d" % (i + j, j)) + 2 + j for j in range(6))


def kind_helpers(k):
    """per-kind helper functions / types, emitted only into the programs that use the kind"""
    T, n = k.T, k.name
    return {
        "id": "fn id_%s(x: %s) -> %s { return x }\n" % (n, T, T),
        "keep": "fn keep_%s(x: %s) -> bool { return true }\n" % (n, T),
        "drop": "fn drop_%s(x: %s) -> bool { return false }\n" % (n, T),
        "ucat": ("fn ucat_%s(a: array<%s>, b: array<%s>) -> array<%s> {\n"
                 "    let mut r: array<%s> = (array_slice a 0 (array_length a))\n"
                 "    let mut j: int = 0\n"
                 "    while (< j (array_length b)) {\n        set r (array_push r (at b j))\n        set j (+ j 1)\n    }\n"
                 "    return r\n}\n") % (n, T, T, T, T),
        "ints": ("fn ints(i: int, n: int) -> array<int> {\n    let mut r: array<int> = []\n"
                 "    for j in (range i (+ i n)) { set r (array_push r j) }\n    return r\n}\n"),
        "H": ("struct H_%s { pad: int, v: %s, tail: string }\n"
              "fn mkh_%s(i: int) -> H_%s { return H_%s { pad: i, v: %s, tail: (+ \"tail-\" (int_to_string i)) } }\n") % (n, T, n, n, n, k.mk("i")),
        "N": ("struct N_%s { h: H_%s, z: string }\n"
              "fn mkn_%s(i: int) -> N_%s { return N_%s { h: (mkh_%s i), z: (+ \"zed-\" (int_to_string i)) } }\n") % (n, n, n, n, n, n),
        "t0": "fn mkt0_%s(i: int) -> (%s, int) { return (%s, i) }\n" % (n, T, k.mk("i")),
        "t1": "fn mkt1_%s(i: int) -> (int, %s) { return (i, %s) }\n" % (n, T, k.mk("i")),
        "U": ("union U_%s { A { v: %s }, B { code: int, w: %s } }\n"
              "fn mku_%s(i: int) -> U_%s {\n"
              "    if (== (%% i 2) 0) { return U_%s.A { v: %s } } else {}\n"
              "    return U_%s.B { code: i, w: %s }\n}\n") % (n, T, T, n, n, n, k.mk("i"), n, k.mk("i")),
    }


def show_stmts(k, expr, uniq):
    """statements printing the value of `expr` (of kind k) through the kind's show function"""
    if k.name == "clo":
        return ["let g%s: fn(int) -> string = %s" % (uniq, expr), "(println (g%s 7))" % uniq]
    return ["(println (%s %s))" % (k.sh, expr)]


# -- layer P: array-producing operation x element kind x derived value x which of the two dies first
STRLIKE = ("str", "lit")


def _elems(k, i, n):
    return [k.py(i + j) for j in range(n)]


def _lit_expr(k, seed, n):
    """array literal with n run-time built elements seed .. seed+n-1 (n == 0: empty array through array_new)"""
    if n == 0:
        return "(array_new 0 %s)" % k.mk(seed)
    return "[" + ", ".join(k.mk("(+ %s %d)" % (seed, j)) for j in range(n)) + "]"


# producer: name -> (kinds or None = all, body(k, n) -> statements ending in `return`, py(k, i, n) -> shown elements,
#                    helper keys needed)
def _prod_newpush(k, n):
    return (["let mut v: array<%s> = (array_new 0 %s)" % (k.T, k.mk("(+ i 70)"))] +
            ["set v (array_push v %s)" % k.mk("(+ i %d)" % j) for j in range(n)] + ["return v"])


def _prod_rm(k, n):
    return ["let mut v: array<%s> = %s" % (k.T, _lit_expr(k, "(- i 1)", n + 1)), "(array_remove_at v 0)", "return v"]


def _prod_set(k, n):
    return (["let mut v: array<%s> = %s" % (k.T, _lit_expr(k, "(+ i 60)", n))] +
            ["(array_set v %d %s)" % (j, k.mk("(+ i %d)" % j)) for j in range(n)] + ["return v"])


def _prod_pop(k, n):
    return ["let mut v: array<%s> = %s" % (k.T, _lit_expr(k, "i", n + 1)),
            "(array_pop v)", "return v"]


def _prod_loop(k, n):      # `range` only exists as the range of a for loop: the loop-built array is its array form
    return ["let mut v: array<%s> = []" % k.T, "for j in (range 0 %d) { set v (array_push v %s) }" % (n, k.mk("(+ i j)")), "return v"]


PRODUCERS = {
    "lit":     (None, lambda k, n: ["return %s" % _lit_expr(k, "i", n)], _elems, ()),
    "newpush": (None, _prod_newpush, _elems, ()),
    "fill":    (None, lambda k, n: ["return (array_new %d %s)" % (n, k.mk("i"))], lambda k, i, n: [k.py(i)] * n, ()),
    "map_id":  (None, lambda k, n: ["return (map %s id_%s)" % (_lit_expr(k, "i", n), k.name)], _elems, ("id",)),
    "map_new": (None, lambda k, n: ["return (map (ints i %d) %s)" % (n, k.mk_fn)], _elems, ("ints",)),
    "filter":  (None, lambda k, n: ["return (filter %s keep_%s)" % (_lit_expr(k, "i", n), k.name)], _elems, ("keep",)),
    "ucat":    (None, lambda k, n: ["return (ucat_%s %s %s)" % (k.name, _lit_expr(k, "i", n // 2), _lit_expr(k, "(+ i %d)" % (n // 2), n - n // 2))], _elems, ("ucat",)),
    "rm":      (None, _prod_rm, _elems, ()),
    "set":     (None, _prod_set, _elems, ()),
    "pop":     (None, _prod_pop, _elems, ()),
    "slice":   (None, lambda k, n: ["return (array_slice %s 1 %d)" % (_lit_expr(k, "(- i 1)", n + 2), n)], _elems, ()),
    "ew_as":   (STRLIKE, lambda k, n: ["return (+ %s \"+z\")" % _lit_expr(k, "i", n)], lambda k, i, n: [x + "+z" for x in _elems(k, i, n)], ()),
    "ew_sa":   (STRLIKE, lambda k, n: ["return (+ \"z+\" %s)" % _lit_expr(k, "i", n)], lambda k, i, n: ["z+" + x for x in _elems(k, i, n)], ()),
    "ew_aa":   (STRLIKE, lambda k, n: ["return (+ %s %s)" % (_lit_expr(k, "i", n), _lit_expr(k, "(+ i 20)", n))],
                lambda k, i, n: [x + y for x, y in zip(_elems(k, i, n), _elems(k, i + 20, n))], ()),
    "loop":    (None, _prod_loop, _elems, ()),
    "ew_int":  (("int",), lambda k, n: ["return (+ (array_new %d (mkint i)) (map (ints 0 %d) mkint))" % (n, n)],
                lambda k, i, n: [str(i * 3 + 3 * j) for j in range(n)], ("ints",)),
}


def producer_fn(pname, k, n):
    body = PRODUCERS[pname][1](k, n)
    return "fn p_%s_%s_%d(i: int) -> array<%s> {\n%s}\n" % (pname, k.name, n, k.T, "".join("    %s\n" % l for l in body))


# derived value: name -> (kinds or None, expression over the source expression `v`, py(k, shown elements) -> shown
#                         elements of the derived array, helper keys, evaluates `v` more than once?)
def _sl(s, l):
    return lambda k, e: e[s:s + l] if l is not None else e[s:]


DERIVED = {
    "alias":     (None, "{v}", lambda k, e: e, ()),
    "slice_all": (None, "(array_slice {v} 0 99)", lambda k, e: e, ()),
    "slice_hd":  (None, "(array_slice {v} 0 1)", lambda k, e: e[:1], ()),
    "slice_tl":  (None, "(array_slice {v} 1 99)", lambda k, e: e[1:], ()),
    "slice_mid": (None, "(array_slice {v} 1 1)", lambda k, e: e[1:2], ()),
    "slice_e":   (None, "(array_slice {v} 1 0)", lambda k, e: [], ()),
    "map_id":    (None, "(map {v} id_{k})", lambda k, e: e, ("id",)),
    "filt_all":  (None, "(filter {v} keep_{k})", lambda k, e: e, ("keep",)),
    "filt_none": (None, "(filter {v} drop_{k})", lambda k, e: [], ("drop",)),
    "ucat":      (None, "(ucat_{k} {v} {v})", lambda k, e: e + e, ("ucat",)),
    "nest":      (None, "(at [{v}, {v}] 1)", lambda k, e: e, ()),
    "ew_as":     (STRLIKE, "(+ {v} \"+y\")", lambda k, e: [x + "+y" for x in e], ()),
    "ew_sa":     (STRLIKE, "(+ \"y+\" {v})", lambda k, e: ["y+" + x for x in e], ()),
    "ew_aa":     (STRLIKE, "(+ {v} {v})", lambda k, e: [x + x for x in e], ()),
    "ew_int":    (("int",), "(+ {v} 1)", lambda k, e: [str(int(x) + 1) for x in e], ()),
}

# which value dies first / how: see p_case
ORDERS = ("der_frame", "src_frame", "der_set", "src_set", "src_temp", "both")


def read_array(k, var, elems, uniq):
    """statements printing length and every element of array variable `var`, and the lines they must print"""
    st = ["(println (array_length %s))" % var]
    exp = [str(len(elems))]
    if k.name != "res":          # the front end cannot type `(at v j)` for an array of unions: length only
        for j, x in enumerate(elems):
            st += show_stmts(k, "(at %s %d)" % (var, j), "%s_%d" % (uniq, j))
            exp.append(x)
    return st, exp


def p_case(name, pname, kname, dname, order, n, seed):
    """one case: helper functions, the case function `name(i)`, lines it must print, helpers needed"""
    k = KIND[kname]
    T = k.T
    pk, _pb, ppy, pneeds = PRODUCERS[pname]
    dk, dexpr, dpy, dneeds = DERIVED[dname]
    src_e = ppy(k, seed, n)
    der_e = dpy(k, src_e)
    P = "(p_%s_%s_%d i)" % (pname, kname, n)
    D = lambda v: dexpr.replace("{v}", v).replace("{k}", kname)
    fresh = _lit_expr(k, "(+ i 30)", 2)
    fresh_e = _elems(k, seed + 30, 2)
    pre, body, exp = [], [], []
    if order == "der_frame":      # the derived value lives and dies in a callee frame; the source must be intact
        pre.append("fn %s_u(v: array<%s>) -> int {\n    let d: array<%s> = %s\n    return (array_length d)\n}\n" % (name, T, T, D("v")))
        body += ["let src: array<%s> = %s" % (T, P), "(println (%s_u src))" % name, "(println (churn i))"]
        exp += [str(len(der_e)), str(churn_py(seed))]
        st, e = read_array(k, "src", src_e, "s"); body += st; exp += e
    elif order == "src_frame":    # the source is a local of a callee that returns the derived value
        pre.append("fn %s_m(i: int) -> array<%s> {\n    let v: array<%s> = %s\n    let d: array<%s> = %s\n    return d\n}\n" % (name, T, T, P, T, D("v")))
        body += ["let d: array<%s> = (%s_m i)" % (T, name), "(println (churn i))"]
        exp += [str(churn_py(seed))]
        st, e = read_array(k, "d", der_e, "d"); body += st; exp += e
    elif order == "der_set":      # the derived value is overwritten while the source lives on
        body += ["let src: array<%s> = %s" % (T, P), "let mut d: array<%s> = %s" % (T, D("src")), "set d %s" % fresh, "(println (churn i))"]
        exp += [str(churn_py(seed))]
        st, e = read_array(k, "src", src_e, "s"); body += st; exp += e
        st, e = read_array(k, "d", fresh_e, "d"); body += st; exp += e
    elif order == "src_set":      # the source variable is overwritten while the derived value lives on
        body += ["let mut src: array<%s> = %s" % (T, P), "let d: array<%s> = %s" % (T, D("src")), "set src %s" % fresh, "(println (churn i))"]
        exp += [str(churn_py(seed))]
        st, e = read_array(k, "d", der_e, "d"); body += st; exp += e
        st, e = read_array(k, "src", fresh_e, "s"); body += st; exp += e
    elif order == "src_temp":     # the source is never held by anything but the operand stack
        body += ["let d: array<%s> = %s" % (T, D(P)), "(println (churn i))"]
        exp += [str(churn_py(seed))]
        st, e = read_array(k, "d", der_e, "d"); body += st; exp += e
    elif order == "both":         # control: both stay alive
        body += ["let src: array<%s> = %s" % (T, P), "let d: array<%s> = %s" % (T, D("src")), "(println (churn i))"]
        exp += [str(churn_py(seed))]
        st, e = read_array(k, "d", der_e, "d"); body += st; exp += e
        st, e = read_array(k, "src", src_e, "s"); body += st; exp += e
    else:
        raise common.HarnessError(order)
    fn = "".join(pre) + "fn %s(i: int) -> int {\n%s    return 0\n}\n" % (name, "".join("    %s\n" % l for l in body))
    needs = set((kname, h) for h in pneeds + dneeds)
    needs.add(("P", pname, kname, n))
    return {"name": name, "seed": seed, "text": fn, "expect": exp, "needs": needs,
            "desc": "P producer=%s kind=%s derived=%s order=%s n=%d" % (pname, kname, dname, order, n),
            "dims": ("P", pname, kname, dname, order, n)}


def _compose(d1, d2):
    """derived value of a derived value: d2 applied to d1's result"""
    k1, e1, py1, n1 = DERIVED[d1]
    k2, e2, py2, n2 = DERIVED[d2]
    kinds = k1 if k2 is None else k2 if k1 is None else tuple(x for x in k1 if x in k2)
    return (kinds, e2.replace("{v}", e1), lambda k, e: py2(k, py1(k, e)), n1 + n2)


def p_cases(tier):
    lens = (3, 9) if tier == "quick" else (0, 1, 3, 9)
    if tier != "quick":      # two derivation steps (every ordered pair) at length 3
        for d1 in list(DERIVED):
            for d2 in list(DERIVED):
                if "+" not in d1 and "+" not in d2:
                    DERIVED.setdefault(d1 + "+" + d2, _compose(d1, d2))
    out = []
    for n in lens:
        for pname, (pk, _b, _py, _n) in PRODUCERS.items():
            for k in KINDS:
                if pk is not None and k.name not in pk:
                    continue
                for dname, (dk, _e, _dpy, _dn) in DERIVED.items():
                    if dk is not None and k.name not in dk:
                        continue
                    if "+" in dname and n != 3:
                        continue
                    for order in ORDERS:
                        out.append((pname, k.name, dname, order, n))
    return out


# -- layer T: access form x payload kind x holder of the accessed value (temporary / variable / parameter / dead frame) x sink
T_EXTRA = """union Result<T, E> { Ok { value: T }, Err { error: E } }
fn mkhm(i: int) -> HashMap<string, string> {
    let hm: HashMap<string, string> = (map_new)
    (map_put hm "k" (mkstr i))
    (map_put hm (mkstr i) "other")
    return hm
}
fn mkresult(i: int) -> Result<string, string> {
    if (== (% i 2) 0) {
        return Result.Ok { value: (mkstr i) }
    } else {
        return Result.Err { error: (mkstr i) }
    }
}
fn mkcloi(i: int) -> fn(int) -> int {
    let s: string = (mkstr i)
    let v: array<string> = [s, (+ s "!")]
    fn geti(j: int) -> int { return (+ (* 100 (str_length (at v 1))) (+ (str_length s) j)) }
    return geti
}
"""

# access form: name -> (kinds or None, holder type, holder maker (seed expr -> expr), access (holder expr -> expr) or None
#                      for the match form, result ("k" = payload kind, "str", "int", "H"), py(k, seed) -> shown, helper keys,
#                      holders it supports or None)
ACCESS = {
    "field":    (None, "H_{k}", "(mkh_{k} {s})", "{E}.v", "k", lambda k, i: k.py(i), ("H",), None),
    "tail":     (None, "H_{k}", "(mkh_{k} {s})", "{E}.tail", "str", lambda k, i: "tail-%d" % i, ("H",), None),
    "nested":   (None, "N_{k}", "(mkn_{k} {s})", "{E}.h.v", "k", lambda k, i: k.py(i), ("H", "N"), None),
    "nested_z": (None, "N_{k}", "(mkn_{k} {s})", "{E}.z", "str", lambda k, i: "zed-%d" % i, ("H", "N"), None),
    "inner":    (None, "N_{k}", "(mkn_{k} {s})", "{E}.h", "H", lambda k, i: k.py(i), ("H", "N"), None),
    "tup0":     (None, "({T}, int)", "(mkt0_{k} {s})", "{E}.0", "k", lambda k, i: k.py(i), ("t0",), None),
    "tup1":     (None, "(int, {T})", "(mkt1_{k} {s})", "{E}.1", "k", lambda k, i: k.py(i), ("t1",), None),
    "match_a":  (None, "U_{k}", "(mku_{k} (* 2 {s}))", None, "k", lambda k, i: k.py(2 * i), ("U",), None),
    "match_b":  (None, "U_{k}", "(mku_{k} (+ 1 (* 2 {s})))", None, "k", lambda k, i: k.py(2 * i + 1), ("U",), None),
    "pop":      (None, "array<{T}>", "(p_lit_{k}_3 {s})", "(array_pop {E})", "k", lambda k, i: k.py(i + 2), (), ("var", "param", "frame")),
    "hm_get":   (("str",), "HashMap<string, string>", "(mkhm {s})", "(map_get {E} \"k\")", "k", lambda k, i: k.py(i), (), None),
    # built-in accessors that take a component out of a union value (UNION_FIELD on the operand itself, no match binding)
    "unwrap":   (("str",), "Result<string, string>", "(mkresult (* 2 {s}))", "(result_unwrap {E})", "k", lambda k, i: k.py(2 * i), (), None),
    "unwrap_e": (("str",), "Result<string, string>", "(mkresult (+ 1 (* 2 {s})))", "(result_unwrap_err {E})", "k", lambda k, i: k.py(2 * i + 1), (), None),
    "call":     (("clo",), "fn(int) -> int", "(mkcloi {s})", "({E} 7)", "int", lambda k, i: str(100 * (len(_S(i)) + 1) + len(_S(i)) + 7), (), ("temp", "var", "frame")),
}
# the holder written as a constructor expression in place (struct / tuple / union literal) instead of a call result
CTOR = {
    "field":    "H_{k} { pad: {s}, v: {mk}, tail: (+ \"tail-\" (int_to_string {s})) }",
    "tail":     "H_{k} { pad: {s}, v: {mk}, tail: (+ \"tail-\" (int_to_string {s})) }",
    "nested":   "N_{k} { h: (mkh_{k} {s}), z: (+ \"zed-\" (int_to_string {s})) }",
    "nested_z": "N_{k} { h: (mkh_{k} {s}), z: (+ \"zed-\" (int_to_string {s})) }",
    "inner":    "N_{k} { h: (mkh_{k} {s}), z: (+ \"zed-\" (int_to_string {s})) }",
    "tup0":     "({mk}, {s})",
    "tup1":     "({s}, {mk})",
}
# element of an array returned by every array producer: filled in by t_cases (access "elem0:<producer>" / "elemN:<producer>")
HOLDERS = ("temp", "ctor", "var", "param", "frame")
SINKS = ("let", "arr", "arg")


def t_case(name, aname, kname, holder, sink, seed):
    k = KIND[kname]
    needs = set()
    if aname.startswith("elem"):
        which, pname = aname.split(":")
        j = 0 if which == "elem0" else 2
        ppy = PRODUCERS[pname][2]
        HT, maker, acc, res = "array<{T}>", "(p_%s_{k}_3 {s})" % pname, "(at {E} %d)" % j, "k"
        py = lambda kk, i: ppy(kk, i, 3)[j]
        hk = PRODUCERS[pname][3]
        needs.add(("P", pname, kname, 3))
    else:
        _ks, HT, maker, acc, res, py, hk, _hs = ACCESS[aname]
        if aname == "pop":
            needs.add(("P", "lit", kname, 3))
    for h in hk:
        needs.add((kname, h))
    sub = lambda t, E="", sd="": t.replace("{k}", kname).replace("{T}", k.T).replace("{E}", E).replace("{s}", sd)
    HT = sub(HT)
    if res == "k":
        RT, rk = k.T, k
    elif res == "str":
        RT, rk = "string", KIND["str"]
    elif res == "int":
        RT, rk = "int", KIND["int"]
    else:
        RT, rk = "H_" + kname, None
    shown = py(k, seed)

    def show(var, uniq):
        if res == "H":
            return show_stmts(k, var + ".v", uniq) + ["(println %s.tail)" % var], [shown, "tail-%d" % seed]
        if res == "int":
            return ["(println %s)" % var], [shown]
        return show_stmts(rk, var, uniq), [shown]

    def access(E, seed_expr):
        """statements that leave the accessed value in x (or xs for the array sink)"""
        if acc is None:       # union field of a value matched in place
            return ["let mut x: %s = %s" % (RT, k.mk("(+ %s 40)" % seed_expr)),
                    "match %s {\n        A(a) => { set x a.v }\n        B(b) => { set x b.w }\n    }" % E]
        a = sub(acc, E)
        if sink == "arr":
            return ["let xs: array<%s> = [%s]" % (RT, a), "let x: %s = (at xs 0)" % RT]
        if sink == "arg":
            return ["let x: %s = (idr_%s %s)" % (RT, name, a)]
        return ["let x: %s = %s" % (RT, a)]

    pre, body, exp = [], [], []
    if sink == "arg":
        pre.append("fn idr_%s(y: %s) -> %s { return y }\n" % (name, RT, RT))
    mk_i = sub(maker, sd="i")
    if holder == "ctor":
        body += access(sub(CTOR[aname], sd="i").replace("{mk}", k.mk("i")), "i")
    elif holder == "temp":
        body += access(mk_i, "i")
    elif holder == "var":
        body += ["let h: %s = %s" % (HT, mk_i)] + access("h", "i")
    elif holder == "param":
        pre.append("fn %s_g(h: %s, i: int) -> %s {\n%s    return x\n}\n" % (name, HT, RT, "".join("    %s\n" % l for l in access("h", "i"))))
        body += ["let x: %s = (%s_g %s i)" % (RT, name, mk_i)]
    elif holder == "frame":
        pre.append("fn %s_g(i: int) -> %s {\n    let h: %s = %s\n%s    return x\n}\n" % (name, RT, HT, mk_i, "".join("    %s\n" % l for l in access("h", "i"))))
        body += ["let x: %s = (%s_g i)" % (RT, name)]
    else:
        raise common.HarnessError(holder)
    body.append("(println (churn i))")
    exp.append(str(churn_py(seed)))
    st, e = show("x", "x"); body += st; exp += e
    if holder == "var" and aname not in ("pop", "call") and acc is not None:
        # control: the holder is still alive, the same access must give the same value again
        body.append("let x2: %s = %s" % (RT, sub(acc, "h")))
        st, e = show("x2", "y"); body += st; exp += e
    fn = "".join(pre) + "fn %s(i: int) -> int {\n%s    return 0\n}\n" % (name, "".join("    %s\n" % l for l in body))
    return {"name": name, "seed": seed, "text": fn, "expect": exp, "needs": needs,
            "desc": "T access=%s kind=%s holder=%s sink=%s" % (aname, kname, holder, sink),
            "dims": ("T", aname, kname, holder, sink)}


# combinations the front end does not type (found by trying every one; kept explicit so that the enumeration cannot
# shrink silently): a union inside a union, `(at v j)` / array_pop of an array of unions, a closure or union through
# an array literal / generic position
def t_supported(aname, kname, holder, sink):
    if kname == "res" and (aname.startswith("match") or aname.startswith("elem") or aname in ("pop", "tup0", "tup1")):
        return False
    if kname == "res" and sink == "arr":
        return False
    if kname == "clo" and sink == "arg" and ACCESS.get(aname, (0, 0, 0, 0, "k"))[4] in ("k", "H") and aname != "call":
        return aname in ("inner",)       # a function-typed argument must be a name; H_clo is a struct and passes
    if aname in ("tup0", "tup1") and holder == "temp":
        return sink == "arr"             # `(f i).0` is typed int outside an array literal
    if aname.startswith("elem") and holder == "temp":
        return sink == "arg" and kname != "clo"     # `(at (f i) j)` has no type of its own: only an argument position takes it
    return True


def t_cases(tier):
    out = []
    forms = list(ACCESS) + ["%s:%s" % (w, p) for p in PRODUCERS for w in ("elem0", "elemN")]
    for aname in forms:
        if aname.startswith("elem"):
            pk = PRODUCERS[aname.split(":")[1]][0]
            kinds, holders = pk, None
        else:
            kinds, holders = ACCESS[aname][0], ACCESS[aname][7]
        for k in KINDS:
            if kinds is not None and k.name not in kinds:
                continue
            for holder in HOLDERS:
                if holders is not None and holder not in holders:
                    continue
                if holder == "ctor" and aname not in CTOR:
                    continue
                for sink in SINKS:
                    if aname.startswith("match") and sink != "let":
                        continue
                    if not t_supported(aname, k.name, holder, sink):
                        continue
                    out.append((aname, k.name, holder, sink))
    return out


def shape_cases(tier):
    """all P and T cases with their names and seeds (three-digit seeds: every built string has the same length)"""
    cases = []
    for dims in p_cases(tier):
        idx = len(cases)
        cases.append(p_case("c%d" % idx, *dims, seed=100 + (idx * 7) % 790))
    for dims in t_cases(tier):
        idx = len(cases)
        cases.append(t_case("c%d" % idx, *dims, seed=100 + (idx * 7) % 790))
    return cases


def shape_program(cases, main=None):
    """one program holding the given cases: prelude, the helpers they need (once), the cases, a main that runs each
    case after printing its marker (or the given main body)"""
    helpers, prods = [], []
    seen = set()
    for c in cases:
        for nd in sorted(c["needs"], key=str):
            if nd in seen:
                continue
            seen.add(nd)
            if nd[0] == "P":
                for h in PRODUCERS[nd[1]][3]:
                    if (nd[2], h) not in seen:
                        seen.add((nd[2], h))
                        helpers.append(kind_helpers(KIND[nd[2]])[h])
                prods.append(producer_fn(nd[1], KIND[nd[2]], nd[3]))
            else:
                if nd[1] == "N" and (nd[0], "H") not in seen:
                    seen.add((nd[0], "H"))
                    helpers.append(kind_helpers(KIND[nd[0]])["H"])
                helpers.append(kind_helpers(KIND[nd[0]])[nd[1]])
    # `ints` is kind independent: keep one copy
    uniq, hs = set(), []
    for h in helpers:
        if h not in uniq:
            uniq.add(h)
            hs.append(h)
    if main is None:
        main = "".join('    (println "@@%s")\n    (println (%s %d))\n' % (c["name"], c["name"], c["seed"]) for c in cases)
    return (PRE2 + T_EXTRA + "".join(hs) + "".join(prods) + "".join(c["text"] for c in cases) +
            "fn main() -> int {\n%s    return 0\n}\n" % main)


def leak_program(cases, K):
    """every case as the body of a loop of its own: K calls with K different seeds; whatever a call built is dead when
    it returns, so the number of live objects after the loop does not depend on K"""
    # seeds of different cases are disjoint (odd thousands; layer T doubles some seeds): a string leaked by one case is
    # never found again through the intern table by another, which would hide the second leak
    drv = "".join("fn drv_%s(k: int) -> int {\n    let mut c: int = 0\n    for i in (range 0 k) { set c (+ c (%s (+ %d i))) }\n    return c\n}\n"
                  % (c["name"], c["name"], 1000 * (2 * j + 1)) for j, c in enumerate(cases))
    main = "    let mut c: int = 0\n" + "".join("    set c (+ c (drv_%s %d))\n" % (c["name"], K) for c in cases) + "    (println c)\n"
    return shape_program(cases, main).replace("fn main() -> int {", drv + "fn main() -> int {")


def leak_cause(c, leaking):
    """cause class of a leaking case: the producer when the same case with the derived value replaced by a plain alias
    leaks as well, else the derived operation; the access form for layer T"""
    d = c["dims"]
    if d[0] == "T":
        if d[1].startswith("elem") and ("P", d[1].split(":")[1], d[2], "alias", "both", 3) in leaking:
            return "producer:" + d[1].split(":")[1]
        return "access:" + d[1]
    if d[3] == "alias" or ("P", d[1], d[2], "alias", d[4], d[5]) in leaking:
        return "producer:" + d[1]
    return "derived:" + d[3]


def shape_expected(cases):
    out = []
    for c in cases:
        out.append("@@" + c["name"])
        out += c["expect"]
        out.append("0")
    return out


def split_sections(text):
    sec, cur = {}, None
    for l in text.split("\n"):
        if l.startswith("@@"):
            cur = l[2:]
            sec[cur] = []
        elif cur is not None:
            sec[cur].append(l)
    for k in sec:
        while sec[k] and sec[k][-1] == "":
            sec[k].pop()
    return sec


# ----------------------------------------------------------------------------- running
_ST = {}


def _compile(args):
    src, out = args
    rc, o, e = common.run([_ST["virt"], src, "--emit-nvm", "-o", out], timeout=300)
    return (src, out, rc, (o + e)[-1500:].decode(errors="replace"))


def _probe(args):
    mode, fuel, files = args
    rc, o, e = common.run([_ST["probe"], mode, str(fuel)] + files, timeout=1800)
    return (files, rc, o.decode(errors="replace"), e.decode(errors="replace"))


RES = re.compile(r"^RES (\S+) rc=(-?\d+) steps=(\d+) audits=(\d+) maxreach=(\d+) peak_live=(\d+) final_live=(\d+) fuel_out=(\d) fails=(\d+)")


def parse(out):
    res, fails, crashes = {}, {}, {}
    for l in out.splitlines():
        m = RES.match(l)
        if m:
            res[m.group(1)] = dict(rc=int(m.group(2)), steps=int(m.group(3)), audits=int(m.group(4)), maxreach=int(m.group(5)),
                                   peak=int(m.group(6)), final=int(m.group(7)), fuel_out=int(m.group(8)), fails=int(m.group(9)))
        elif l.startswith("FAIL "):
            fails.setdefault(l.split()[1], []).append(l)
        elif l.startswith("CRASH ") or l.startswith("LOADFAIL "):
            crashes[l.split()[1]] = l
    return res, fails, crashes


def _read(path):
    try:
        with open(path, errors="replace") as f:
            return f.read()
    except OSError:
        return ""


def shape_replay(case, work, fuel):
    """compile and run one value-shape case as a program of its own; one-line verdict + details"""
    src = os.path.join(work, "alone_%s.nano" % case["name"])
    with open(src, "w") as f:
        f.write(shape_program([case]))
    _s, out, rc, msg = _compile((src, src[:-5] + ".nvm"))
    if rc != 0:
        raise common.HarnessError("single case does not compile: %s: %s" % (case["desc"], msg))
    if os.path.exists(out + ".out"):
        os.unlink(out + ".out")
    _f, _rc, o, e = _probe(("auditout", fuel, [out]))
    res, fails, crashes = parse(o)
    got = split_sections(_read(out + ".out")).get(case["name"])
    if out in crashes:
        return "reproduced alone: VM run aborted (%s)\n%s" % (asan_summary(e), e[-6000:])
    if out in fails:
        return "reproduced alone: %s\n" % fails[out][0]
    if got != case["expect"] + ["0"]:
        return "reproduced alone: printed %r, must print %r\n" % (got, case["expect"] + ["0"])
    return "not reproduced alone (only inside its batch)\n"


def asan_summary(err):
    m = re.search(r"ERROR: AddressSanitizer: (\S+)", err)
    fr = re.findall(r"#\d+ 0x[0-9a-f]+ in (\w+)", err)
    return "%s in %s" % (m.group(1) if m else "abort", " <- ".join(fr[:4]))


def run(tier):
    rep = common.Report("C14", tier)
    rep.set_deadline(1500 if tier == "quick" else 7200)
    tree = common.build_tree("asan")
    probe = tree.build_probe(PROBE, "heap_probe")
    _ST.update({"virt": tree.exe("nano_virt"), "probe": probe})
    work = os.path.join(common.scratch(), "c14")
    os.makedirs(work, exist_ok=True)
    fuel = 3000000

    # ---- programs: layer H batches (one function per sequence) + shared enumerator layers
    seqs = h_sequences(tier)
    HB = 120
    jobs = []
    srcinfo = {}
    for bi in range(0, len(seqs), HB):
        p = os.path.join(work, "h%05d.nano" % bi)
        with open(p, "w") as f:
            f.write(h_program(seqs[bi:bi + HB], bi))
        jobs.append((p, p[:-5] + ".nvm"))
        srcinfo[p[:-5] + ".nvm"] = ("H", seqs[bi:bi + HB], bi)
    cases = langcommon.all_cases(tier, ["layer_A", "layer_D", "layer_F", "layer_S"])
    LB = 40
    for bi in range(0, len(cases), LB):
        p = os.path.join(work, "l%05d.nano" % bi)
        with open(p, "w") as f:
            f.write(langrun.source_of(cases[bi:bi + LB]))
        jobs.append((p, p[:-5] + ".nvm"))
        srcinfo[p[:-5] + ".nvm"] = ("L", cases[bi:bi + LB], bi)

    # value-shape layers P and T (one function per case, expected output known)
    vcases = shape_cases(tier)
    VB = 60
    for bi in range(0, len(vcases), VB):
        p = os.path.join(work, "v%05d.nano" % bi)
        with open(p, "w") as f:
            f.write(shape_program(vcases[bi:bi + VB]))
        jobs.append((p, p[:-5] + ".nvm"))
        srcinfo[p[:-5] + ".nvm"] = ("V", vcases[bi:bi + VB], bi)

    def compile_all(jobs):
        ok = []
        for src, out, rc, msg in common.pmap(_compile, jobs, chunksize=2):
            if rc == 0 and os.path.exists(out):
                ok.append(out)
            else:
                kind, items, bi = srcinfo[out]
                if kind in ("H", "V"):
                    raise common.HarnessError("layer %s program does not compile (%s): %s" % (kind, src, msg))
                # enumerator batch holding a case the front end refuses (C02's known finding): split it
                if len(items) == 1:
                    rep.count("cases_not_accepted_by_front_end")
                    continue
                sub = []
                for j, c in enumerate(items):
                    p = "%s_%d.nano" % (src[:-5], j)
                    with open(p, "w") as f:
                        f.write(langrun.source_of([c]))
                    srcinfo[p[:-5] + ".nvm"] = ("L", [c], bi + j)
                    sub.append((p, p[:-5] + ".nvm"))
                ok += compile_all(sub)
        return ok

    mods = compile_all(jobs)
    common.log("compiled %d modules (%d H sequences, %d enumerator cases, %d value-shape cases) [%.0fs]" % (len(mods), len(seqs), len(cases), len(vcases), time.time() - rep.t0))

    vmods = [m for m in mods if srcinfo[m][0] == "V"]
    omods = [m for m in mods if srcinfo[m][0] != "V"]
    chunks = [("audit", fuel, omods[i:i + 4]) for i in range(0, len(omods), 4)] + [("auditout", fuel, vmods[i:i + 2]) for i in range(0, len(vmods), 2)]
    vbad = {}          # cause key -> [(case, what)]
    vstat = {"lines": 0}
    vdistinct = set()

    def judge_v(items, sec, f):
        """verdict for the cases of one value-shape module that ran to their end: audit failures noted between the
        lines they printed, printed values against the values they must read"""
        for c in items:
            got = sec.get(c["name"])
            want = c["expect"] + ["0"]
            vstat["lines"] += len(want)
            vdistinct.update(want)
            if got == want:
                continue
            if got is None:
                raise common.HarnessError("case %s of %s printed nothing" % (c["name"], f))
            fl = [l for l in got if l.startswith("!!FAIL")]
            if fl:
                m = re.search(r"kind=(\S+) (.*)", fl[0])
                vbad.setdefault("audit:%s:%s" % (m.group(1), re.sub(r"\d+", "N", m.group(2))[:80]), []).append((c, "heap invariant broken (%s): %s" % (m.group(1), m.group(2))))
            else:
                d = [(a, b) for a, b in zip(want, got) if a != b]
                a, b = d[0] if d else ("%d lines" % len(want), "%d lines" % len(got))
                vbad.setdefault("value:%s:%s" % (c["dims"][0], c["dims"][1]), []).append((c, "printed %r where %r is the value it read" % (b[:60], a[:60])))
    total_steps = total_audits = 0
    maxreach = 0
    nprog = 0
    for files, rc, out, err in common.pimap(_probe, chunks):
        res, fails, crashes = parse(out)
        for f in files:
            kind, items, bi = srcinfo[f]
            nprog += len(items)
            src = open(f[:-4] + ".nano").read()
            if f in crashes or f not in res:
                # re-run alone to get this module's own sanitizer report (and prove it is reproducible)
                r1 = _probe(("audit", fuel, [f]))
                r2 = _probe(("audit", fuel, [f]))
                c1, c2 = parse(r1[2])[2], parse(r2[2])[2]
                if (f in c1) != (f in c2):
                    raise common.HarnessError("non-deterministic crash for %s" % f)
                if f in c1:
                    sig = asan_summary(r1[3])
                    pre = parse(r1[2])[1].get(f, [])
                    if pre:        # the audit saw the broken invariant before the run died: say where
                        sig += "; first audit failure: " + pre[0].split(" ", 2)[2][:300]
                    if kind == "V":     # the last marker printed says which case was running; the ones before it completed
                        sec = split_sections(_read(f + ".out"))
                        ran = [c for c in items if c["name"] in sec]
                        if ran:
                            judge_v(ran[:-1], sec, f)
                            vbad.setdefault("crash:" + re.sub(r"\d+", "N", asan_summary(r1[3]))[:120], []).append((ran[-1], "VM run aborted: " + sig))
                            rep.count("shape_cases_not_run_after_an_abort", len(items) - len(ran))
                            continue
                    rep.violation("crash:" + re.sub(r"\d+", "N", sig)[:160], {"program.nano": src, "module.nvm": open(f, "rb").read(), "stderr.txt": r1[3][-20000:], "stdout.txt": r1[2][-4000:]},
                                  "VM run aborted (%s): %s" % (crashes.get(f, "no result"), sig),
                                  "# build /repo with clang -fsanitize=address -DNANOLANG_VERIF, then: bin/nano_virt program.nano --run")
                continue
            r = res[f]
            total_steps += r["steps"]; total_audits += r["audits"]; maxreach = max(maxreach, r["maxreach"])
            if r["fuel_out"]:
                raise common.HarnessError("fuel exhausted on %s" % f)
            if r["rc"] != 0:
                raise common.HarnessError("enumerated program fails at run time (rc=%d): %s" % (r["rc"], f))
            if kind == "V":
                judge_v(items, split_sections(_read(f + ".out")), f)
                continue
            if f in fails:
                first = fails[f][0]
                m = re.search(r"fn=(\S+) ip=\d+ kind=(\S+) (.*)", first)
                fn, kind2, detail = m.groups() if m else ("?", "?", first)
                what = ""
                if kind == "H" and re.match(r"h\d+$", fn):
                    what = " sequence=" + "/".join(items[int(fn[1:]) - bi])
                key = "audit:%s:%s" % (kind2, re.sub(r"\d+", "N", detail)[:80])
                rep.violation(key, {"program.nano": src, "module.nvm": open(f, "rb").read(), "fails.txt": "\n".join(fails[f]) + "\n"},
                              "heap invariant broken (%s) in %s%s: %s" % (kind2, fn, what, detail),
                              "# asan build with -DNANOLANG_VERIF; heap_probe audit 3000000 module.nvm (vf/probes/heap_probe.c)")
    for key in sorted(vbad):
        lst = vbad[key]
        # replay the first case of this cause alone (its own program), twice: reproducible and minimal
        c0, what0 = lst[0]
        alone = shape_replay(c0, work, fuel)
        if alone.splitlines()[0] != shape_replay(c0, work, fuel).splitlines()[0]:
            raise common.HarnessError("case %s does not behave the same when replayed alone twice" % c0["desc"])
        listing = "".join("%s: %s\n" % (c["desc"], w) for c, w in lst)
        rep.violation("shape:" + key, {"program.nano": shape_program([c0]), "expected.txt": "\n".join(shape_expected([c0])) + "\n",
                                        "failing_cases.txt": listing, "alone.txt": alone},
                      "%s: %s (%d case(s) of the value-shape layers, e.g. %s; alone: %s)" % (c0["desc"], what0, len(lst), ", ".join(sorted(set(c["desc"].split(" ", 1)[1] for c, _w in lst[1:4]))), alone.splitlines()[0] if alone else "?"),
                      "# asan build with -DNANOLANG_VERIF; nano_virt program.nano --emit-nvm -o m.nvm; heap_probe auditout 3000000 m.nvm; diff expected.txt m.nvm.out")
    rep.count("states", nprog)
    rep.count("transitions", total_steps)
    rep.count("traces_validated_against_impl", len(mods))
    rep.coverage["heap_audits_at_instruction_boundaries"] = total_audits
    rep.coverage["max_reachable_objects_in_one_audit"] = maxreach
    rep.coverage["heap_op_sequences"] = len(seqs)
    rep.coverage["enumerator_cases"] = len(cases)
    rep.sample({"heap_op_sequence": list(seqs[len(seqs) // 2]), "statements": [OPS[o][0] for o in seqs[len(seqs) // 2]]})
    rep.sample({"heap_op_sequence": list(seqs[-1])})
    npc = sum(1 for c in vcases if c["dims"][0] == "P")
    ntc = len(vcases) - npc
    rep.coverage["shape_cases_P_producer_x_kind_x_derived_x_order"] = npc
    rep.coverage["shape_cases_T_access_x_kind_x_holder_x_sink"] = ntc
    vlines = vstat["lines"]
    rep.coverage["shape_printed_values_compared"] = vlines
    rep.coverage["shape_distinct_expected_lines"] = len(vdistinct)
    rep.coverage["shape_cases_failing"] = sum(len(v) for v in vbad.values())
    for c in (vcases[npc // 3], vcases[npc + ntc // 2]):
        rep.sample({"shape_case": c["desc"], "function": c["text"], "must_print": c["expect"]})
    if tier == "quick" and (npc < 17000 or ntc < 3000) or tier != "quick" and (npc < 140000 or ntc < 3000):
        raise common.HarnessError("value-shape layers smaller than expected: P=%d T=%d" % (npc, ntc))
    if not vbad and (vlines < 5 * len(vcases) or len(vdistinct) < 2000):
        raise common.HarnessError("value-shape layers look vacuous: %d lines compared, %d distinct" % (vlines, len(vdistinct)))

    common.log("audited %d modules, %d audits [%.0fs]" % (len(mods), total_audits, time.time() - rep.t0))
    # ---- churn family
    names = [o for o in OPS if not OPS[o][1]]
    cseqs = [(x,) for x in names] + (list(itertools.product(names, repeat=2)) if tier != "quick" else [(x, y) for x in names for y in CORE if not OPS[y][1]])
    cjobs = []
    for i, sq in enumerate(cseqs):
        for K in (64, 512):
            p = os.path.join(work, "c%05d_%d.nano" % (i, K))
            with open(p, "w") as f:
                f.write(churn_program(sq, K))
            cjobs.append((p, p[:-5] + ".nvm"))
    cm = []
    for src, out, rc, msg in common.pmap(_compile, cjobs, chunksize=4):
        if rc != 0:
            raise common.HarnessError("churn program does not compile (%s): %s" % (src, msg))
        cm.append(out)
    live = {}
    for files, rc, out, err in common.pimap(_probe, [("live", 50000000, cm[i:i + 16]) for i in range(0, len(cm), 16)]):
        res, _f, crashes = parse(out)
        for f in files:
            if f in crashes or f not in res or res[f]["rc"] != 0 or res[f]["fuel_out"]:
                r1 = _probe(("live", 50000000, [f]))
                rep.violation("churn-crash:" + asan_summary(r1[3]), {"program.nano": open(f[:-4] + ".nano").read(), "stderr.txt": r1[3][-20000:], "stdout.txt": r1[2][-2000:]},
                              "churn program aborted or failed: %s" % (crashes.get(f) or res.get(f)))
                continue
            live[f] = res[f]
    grew = 0
    bad_single = set()
    for i, sq in enumerate(cseqs):
        f64 = os.path.join(work, "c%05d_64.nvm" % i)
        f512 = os.path.join(work, "c%05d_512.nvm" % i)
        if f64 not in live or f512 not in live:
            continue
        rep.count("transitions", live[f64]["steps"] + live[f512]["steps"])
        p64, p512 = live[f64]["peak"], live[f512]["peak"]
        if p512 > p64:
            grew += 1
            culprit = "/".join(sq)
            # singles come first in cseqs: a pair containing a statement that already grows alone is the same cause
            if len(sq) == 2 and any(o in bad_single for o in sq):
                continue
            if len(sq) == 1:
                bad_single.add(sq[0])
            key = "churn:" + culprit
            rep.violation(key, {"program_K64.nano": churn_program(sq, 64), "program_K512.nano": churn_program(sq, 512)},
                          "live objects grow with the iteration count although every value dies each iteration: loop body %s: peak live objects %d after 64 iterations, %d after 512" % (culprit, p64, p512),
                          "# heap_probe live 50000000 <module compiled from program_K64.nano / program_K512.nano>; compare peak_live")
    common.log("churn family done (%d loop bodies) [%.0fs]" % (len(cseqs), time.time() - rep.t0))
    # ---- leak family: every value-shape case as a loop body (all its values die when the call returns)
    LK = (8, 64)
    LB = 40
    ljobs, lbatches = [], []
    for bi in range(0, len(vcases), LB):
        for K in LK:
            p = os.path.join(work, "k%05d_%d.nano" % (bi, K))
            with open(p, "w") as f:
                f.write(leak_program(vcases[bi:bi + LB], K))
            ljobs.append((p, p[:-5] + ".nvm"))
        lbatches.append((bi, vcases[bi:bi + LB]))
    for src, out, rc, msg in common.pmap(_compile, ljobs, chunksize=2):
        if rc != 0:
            raise common.HarnessError("leak-family program does not compile (%s): %s" % (src, msg))
    lruns = []
    for K in LK:
        fs = [os.path.join(work, "k%05d_%d.nvm" % (bi, K)) for bi, _c in lbatches]
        lruns += [("live:1", 400000000, fs[i:i + 4]) for i in range(0, len(fs), 4)]
    samples = {}
    lsteps = 0
    for files, rc, out, err in common.pimap(_probe, lruns):
        res, _f, crashes = parse(out)
        for l in out.splitlines():
            if l.startswith("LIVE "):
                w = l.split()
                samples[w[1]] = [int(x) for x in w[3].split(",")] if len(w) > 3 else []
        for f in files:
            if f in crashes or f not in res or res[f]["rc"] != 0 or res[f]["fuel_out"]:
                r1 = _probe(("live", 400000000, [f]))
                rep.violation("leak-crash:" + asan_summary(r1[3]), {"program.nano": open(f[:-4] + ".nano").read(), "stderr.txt": r1[3][-20000:], "stdout.txt": r1[2][-2000:]},
                              "leak-family program aborted or failed: %s" % (crashes.get(f) or res.get(f)))
                samples.pop(f, None)
                continue
            lsteps += res[f]["steps"]
    leaking = {}
    ljudged = 0
    for bi, cs in lbatches:
        sm = [samples.get(os.path.join(work, "k%05d_%d.nvm" % (bi, K))) for K in LK]
        if None in sm:
            continue
        if len(sm[0]) != len(cs) or len(sm[1]) != len(cs):
            raise common.HarnessError("leak family: %d / %d samples for %d cases (batch %d)" % (len(sm[0]), len(sm[1]), len(cs), bi))
        for j, c in enumerate(cs):
            d0 = sm[0][j] - (sm[0][j - 1] if j else 0)
            d1 = sm[1][j] - (sm[1][j - 1] if j else 0)
            ljudged += 1
            if d1 > d0:
                leaking[c["dims"]] = (c, d0, d1)
    lgroups = {}
    for dims in sorted(leaking, key=str):
        c, d0, d1 = leaking[dims]
        lgroups.setdefault(leak_cause(c, leaking), []).append((c, d0, d1))
    for cause in sorted(lgroups):
        lst = lgroups[cause]
        c0, d0, d1 = lst[0]
        # the first case alone, as a program of its own
        fin = []
        for K in LK:
            src = os.path.join(work, "leak_alone_%d.nano" % K)
            with open(src, "w") as f:
                f.write(leak_program([c0], K))
            _s, out, rc, msg = _compile((src, src[:-5] + ".nvm"))
            if rc != 0:
                raise common.HarnessError("single leak case does not compile: " + msg)
            r = parse(_probe(("live", 400000000, [out]))[2])[0].get(out)
            fin.append(r["final"] if r else -1)
        alone = "alone: %d live objects at exit after %d calls, %d after %d calls" % (fin[0], LK[0], fin[1], LK[1])
        if not fin[1] > fin[0] >= 0:
            alone += " (not reproduced alone)"
        summary = ("objects stay allocated after every value of the call is dead (%s): case '%s' leaves %d objects behind after %d calls, %d after %d; %s; %d case(s) with this cause"
                   % (cause, c0["desc"], d0, LK[0], d1, LK[1], alone, len(lst)))
        rep.violation("leak:" + cause, {"program_K%d.nano" % LK[0]: leak_program([c0], LK[0]), "program_K%d.nano" % LK[1]: leak_program([c0], LK[1]),
                                        "leaking_cases.txt": "".join("%s: %d -> %d\n" % (c["desc"], a, b) for c, a, b in lst)},
                      summary, "# heap_probe live 400000000 <module compiled from program_K%d.nano / program_K%d.nano>; compare final_live" % LK)
    common.log("leak family done (%d loop bodies) [%.0fs]" % (ljudged, time.time() - rep.t0))
    rep.count("states", len(vcases))
    rep.count("transitions", lsteps)
    rep.coverage["leak_loop_bodies"] = ljudged
    rep.coverage["leak_bodies_growing"] = len(leaking)
    if ljudged < len(vcases) and not rep.violations:
        raise common.HarnessError("leak family judged %d of %d cases" % (ljudged, len(vcases)))
    rep.count("states", len(cseqs))
    rep.coverage["churn_loop_bodies"] = len(cseqs)
    rep.coverage["churn_bodies_growing"] = grew
    rep.sample({"churn_body": [OPS[o][0] for o in cseqs[len(cseqs) // 3]], "iterations": [64, 512]})
    rep.assumptions += [
        "roots: operand stack [0,stack_size), globals, frame closures; containers: array elements, struct fields and field names, union fields, tuple elements, closure captures, hashmap entries; the intern table is weak",
        "freed memory is recognised through AddressSanitizer poisoning (quarantine default 256 MB, far above what these programs allocate)",
        "audit at every instruction boundary (hook H1); states inside one instruction are not instruction boundaries",
        "heap op alphabet of %d statements, sequences <= %s; enumerator layers A/D/F/S; churn: %d loop bodies at 64 and 512 iterations" % (len(OPS), "2 (+3 over a 12-statement core)" if tier == "quick" else "3 (+4 over a 9-statement core)", len(cseqs)),
        "value shapes P: %d array producers x %d element kinds x %d derived values x %d death orders x lengths %s = %d cases (element-wise forms only for the kinds they are typed for); "
        "T: %d access forms (%d fixed + first/last element of every producer's result) x kinds x %d holders x %d sinks = %d cases after removing what the front end cannot type"
        % (len(PRODUCERS), len(KINDS), len(DERIVED), len(ORDERS), "3,9" if tier == "quick" else "0,1,3,9 (two-step derived values, every ordered pair, at length 3)", npc, len(ACCESS) + 2 * len(PRODUCERS), len(ACCESS), len(HOLDERS), len(SINKS), ntc),
        "value shapes: every case prints every element / the extracted value after allocation churn; the %d printed lines are compared with values computed in Python from the case's seed (string contents encode the seed); "
        "the runs are ASan runs, so a read of freed memory aborts rather than printing other data - the comparison additionally catches values that are valid objects but the wrong ones" % vlines,
        "not expressible in the accepted language, hence not enumerated: array_concat (unknown to the type checker; a user-level push loop stands in), range as a value (only the range of a for loop; "
        "the loop-built array stands in), `(at v j)` / array_pop / tuple access yielding a union (typed as struct), a closure as a call argument or as the element of an array returned by a call, "
        "`(f x).0` outside an array literal (typed int), field access on `(at v j)` without a typed let",
        "leak family: %d loop bodies at %d and %d calls; seeds of different cases are disjoint so that the intern table cannot hide a leak by finding an already leaked string" % (ljudged, LK[0], LK[1]),
    ]
    if total_audits < 100000 or maxreach < 8 or len(mods) < 20:
        raise common.HarnessError("vacuous exploration: audits=%d maxreach=%d modules=%d" % (total_audits, maxreach, len(mods)))
    return rep.finish()


def replay(path):
    tree = common.build_tree("asan")
    probe = tree.build_probe(PROBE, "heap_probe")
    _ST.update({"virt": tree.exe("nano_virt"), "probe": probe})
    work = os.path.join(common.scratch(), "replay")
    os.makedirs(work, exist_ok=True)
    bad = False
    if os.path.exists(os.path.join(path, "program.nano")):
        _s, out, rc, msg = _compile((os.path.join(path, "program.nano"), os.path.join(work, "p.nvm")))
        if rc != 0:
            print("program no longer compiles:", msg); return 2
        shaped = os.path.exists(os.path.join(path, "expected.txt"))
        files, rc, o, e = _probe(("auditout" if shaped else "audit", 3000000, [out]))
        print(o[-3000:]); print(e[-3000:])
        res, fails, crashes = parse(o)
        bad = bool(fails or crashes)
        if shaped:      # value-shape case: what it printed against what it must print
            got = [l for l in _read(out + ".out").split("\n")]
            want = open(os.path.join(path, "expected.txt")).read().split("\n")
            while got and got[-1] == "":
                got.pop()
            while want and want[-1] == "":
                want.pop()
            if got != want:
                print("printed:", got); print("must print:", want)
                bad = True
    else:
        import glob
        progs = sorted(glob.glob(os.path.join(path, "program_K*.nano")), key=lambda q: int(re.search(r"_K(\d+)", q).group(1)))
        peaks, finals = [], []
        for q in progs:
            _s, out, rc, msg = _compile((q, os.path.join(work, os.path.basename(q)[:-5] + ".nvm")))
            files, rc, o, e = _probe(("live", 400000000, [out]))
            print(o[-500:])
            res, _f, crashes = parse(o)
            peaks.append(res[out]["peak"] if out in res else -1)
            finals.append(res[out]["final"] if out in res else -1)
        bad = len(progs) != 2 or peaks[1] > peaks[0] or finals[1] > finals[0] or -1 in peaks
    if bad:
        print("VIOLATION property=C14 replay=%s" % path)
        return 1
    print("not reproduced")
    return 0
