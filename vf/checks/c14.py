"""C14  The VM heap never frees or loses count of an object that is still referenced.

Explicit-state exploration of the real VM: every program of the enumeration is compiled by the tree's
own nano_virt and executed by the tree's own vm_core_execute (ASan+UBSan build) with the verification
seam H1 installed; at EVERY instruction boundary of EVERY run heap_probe walks the object graph from
the roots and checks  allocated(o)  and  ref_count(o) >= indegree(o)  for every reachable object
(vf/probes/heap_probe.c).  A double release / use after free inside the VM is an ASan abort.

Enumerated:
  H  heap operation sequences: all sequences (length <= L) over an alphabet of ~36 statements acting on a
     fixed set of live variables (string, two array<string> that may alias, array<array<string>>, struct
     holding an array and a string, tuple, union, closure capturing an array and a string, hashmap,
     global array) - aliasing, storing into containers, overwriting while aliased, returning through
     frames, early return out of nested scopes with live locals.
  A/D/F/S  the aliasing / data / function / statement layers of the shared program enumerator.
  churn  every statement and every ordered pair of statements as a loop body whose values die each
     iteration, run with K=64 and K=512 iterations: the peak number of live objects must not grow.
"""
import itertools
import os
import re

from .. import common, langrun
from . import langcommon

PROBE = os.path.join(common.VERIF, "vf/probes/heap_probe.c")

# ----------------------------------------------------------------------------- layer H
PRELUDE = '''struct Box { xs: array<string>, name: string }
struct Outer { b: Box, tag: int }
union Res { Ok { v: string }, Err { code: int, msg: string } }
let mut G: array<string> = []
fn ident(b: Box) -> Box { return b }
fn ida(v: array<string>) -> array<string> { return v }
fn ida3(v: array<string>) -> array<string> { return (ida (ida v)) }
fn mk(s: string) -> array<string> {
    let v: array<string> = [s, (+ s "!")]
    return (ida v)
}
fn mkbox(v: array<string>, s: string) -> Box { return Box { xs: v, name: s } }
fn poke(v: array<string>, s: string) -> int {
    if (> (array_length v) 0) { (array_set v 0 s) } else {}
    return (array_length v)
}
fn grow(v: array<string>, s: string) -> array<string> {
    let mut w: array<string> = v
    set w (array_push w s)
    return w
}
fn getter(arr: array<string>, s: string) -> fn(int) -> int {
    fn get(i: int) -> int {
        if (< i (array_length arr)) { return (+ (str_length (at arr i)) (str_length s)) } else {}
        return (str_length s)
    }
    return get
}
fn up(s: string) -> string { return (+ s "u") }
fn longer(s: string) -> bool { return (> (str_length s) 1) }
fn early(s: string, n: int) -> int {
    let v: array<string> = [s, (+ s "e")]
    if (> n 0) {
        let w: array<string> = [(at v 1)]
        for i in (range 0 3) {
            let z: string = (+ (at w 0) (int_to_string i))
            if (== i n) { return (str_length z) } else {}
        }
        return 1
    } else {}
    return 0
}
fn unwrap(r: Res) -> string {
    match r {
        Ok(x) => { return x.v }
        Err(e) => { return e.msg }
    }
    return ""
}
'''

DECLS = '''    let mut s: string = (+ "s" (int_to_string k))
    let mut a: array<string> = ["p", s]
    let mut b: array<string> = a
    let mut n: array<array<string>> = [a]
    let mut bx: Box = Box { xs: a, name: s }
    let mut bs: array<Box> = [bx]
    let mut o: Outer = Outer { b: bx, tag: k }
    let mut t: (string, array<string>) = (s, a)
    let mut r: Res = Res.Ok { v: s }
    let mut f: fn(int) -> int = (getter a s)
    let hm: HashMap<string, string> = (map_new)
    let mut c: int = 0
'''

OBS = '''    (println s)
    (println (array_length a))
    (println (array_length b))
    (println (array_length n))
    (println bx.name)
    (println (array_length bx.xs))
    (println o.b.name)
    (println (array_length bs))
    (println t.0)
    (println (array_length t.1))
    (println (unwrap r))
    (println (f 0))
    (println (map_size hm))
    (println (array_length G))
    (println c)
'''

# name -> (statement text, accumulates-by-design?)
OPS = {
    "push_s":    ('set a (array_push a s)', True),
    "push_new":  ('set a (array_push a (+ s "x"))', True),
    "alias":     ('set b a', False),
    "renew":     ('set a ["n", s]', False),
    "relit":     ('set a []', False),
    "set_cat":   ('if (> (array_length a) 0) { (array_set a 0 (+ (at a 0) "y")) } else {}', False),
    "set_dup":   ('if (> (array_length a) 0) { (array_set a 0 (at a (- (array_length a) 1))) } else {}', False),
    "pop":       ('if (> (array_length a) 0) { set s (array_pop a) } else {}', False),
    "remove0":   ('if (> (array_length a) 0) { (array_remove_at a 0) } else {}', False),
    "slice":     ('if (> (array_length a) 0) { set b (array_slice a 0 1) } else {}', False),
    "slice_tl":  ('if (> (array_length a) 1) { set b (array_slice a 1 (array_length a)) } else {}', False),
    "slice_all": ('set b (array_slice a 0 (array_length a))', False),
    "slice_mid": ('if (> (array_length a) 2) { set a (array_slice a 1 2) } else {}', False),
    "slice_e":   ('set b (array_slice a (array_length a) (array_length a))', False),
    "set_last":  ('if (> (array_length a) 1) { (array_set a (- (array_length a) 1) (+ (at a 0) "l")) } else {}', False),
    "rm_last":   ('if (> (array_length a) 1) { (array_remove_at a (- (array_length a) 1)) } else {}', False),
    "rm_b":      ('if (> (array_length b) 1) { (array_remove_at b 1) } else {}', False),
    "pop_b":     ('if (> (array_length b) 0) { set s (array_pop b) } else {}', False),
    "n_set":     ('if (> (array_length n) 0) { (array_set n 0 b) } else {}', False),
    "n_pop":     ('if (> (array_length n) 0) { set a (array_pop n) } else {}', False),
    "n_rm":      ('if (> (array_length n) 0) { (array_remove_at n 0) } else {}', False),
    "n_slice":   ('if (> (array_length n) 1) { set n (array_slice n 1 (array_length n)) } else {}', False),
    "bs_push":   ('set bs (array_push bs bx)', True),
    "bs_get":    ('if (> (array_length bs) 0) { set bx (at bs 0) } else {}', False),
    "bs_set":    ('if (> (array_length bs) 0) { (array_set bs 0 (mkbox a s)) } else {}', False),
    "bs_pop":    ('if (> (array_length bs) 0) { set bx (array_pop bs) } else {}', False),
    "bs_renew":  ('set bs [bx, (mkbox b "w")]', False),
    "n_push":    ('set n (array_push n a)', True),
    "n_get":     ('if (> (array_length n) 0) { set b (at n 0) } else {}', False),
    "n_renew":   ('set n [b, a]', False),
    "box":       ('set bx Box { xs: a, name: s }', False),
    "box_fn":    ('set bx (mkbox b (+ s "k"))', False),
    "box_id":    ('set bx (ident bx)', False),
    "box_xs":    ('set a bx.xs', False),
    "box_name":  ('set s bx.name', False),
    "outer":     ('set o Outer { b: bx, tag: 2 }', False),
    "outer_get": ('set bx o.b', False),
    "tup":       ('set t (s, a)', False),
    "tup_get":   ('set a t.1\n    set s t.0', False),
    "un_ok":     ('set r Res.Ok { v: s }', False),
    "un_err":    ('set r Res.Err { code: 1, msg: (+ s "m") }', False),
    "un_get":    ('set s (unwrap r)', False),
    "clo":       ('set f (getter a s)', False),
    "clo_call":  ('set c (+ c (f 0))', False),
    "hm_put":    ('(map_put hm "k" s)', False),
    "hm_put2":   ('(map_put hm s (+ s "v"))', True),
    "hm_get":    ('if (map_has hm "k") { set s (map_get hm "k") } else {}', False),
    "g_set":     ('set G a', False),
    "g_get":     ('set a G', False),
    "mapf":      ('set a (map a up)', False),
    "filt":      ('set b (filter a longer)', False),
    "substr":    ('if (> (str_length s) 1) { set s (str_substring s 0 1) } else {}', False),
    "cat":       ('set s (+ s "c")', False),
    "mk":        ('set a (mk s)', False),
    "id3":       ('set b (ida3 a)', False),
    "poke":      ('set c (+ c (poke a (+ s "p")))', False),
    "grow":      ('set b (grow a s)', True),
    "early":     ('set c (+ c (early s 1))', False),
    "early0":    ('set c (+ c (early s 0))', False),
}
CORE = ["push_new", "alias", "renew", "set_dup", "pop", "remove0", "box", "box_xs", "tup", "clo", "g_set", "mk", "slice_tl", "n_push", "bs_get"]


def h_function(name, seq):
    body = "".join("    %s\n" % OPS[o][0] for o in seq)
    return "fn %s(k: int) -> int {\n%s%s%s    return c\n}\nshadow %s { assert true }\n" % (name, DECLS, body, OBS, name)


def h_sequences(tier):
    names = list(OPS)
    seqs = [(x,) for x in names] + list(itertools.product(names, repeat=2))
    if tier == "quick":
        seqs += list(itertools.product(CORE, repeat=3))
    else:
        seqs += list(itertools.product(names, repeat=3))
        seqs += list(itertools.product(CORE[:9], repeat=4))
    return seqs


def h_program(seqs, base):
    out = [PRELUDE]
    calls = []
    for i, sq in enumerate(seqs):
        nm = "h%d" % (base + i)
        out.append(h_function(nm, sq))
        calls.append('    (println "@@%s")\n    (println (%s %d))\n' % (nm, nm, (base + i) % 7))
    out.append("fn main() -> int {\n%s    return 0\n}\nshadow main { assert true }\n" % "".join(calls))
    return "".join(out)


def churn_program(seq, K):
    """loop body: fresh string, fresh array (everything of the previous iteration dies), then the statements"""
    body = "".join("        %s\n" % OPS[o][0].replace("\n    ", "\n        ") for o in seq)
    return (PRELUDE + "fn work(k: int, iters: int) -> int {\n" + DECLS +
            "    for i in (range 0 iters) {\n"
            '        set s (+ "v" (int_to_string i))\n'
            '        set a [s, "q"]\n'
            "        set b a\n"
            "        set n [a]\n"
            "        set bs [bx]\n"
            + body +
            "    }\n" + OBS + "    return c\n}\nshadow work { assert true }\n"
            "fn main() -> int {\n    (println (work 1 %d))\n    return 0\n}\nshadow main { assert true }\n" % K)


# ----------------------------------------------------------------------------- running
_ST = {}


def _compile(args):
    src, out = args
    rc, o, e = common.run([_ST["virt"], src, "--emit-nvm", "-o", out], timeout=300)
    return (src, out, rc, (o + e)[-1500:].decode(errors="replace"))


def _probe(args):
    mode, fuel, files = args
    rc, o, e = common.run([_ST["probe"], mode, str(fuel)] + files, timeout=1800)
    return (files, rc, o.decode(errors="replace"), e.decode(errors="replace"))


RES = re.compile(r"^RES (\S+) rc=(-?\d+) steps=(\d+) audits=(\d+) maxreach=(\d+) peak_live=(\d+) final_live=(\d+) fuel_out=(\d) fails=(\d+)")


def parse(out):
    res, fails, crashes = {}, {}, {}
    for l in out.splitlines():
        m = RES.match(l)
        if m:
            res[m.group(1)] = dict(rc=int(m.group(2)), steps=int(m.group(3)), audits=int(m.group(4)), maxreach=int(m.group(5)),
                                   peak=int(m.group(6)), final=int(m.group(7)), fuel_out=int(m.group(8)), fails=int(m.group(9)))
        elif l.startswith("FAIL "):
            fails.setdefault(l.split()[1], []).append(l)
        elif l.startswith("CRASH ") or l.startswith("LOADFAIL "):
            crashes[l.split()[1]] = l
    return res, fails, crashes


def asan_summary(err):
    m = re.search(r"ERROR: AddressSanitizer: (\S+)", err)
    fr = re.findall(r"#\d+ 0x[0-9a-f]+ in (\w+)", err)
    return "%s in %s" % (m.group(1) if m else "abort", " <- ".join(fr[:4]))


def run(tier):
    rep = common.Report("C14", tier)
    rep.set_deadline(1500 if tier == "quick" else 7200)
    tree = common.build_tree("asan")
    probe = tree.build_probe(PROBE, "heap_probe")
    _ST.update({"virt": tree.exe("nano_virt"), "probe": probe})
    work = os.path.join(common.scratch(), "c14")
    os.makedirs(work, exist_ok=True)
    fuel = 3000000

    # ---- programs: layer H batches (one function per sequence) + shared enumerator layers
    seqs = h_sequences(tier)
    HB = 120
    jobs = []
    srcinfo = {}
    for bi in range(0, len(seqs), HB):
        p = os.path.join(work, "h%05d.nano" % bi)
        with open(p, "w") as f:
            f.write(h_program(seqs[bi:bi + HB], bi))
        jobs.append((p, p[:-5] + ".nvm"))
        srcinfo[p[:-5] + ".nvm"] = ("H", seqs[bi:bi + HB], bi)
    cases = langcommon.all_cases(tier, ["layer_A", "layer_D", "layer_F", "layer_S"])
    LB = 40
    for bi in range(0, len(cases), LB):
        p = os.path.join(work, "l%05d.nano" % bi)
        with open(p, "w") as f:
            f.write(langrun.source_of(cases[bi:bi + LB]))
        jobs.append((p, p[:-5] + ".nvm"))
        srcinfo[p[:-5] + ".nvm"] = ("L", cases[bi:bi + LB], bi)

    def compile_all(jobs):
        ok = []
        for src, out, rc, msg in common.pmap(_compile, jobs, chunksize=2):
            if rc == 0 and os.path.exists(out):
                ok.append(out)
            else:
                kind, items, bi = srcinfo[out]
                if kind == "H":
                    raise common.HarnessError("layer H program does not compile (%s): %s" % (src, msg))
                # enumerator batch holding a case the front end refuses (C02's known finding): split it
                if len(items) == 1:
                    rep.count("cases_not_accepted_by_front_end")
                    continue
                sub = []
                for j, c in enumerate(items):
                    p = "%s_%d.nano" % (src[:-5], j)
                    with open(p, "w") as f:
                        f.write(langrun.source_of([c]))
                    srcinfo[p[:-5] + ".nvm"] = ("L", [c], bi + j)
                    sub.append((p, p[:-5] + ".nvm"))
                ok += compile_all(sub)
        return ok

    mods = compile_all(jobs)
    common.log("compiled %d modules (%d H sequences, %d enumerator cases)" % (len(mods), len(seqs), len(cases)))

    chunks = [("audit", fuel, mods[i:i + 4]) for i in range(0, len(mods), 4)]
    total_steps = total_audits = 0
    maxreach = 0
    nprog = 0
    for files, rc, out, err in common.pimap(_probe, chunks):
        res, fails, crashes = parse(out)
        for f in files:
            kind, items, bi = srcinfo[f]
            nprog += len(items)
            src = open(f[:-4] + ".nano").read()
            if f in crashes or f not in res:
                # re-run alone to get this module's own sanitizer report (and prove it is reproducible)
                r1 = _probe(("audit", fuel, [f]))
                r2 = _probe(("audit", fuel, [f]))
                c1, c2 = parse(r1[2])[2], parse(r2[2])[2]
                if (f in c1) != (f in c2):
                    raise common.HarnessError("non-deterministic crash for %s" % f)
                if f in c1:
                    sig = asan_summary(r1[3])
                    pre = parse(r1[2])[1].get(f, [])
                    if pre:        # the audit saw the broken invariant before the run died: say where
                        sig += "; first audit failure: " + pre[0].split(" ", 2)[2][:300]
                    rep.violation("crash:" + re.sub(r"\d+", "N", sig)[:160], {"program.nano": src, "module.nvm": open(f, "rb").read(), "stderr.txt": r1[3][-20000:], "stdout.txt": r1[2][-4000:]},
                                  "VM run aborted (%s): %s" % (crashes.get(f, "no result"), sig),
                                  "# build /repo with clang -fsanitize=address -DNANOLANG_VERIF, then: bin/nano_virt program.nano --run")
                continue
            r = res[f]
            total_steps += r["steps"]; total_audits += r["audits"]; maxreach = max(maxreach, r["maxreach"])
            if r["fuel_out"]:
                raise common.HarnessError("fuel exhausted on %s" % f)
            if r["rc"] != 0:
                raise common.HarnessError("enumerated program fails at run time (rc=%d): %s" % (r["rc"], f))
            if f in fails:
                first = fails[f][0]
                m = re.search(r"fn=(\S+) ip=\d+ kind=(\S+) (.*)", first)
                fn, kind2, detail = m.groups() if m else ("?", "?", first)
                what = ""
                if kind == "H" and re.match(r"h\d+$", fn):
                    what = " sequence=" + "/".join(items[int(fn[1:]) - bi])
                key = "audit:%s:%s" % (kind2, re.sub(r"\d+", "N", detail)[:80])
                rep.violation(key, {"program.nano": src, "module.nvm": open(f, "rb").read(), "fails.txt": "\n".join(fails[f]) + "\n"},
                              "heap invariant broken (%s) in %s%s: %s" % (kind2, fn, what, detail),
                              "# asan build with -DNANOLANG_VERIF; heap_probe audit 3000000 module.nvm (vf/probes/heap_probe.c)")
    rep.count("states", nprog)
    rep.count("transitions", total_steps)
    rep.count("traces_validated_against_impl", len(mods))
    rep.coverage["heap_audits_at_instruction_boundaries"] = total_audits
    rep.coverage["max_reachable_objects_in_one_audit"] = maxreach
    rep.coverage["heap_op_sequences"] = len(seqs)
    rep.coverage["enumerator_cases"] = len(cases)
    rep.sample({"heap_op_sequence": list(seqs[len(seqs) // 2]), "statements": [OPS[o][0] for o in seqs[len(seqs) // 2]]})
    rep.sample({"heap_op_sequence": list(seqs[-1])})

    # ---- churn family
    names = [o for o in OPS if not OPS[o][1]]
    cseqs = [(x,) for x in names] + (list(itertools.product(names, repeat=2)) if tier != "quick" else [(x, y) for x in names for y in CORE if not OPS[y][1]])
    cjobs = []
    for i, sq in enumerate(cseqs):
        for K in (64, 512):
            p = os.path.join(work, "c%05d_%d.nano" % (i, K))
            with open(p, "w") as f:
                f.write(churn_program(sq, K))
            cjobs.append((p, p[:-5] + ".nvm"))
    cm = []
    for src, out, rc, msg in common.pmap(_compile, cjobs, chunksize=4):
        if rc != 0:
            raise common.HarnessError("churn program does not compile (%s): %s" % (src, msg))
        cm.append(out)
    live = {}
    for files, rc, out, err in common.pimap(_probe, [("live", 50000000, cm[i:i + 16]) for i in range(0, len(cm), 16)]):
        res, _f, crashes = parse(out)
        for f in files:
            if f in crashes or f not in res or res[f]["rc"] != 0 or res[f]["fuel_out"]:
                r1 = _probe(("live", 50000000, [f]))
                rep.violation("churn-crash:" + asan_summary(r1[3]), {"program.nano": open(f[:-4] + ".nano").read(), "stderr.txt": r1[3][-20000:], "stdout.txt": r1[2][-2000:]},
                              "churn program aborted or failed: %s" % (crashes.get(f) or res.get(f)))
                continue
            live[f] = res[f]
    grew = 0
    bad_single = set()
    for i, sq in enumerate(cseqs):
        f64 = os.path.join(work, "c%05d_64.nvm" % i)
        f512 = os.path.join(work, "c%05d_512.nvm" % i)
        if f64 not in live or f512 not in live:
            continue
        rep.count("transitions", live[f64]["steps"] + live[f512]["steps"])
        p64, p512 = live[f64]["peak"], live[f512]["peak"]
        if p512 > p64:
            grew += 1
            culprit = "/".join(sq)
            # singles come first in cseqs: a pair containing a statement that already grows alone is the same cause
            if len(sq) == 2 and any(o in bad_single for o in sq):
                continue
            if len(sq) == 1:
                bad_single.add(sq[0])
            key = "churn:" + culprit
            rep.violation(key, {"program_K64.nano": churn_program(sq, 64), "program_K512.nano": churn_program(sq, 512)},
                          "live objects grow with the iteration count although every value dies each iteration: loop body %s: peak live objects %d after 64 iterations, %d after 512" % (culprit, p64, p512),
                          "# heap_probe live 50000000 <module compiled from program_K64.nano / program_K512.nano>; compare peak_live")
    rep.count("states", len(cseqs))
    rep.coverage["churn_loop_bodies"] = len(cseqs)
    rep.coverage["churn_bodies_growing"] = grew
    rep.sample({"churn_body": [OPS[o][0] for o in cseqs[len(cseqs) // 3]], "iterations": [64, 512]})
    rep.assumptions += [
        "roots: operand stack [0,stack_size), globals, frame closures; containers: array elements, struct fields and field names, union fields, tuple elements, closure captures, hashmap entries; the intern table is weak",
        "freed memory is recognised through AddressSanitizer poisoning (quarantine default 256 MB, far above what these programs allocate)",
        "audit at every instruction boundary (hook H1); states inside one instruction are not instruction boundaries",
        "heap op alphabet of %d statements, sequences <= %s; enumerator layers A/D/F/S; churn: %d loop bodies at 64 and 512 iterations" % (len(OPS), "2 (+3 over a 12-statement core)" if tier == "quick" else "3 (+4 over a 9-statement core)", len(cseqs)),
    ]
    if total_audits < 100000 or maxreach < 8 or len(mods) < 20:
        raise common.HarnessError("vacuous exploration: audits=%d maxreach=%d modules=%d" % (total_audits, maxreach, len(mods)))
    return rep.finish()


def replay(path):
    tree = common.build_tree("asan")
    probe = tree.build_probe(PROBE, "heap_probe")
    _ST.update({"virt": tree.exe("nano_virt"), "probe": probe})
    work = os.path.join(common.scratch(), "replay")
    os.makedirs(work, exist_ok=True)
    bad = False
    if os.path.exists(os.path.join(path, "program.nano")):
        _s, out, rc, msg = _compile((os.path.join(path, "program.nano"), os.path.join(work, "p.nvm")))
        if rc != 0:
            print("program no longer compiles:", msg); return 2
        files, rc, o, e = _probe(("audit", 3000000, [out]))
        print(o[-3000:]); print(e[-3000:])
        res, fails, crashes = parse(o)
        bad = bool(fails or crashes)
    else:
        peaks = []
        for K in (64, 512):
            _s, out, rc, msg = _compile((os.path.join(path, "program_K%d.nano" % K), os.path.join(work, "c%d.nvm" % K)))
            files, rc, o, e = _probe(("live", 50000000, [out]))
            print(o[-500:])
            res, _f, crashes = parse(o)
            peaks.append(res[out]["peak"] if out in res else -1)
        bad = peaks[1] > peaks[0] or -1 in peaks
    if bad:
        print("VIOLATION property=C14 replay=%s" % path)
        return 1
    print("not reproduced")
    return 0
