"""C16  A failing FFI co-process is contained by the VM.

Fault enumeration on the real `bin/nano_vm --isolate-ffi`: a scripted stand-in co-process
(vf/probes/fake_cop.c, installed as `nano_cop` first on PATH) relays every message to the real
nano_cop until its scripted protocol step and then injects exactly one fault.  The complete product
(protocol step x request number k x fault x behaviour after the fault) is run for every victim
program; the thorough tier adds the sanitizer build for all victims and all 2-fault sequences
(fault in the first co-process, second fault in the relaunched one).

Oracle (from the property text, nothing more): nano_vm is not killed by a signal, ends within the
time bound, its exit status is the fault-free status with the complete fault-free output
(recovered) or 1 with a diagnostic on stderr and a stdout that is the fault-free stdout cut at a line
boundary not before the faulted call; no sanitizer report; and no live descendant outlives it
(the runner is a child sub-reaper, orphans are found through /proc).

Not enumerated, on purpose: a co-process that simply never answers while the VM legitimately waits
for it (the VM has no timeout and the property does not list it), a co-process that resists SIGTERM,
and well-formed replies with a wrong *value* or duplicated well-formed replies (the protocol has no
sequence numbers; the property's fault list is about failing/garbled peers, not lying ones).
"""
import ctypes
import fnmatch
import json
import os
import resource
import shutil
import signal
import subprocess
import time

from .. import common

K = 3                       # extern calls per victim
SEQ_VICTIMS = ("A",)        # victims on which 2-fault sequences are run (thorough tier)
SEQ_LINGER_MS = 200         # close_stdin/close_both keep running this long in 2-fault sequences
RUN_TIMEOUT = 10            # seconds; a run that exceeds it is repeated alone with HANG_TIMEOUT
HANG_TIMEOUT = 60
GRACE_S = 0.3               # a descendant alive this long after nano_vm exited is "slow"
REMAIN_S = 3.0              # ... and alive this long is "remains"

# ----------------------------------------------------------------------------- victims
VICTIM_A = '''fn main() -> int {
    (println "A-start")
    let a: int = (bstr_utf8_char_at "hello-coprocess" 6)
    (println a)
    let s: string = (string_from_char 90)
    (println s)
    let b: int = (char_to_lower 65)
    (println b)
    (println "A-end")
    return 0
}
shadow main { assert true }
'''
VICTIM_B = '''fn main() -> int {
    (println "B-start")
    let mut i: int = 0
    let mut t: int = 0
    while (< i 3) {
        let c: int = (char_to_upper (+ 97 i))
        (println c)
        set t (+ t c)
        set i (+ i 1)
    }
    (println "B-end")
    return (- t 156)
}
shadow main { assert true }
'''
VICTIM_C = '''fn main() -> int {
    (println "C-start")
    let arr: array<int> = (bytes_from_string "xyz")
    (println (array_length arr))
    let d: bool = (is_digit 55)
    (println d)
    let s: string = (+ (string_from_char 81) "-tail")
    (println s)
    (println (str_length s))
    (println "C-end")
    return 0
}
shadow main { assert true }
'''


def victim_d():
    """Victim A plus enough string constants that the INIT message (the serialized module) cannot fit
    into the pipe: the VM is still inside write(INIT) when the co-process fails."""
    lines = ['fn main() -> int {', '    (println "D-start")', '    let mut n: int = 0']
    for i in range(40):
        lines.append('    set n (+ n (str_length "%s"))' % (("pad%02d-" % i) + "x" * 5000))
    lines += ['    (println n)', '    let b: int = (char_to_lower 65)', '    (println b)',
              '    let c: int = (char_to_upper 98)', '    (println c)', '    let d: int = (char_to_lower 67)',
              '    (println d)', '    (println "D-end")', '    return 0', '}', 'shadow main { assert true }', '']
    return "\n".join(lines)


# name -> (source, fault-free exit status, number of stdout lines printed before extern call j (j = 1..K), total lines)
VICTIMS = {
    "A": (VICTIM_A, 0, [1, 2, 3], 5),        # (string,int)->int ; int->string ; int->int ; straight line
    "B": (VICTIM_B, 42, [1, 2, 3], 5),       # extern call inside a loop, status computed from the results
    "C": (VICTIM_C, 0, [1, 2, 3], 6),        # results are heap values: array, bool, string
    "D": (None, 0, [2, 3, 4], 6),            # INIT larger than the pipe
}

# ----------------------------------------------------------------------------- the fault alphabet
PROC_FAULTS = ["exit0", "exit1", "sigkill", "sigsegv", "close_stdin", "close_stdout", "close_both"]
K_STEPS = ["req_hdr", "req_full", "pre_reply", "mid_hdr", "mid_half", "post_reply"]
ALL3 = ("exit", "serve", "linger")
EXSV = ("exit", "serve")
# (fault, replaces READY?, replaces a reply?, behaviours afterwards)
# `linger` (a wedged but SIGTERM-able co-process) only after messages that no VM can take for a good
# one, so that a VM still waiting for that peer would not be the excluded "never answers" case.
MSG_FAULTS = (
    [("short_hdr_%d" % n, True, True, ALL3) for n in range(1, 8)] +
    [("version_0", True, True, ALL3), ("version_2", True, True, ALL3), ("version_255", True, True, ALL3),
     ("type_7f", True, True, ALL3), ("type_1", True, True, ALL3), ("type_3", True, True, ALL3),
     ("type_swapped", True, True, ALL3),
     ("reserved_ffff", True, True, EXSV),
     ("len_max_plus1", True, True, ALL3), ("len_ffffffff", True, True, ALL3),
     ("len_max_short", False, True, ALL3), ("short_payload", False, True, ALL3),
     ("long_payload", False, True, EXSV),
     ("ready_payload", True, False, EXSV), ("ready_twice", True, False, EXSV),
     ("garbage8", True, True, ALL3), ("garbage_text", True, True, ALL3),
     ("err_0", False, True, EXSV), ("err_255", False, True, EXSV), ("err_256", False, True, EXSV),
     ("err_4096", False, True, EXSV), ("err_70000", True, True, EXSV), ("err_over_max", False, True, ALL3),
     ("val_int_trunc", False, True, ALL3), ("val_str_len_ffffffff", False, True, ALL3),
     ("val_str_len_fffffffb", False, True, ALL3),
     ("val_str_len_7fffffff", False, True, ALL3), ("val_str_len_plus1", False, True, ALL3), ("val_big_str_over", False, True, ALL3),
     ("val_str_no_len", False, True, ALL3), ("val_arr_count_ffffffff", False, True, ALL3),
     ("val_arr_count_ffffffff_one", False, True, ALL3), ("val_arr_count_short", False, True, ALL3),
     ("val_arr_no_count", False, True, ALL3), ("val_nested_trunc", False, True, ALL3),
     ("val_bad_tag", False, True, EXSV), ("val_unsupported_tag", False, True, EXSV), ("val_empty", False, True, EXSV),
     ("val_wrong_type", False, True, EXSV), ("val_wrong_type2", False, True, EXSV)] +
    # undecodable reply x reply size (the VM picks its receive buffer by size: stack, heap, mmap-sized heap)
    [("val_badsized_%d" % n, False, True, EXSV) for n in (64, 8191, 8192, 8193, 20000, 131072, 1048576, 4000000)] +
    # nesting depth of an (undecodable) array reply: the decoder recurses once per level
    [("val_nest_%d" % n, False, True, EXSV) for n in (2, 100, 10000, 300000, 2000000)])


def one_fault_cells(victim, reply_tags=None):
    """Every (step, k, fault, after) of the 1-fault product for one victim.  `reply_tags` = wire tag
    of the fault-free reply to request k (from the relay control run)."""
    cells = []
    for f in PROC_FAULTS:
        cells.append(("pre_ready", 0, f, "-"))
        cells.append(("post_ready", 0, f, "-"))
        for s in K_STEPS:
            for k in range(1, K + 1):
                cells.append((s, k, f, "-"))
    for f, at_ready, at_reply, afters in MSG_FAULTS:
        for a in afters:
            if at_ready:
                cells.append(("pre_ready", 0, f, a))
            if at_reply:
                for k in range(1, K + 1):
                    if f == "val_empty" and reply_tags and reply_tags[k - 1] in NULLABLE_TAGS:
                        # an empty RESULT is how "no value" looks; for a call that returns a string or an
                        # array that is a legal reply (NULL) with a wrong value, not a garbled one
                        continue
                    cells.append(("pre_reply", k, f, a))
    if victim == "D":
        # the one step that needs the big INIT; close_stdout would leave the VM blocked in write() for
        # ever against a peer that neither reads nor dies = the excluded "never answers" case
        cells = [("init_unread", 0, f, "-") for f in PROC_FAULTS if f != "close_stdout"] + \
                [c for c in cells if c[2] in PROC_FAULTS and c[0] in ("pre_ready", "post_ready")]
    return cells


NULLABLE_TAGS = (0x00, 0x05, 0x07)      # TAG_VOID, TAG_STRING, TAG_ARRAY (src/nanoisa/isa.h)


def script_of(cells):
    return ";".join("%s,%d,%s,%s" % c if c else "" for c in cells)


# ----------------------------------------------------------------------------- running one case
_subreaper_pid = None
_case_no = 0


def _become_subreaper():
    global _subreaper_pid
    if _subreaper_pid == os.getpid():
        return
    libc = ctypes.CDLL(None, use_errno=True)
    if libc.prctl(36, 1, 0, 0, 0) != 0:          # PR_SET_CHILD_SUBREAPER
        raise common.HarnessError("prctl(PR_SET_CHILD_SUBREAPER) failed")
    _subreaper_pid = os.getpid()


def _proc_table():
    """pid -> (ppid, state, comm) for every process visible in /proc."""
    tab = {}
    for d in os.listdir("/proc"):
        if not d.isdigit():
            continue
        try:
            with open("/proc/%s/stat" % d, "rb") as f:
                s = f.read().decode(errors="replace")
        except OSError:
            continue
        rp = s.rfind(")")
        rest = s[rp + 2:].split()
        if len(rest) < 2:
            continue
        tab[int(d)] = (int(rest[1]), rest[0], s[s.find("(") + 1:rp])
    return tab


def _descendants(exclude=()):
    """(pid, state, comm) of all descendants of this process (children are reaped if already dead)."""
    me = os.getpid()
    tab = _proc_table()
    kids = {}
    for pid, (ppid, _st, _c) in tab.items():
        kids.setdefault(ppid, []).append(pid)
    out, todo = [], list(kids.get(me, []))
    while todo:
        p = todo.pop()
        if p in exclude:
            continue
        out.append((p, tab[p][1], tab[p][2]))
        todo += kids.get(p, [])
    live = []
    for p, st, comm in out:
        if st in ("Z", "X"):
            if tab[p][0] == me:
                try:
                    os.waitpid(p, os.WNOHANG)
                except ChildProcessError:
                    pass
        else:
            live.append((p, st, comm))
    return live


def _preexec():
    resource.setrlimit(resource.RLIMIT_CORE, (0, 0))


def run_case(ctx, victim, cells, timeout=RUN_TIMEOUT, keep=None):
    """Run nano_vm --isolate-ffi on one victim against fake_cop scripted with `cells` (one entry per
    launch; [] = pure relay).  Returns the observation."""
    global _case_no
    _become_subreaper()
    pre = _descendants()
    if pre:                                     # never judge a case with somebody else's leftovers around
        for p, _s, _c in pre:
            try:
                os.kill(p, signal.SIGKILL)
            except ProcessLookupError:
                pass
        time.sleep(0.05)
        _descendants()
    _case_no += 1
    cdir = keep or os.path.join(ctx["work"], "case-%d-%d" % (os.getpid(), _case_no))
    if os.path.isdir(cdir):
        shutil.rmtree(cdir)
    os.makedirs(cdir)
    asan = "detect_leaks=0:allocator_may_return_null=1:abort_on_error=0:handle_segv=1"
    env = common.env({"PATH": ctx["fakebin"] + ":" + common.CLEAN_ENV["PATH"],
                      "FAKE_COP_REAL": ctx["real"], "FAKE_COP_DIR": cdir,
                      "FAKE_COP_SCRIPT": script_of(cells), "FAKE_COP_LINGER_MS": str(ctx["linger_ms"]),
                      "ASAN_OPTIONS": asan, "UBSAN_OPTIONS": "print_stacktrace=1"},
                     tmp=os.path.join(cdir, "tmp"))
    t0 = time.time()
    with open(os.path.join(cdir, "stdout"), "wb") as fo, open(os.path.join(cdir, "stderr"), "wb") as fe:
        p = subprocess.Popen([ctx["vm"], "--isolate-ffi", ctx["nvm"][victim]], stdin=subprocess.DEVNULL,
                             stdout=fo, stderr=fe, cwd=cdir, env=env, start_new_session=True, preexec_fn=_preexec)
        try:
            rc = p.wait(timeout=timeout)
        except subprocess.TimeoutExpired:
            rc = "timeout"
            try:
                os.killpg(p.pid, signal.SIGKILL)
            except ProcessLookupError:
                pass
            p.wait()
    wall = time.time() - t0
    # ---- what is left behind?
    slow, remains = [], []
    t1 = time.time()
    live = _descendants()
    while live and time.time() - t1 < REMAIN_S:
        if time.time() - t1 >= GRACE_S and not slow:
            slow = list(live)
        time.sleep(0.01)
        live = _descendants()
    if live and rc != "timeout":
        remains = list(live)
    for pid, _s, _c in live:
        try:
            os.kill(pid, signal.SIGKILL)
        except ProcessLookupError:
            pass
    t2 = time.time()
    while live and time.time() - t2 < 5:
        time.sleep(0.01)
        live = _descendants()
    if live:
        raise common.HarnessError("cannot get rid of descendants %r" % (live,))

    def rd(name, cap=1 << 20):
        try:
            with open(os.path.join(cdir, name), "rb") as f:
                return f.read(cap)
        except OSError:
            return b""
    log = rd("log").decode(errors="replace").splitlines()
    obs = {"rc": rc, "stdout": rd("stdout"), "stderr": rd("stderr", 1 << 16), "wall": round(wall, 3),
           "remains": [(c, s) for _p, s, c in remains], "slow": [(c, s) for _p, s, c in slow],
           "log": log,
           "launches": sum(1 for l in log if l.startswith("LAUNCH ")),
           "injected": [tuple(l.split()[1:]) for l in log if l.startswith("INJECTED ")],
           "harness_fail": [l for l in log if "HARNESS" in l]}
    if not keep:
        shutil.rmtree(cdir, ignore_errors=True)
    return obs


# ----------------------------------------------------------------------------- judging one case
SIGNAMES = dict((int(getattr(signal, n)), n) for n in dir(signal) if n.startswith("SIG") and not n.startswith("SIG_"))
SAN_MARKS = (b"AddressSanitizer", b"runtime error:", b"UndefinedBehaviorSanitizer", b"LeakSanitizer", b"MemorySanitizer")


def faulted_call(cells, obs, reqmap):
    """Absolute index (1-based) of the extern call that the last injected fault hits; K+1 = 'at exit'."""
    if not obs["injected"]:
        return None
    launch, step, k = int(obs["injected"][-1][0]), obs["injected"][-1][1], int(obs["injected"][-1][2])
    seen = {}                                   # launch -> [absolute call index of its requests]
    for l in obs["log"]:
        if l.startswith("REQ "):
            w = l.split()
            seen.setdefault(int(w[1]), []).append(reqmap.get(w[4] if len(w) > 4 else "", None))
    prev = [a for n, lst in seen.items() if n < launch for a in lst if a]
    first = max([launch] + [a + 1 for a in prev])          # lower bound for the call that triggered this launch
    mine = [a for a in seen.get(launch, []) if a]
    if mine:
        first = max(first, mine[0])
    if step in ("pre_ready", "post_ready", "init_unread"):
        return first
    j = first + k - 1
    if step != "req_hdr" and len(seen.get(launch, [])) >= k and seen[launch][k - 1]:
        j = max(j, seen[launch][k - 1])
    return j + 1 if step == "post_reply" else j


def judge(vinfo, cells, obs, base, reqmap):
    """-> (ok, outcome class, one-line detail).  `base` = (status, stdout) of the fault-free run."""
    _src, status0, before, total = vinfo
    rc, out, err = obs["rc"], obs["stdout"], obs["stderr"]
    problems = []
    if obs["injected"] and obs["injected"][-1][3] == "val_empty":
        # (only reachable for second faults; first faults of this kind are not generated, see one_fault_cells)
        tag = [l.split()[4][:2] for l in obs["log"] if l.startswith("REPLY %s %s " % (obs["injected"][-1][0], obs["injected"][-1][2]))]
        if tag and int(tag[0], 16) in NULLABLE_TAGS:
            return True, "excluded:null-result-is-a-legal-reply", ""
    if rc == "timeout":
        return False, "hang", "nano_vm still running after %d s" % HANG_TIMEOUT
    if any(l.startswith("END ") and l.endswith("linger expired") for l in obs["log"]):
        # the wedged stand-in only gives up by itself after 20 s, as a safety net of the harness: a VM that was still
        # waiting then would wait forever for a co-process that never exits - it has to terminate it (SIGTERM)
        return False, "hang", "nano_vm kept waiting for a wedged co-process until the stand-in gave up by itself after 20 s (it never signalled it)"
    san = [m.decode() for m in SAN_MARKS if m in err]
    if san:
        kind = "sanitizer"
        for l in err.decode(errors="replace").splitlines():
            if "ERROR: AddressSanitizer:" in l:
                kind = "sanitizer:" + (l.split("AddressSanitizer:")[1].split() or ["?"])[0]
                break
            if "runtime error:" in l:
                kind = "sanitizer:ubsan " + "".join(ch for ch in l.split("runtime error:")[1] if not ch.isdigit())[:40].strip()
                break
        problems.append((kind, "sanitizer report on stderr"))
    if isinstance(rc, int) and rc < 0:
        problems.append(("signal:" + SIGNAMES.get(-rc, str(-rc)), "nano_vm killed by %s" % SIGNAMES.get(-rc, -rc)))
    j = faulted_call(cells, obs, reqmap)
    need = total if (j is None or j > K) else before[j - 1]
    base_lines = base[1].splitlines(True)
    got_lines = out.splitlines(True)
    is_prefix = base[1].startswith(out) and (out == b"" or out.endswith(b"\n"))
    if isinstance(rc, int) and rc >= 0 and not san:
        if rc == status0:
            if out != base[1]:
                problems.append(("wrong-output-status-%d" % rc, "exit status is the fault-free one but stdout differs"))
            cls = "recovered"
        elif rc == 1:
            cls = "error-exit-1"
            if not err.strip():
                problems.append(("exit-1-silent", "exit 1 without any diagnostic on stderr"))
            if not is_prefix:
                problems.append(("output-garbled", "stdout is not the fault-free stdout cut at a line boundary"))
            elif len(got_lines) < need:
                problems.append(("output-lost", "only %d of the %d lines printed before the faulted call" % (len(got_lines), need)))
        else:
            problems.append(("status:%d" % rc, "exit status %d is neither the fault-free status %d nor 1" % (rc, status0)))
            cls = "status:%d" % rc
    elif isinstance(rc, int) and rc < 0 and (not is_prefix or len(got_lines) < need):
        pass        # output lost as a consequence of the signal: one cause, reported once (the signal)
    if obs["remains"]:
        problems.append(("orphan", "still alive %.0f s after nano_vm exited: %s" % (REMAIN_S, obs["remains"])))
    if problems:
        return False, "+".join(sorted(set(p[0] for p in problems))), "; ".join(p[1] for p in problems)
    _ = base_lines
    return True, cls, ""


def signature(obs):
    """What two replays of one cell must agree on."""
    err = obs["stderr"]
    return (obs["rc"], obs["stdout"], bool(err.strip()), any(m in err for m in SAN_MARKS),
            tuple(sorted(c for c, _s in obs["remains"])), tuple(obs["injected"]), obs["launches"])


def _job(args):
    ctx, victim, cells = args
    if os.path.exists(os.path.join(ctx["work"], "ABORT")):
        # the parent has given up (harness error or deadline): drain the queue without working, so the
        # pool is shut down idle and never terminated in the middle of a case
        return (victim, cells, None, "skipped")
    try:
        obs = run_case(ctx, victim, cells)
        if obs["rc"] == "timeout":
            obs = run_case(ctx, victim, cells, timeout=HANG_TIMEOUT)
            obs["retimed"] = True
        return (victim, cells, obs, None)
    except common.HarnessError as e:
        return (victim, cells, None, str(e))


# ----------------------------------------------------------------------------- set-up
def setup(variant, linger_ms, victims, nvm_from=None):
    """Build the tree, fake_cop against its headers, and the victims.  The victims are compiled once, by
    the plain tree's compiler (`nvm_from` = its context): the property is about nano_vm, and a .nvm file
    is the same input for every build of it."""
    tree = common.build_tree(variant)
    work = os.path.join(common.scratch(), "c16-" + variant)
    fakebin = os.path.join(work, "fakebin")
    os.makedirs(fakebin, exist_ok=True)
    src = os.path.join(common.VERIF, "vf/probes/fake_cop.c")
    cmd = ["cc", "-O1", "-g", "-std=gnu99", "-Wall", "-I" + os.path.join(tree.root, "src"),
           "-I" + os.path.join(tree.root, "src/nanovm"), "-I" + os.path.join(tree.root, "src/nanoisa"),
           "-o", os.path.join(fakebin, "nano_cop"), src]
    r = subprocess.run(cmd, capture_output=True, text=True)
    if r.returncode != 0:
        raise common.HarnessError("fake_cop does not compile against the tree: " + r.stderr[-3000:])
    nvm = {}
    for v in victims:
        if nvm_from is not None:
            nvm[v] = nvm_from["nvm"][v]
            continue
        text = VICTIMS[v][0] or victim_d()
        p = os.path.join(work, "victim_%s.nano" % v)
        with open(p, "w") as f:
            f.write(text)
        rc, o, e = common.run([tree.exe("nano_virt"), p, "--emit-nvm", "-o", p[:-5] + ".nvm"], timeout=120, cwd=tree.root)
        if rc != 0:
            raise common.HarnessError("victim %s does not compile: %s" % (v, (o + e)[-1500:]))
        nvm[v] = p[:-5] + ".nvm"
    return {"variant": variant, "tree": tree.root, "vm": tree.exe("nano_vm"), "real": tree.exe("nano_cop"),
            "fakebin": fakebin, "work": work, "nvm": nvm, "linger_ms": linger_ms}


def controls(ctx, victims):
    """Fault-free reference per victim; binds fake_cop to the real protocol.  -> base, reqmap per victim."""
    base, reqmaps = {}, {}
    for v in victims:
        _src, status0, before, total = VICTIMS[v]
        cdir = os.path.join(ctx["work"], "control")
        os.makedirs(cdir, exist_ok=True)
        inproc = common.run([ctx["vm"], ctx["nvm"][v]], timeout=60, cwd=cdir)
        realcop = common.run([ctx["vm"], "--isolate-ffi", ctx["nvm"][v]], timeout=60, cwd=cdir,
                             envx={"PATH": os.path.dirname(ctx["real"]) + ":" + common.CLEAN_ENV["PATH"]})
        relay = run_case(ctx, v, [])
        obs3 = {"in-process": inproc[:2], "real nano_cop": realcop[:2], "fake_cop relay": (relay["rc"], relay["stdout"])}
        if len(set(obs3.values())) != 1 or inproc[0] != status0 or len(inproc[1].splitlines()) != total \
                or inproc[2].strip() or realcop[2].strip() or relay["stderr"].strip():
            raise common.HarnessError("fault-free control runs of victim %s disagree or are not as designed: %r / stderr %r %r %r" % (
                v, obs3, inproc[2][-300:], realcop[2][-300:], relay["stderr"][-300:]))
        reqs = [l.split() for l in relay["log"] if l.startswith("REQ ")]
        if relay["launches"] != 1 or len(reqs) != K or relay["remains"] or relay["harness_fail"] \
                or not any(l.startswith("SHUTDOWN") for l in relay["log"]):
            raise common.HarnessError("relay control of victim %s: %r" % (v, relay["log"]))
        rm = {}
        for i, w in enumerate(reqs):
            rm.setdefault(w[4], i + 1)
        if len(rm) != K:
            raise common.HarnessError("victim %s: the %d requests are not pairwise distinct" % (v, K))
        reps = [l.split() for l in relay["log"] if l.startswith("REPLY ")]
        if len(reps) != K or any(len(w) < 5 or int(w[3]) < 2 for w in reps):
            raise common.HarnessError("victim %s: every reply must carry a payload of >= 2 bytes: %r" % (v, reps))
        base[v] = (inproc[0], inproc[1])
        reqmaps[v] = dict(rm, _reply_tags=[int(w[4][:2], 16) for w in reps])
    return base, reqmaps


# ----------------------------------------------------------------------------- the check
def cell_text(variant, victim, cells):
    return "%s victim=%s %s" % (variant, victim, " then ".join("step=%s k=%d fault=%s after=%s" % c for c in cells))


def known_match(findings, cells, cls):
    for f in findings:
        for m in f.get("cells", []):
            if all(fnmatch.fnmatch(c[0], m.get("step", "*")) and fnmatch.fnmatch(c[2], m.get("fault", "*")) for c in cells[-1:]) \
                    and fnmatch.fnmatch(cls, m.get("outcome", "*")):
                return f
    return None


def run(tier):
    rep = common.Report("C16", tier, level="fault_enumeration")
    rep.set_deadline(540 if tier == "quick" else 3000)
    findings = common.load_findings("C16")
    plan = [("plain", ["A", "B", "C", "D"])]
    plan.append(("asan", ["A", "D"] if tier == "quick" else ["A", "B", "C", "D"]))
    linger_ms = 300 if tier == "quick" else 1000

    outcomes = {}
    groups = {}                 # (class, fault) -> list of (variant, victim, cells, obs, detail)
    planned = executed = injected_n = not_reached = 0
    per_variant = {}
    ctxs, bases, reqmaps = {}, {}, {}
    seq_done = False
    for variant, victims in plan:
        ctx = setup(variant, linger_ms, victims, nvm_from=ctxs.get("plain"))
        ctxs[variant] = ctx
        bases[variant], reqmaps[variant] = controls(ctx, victims)
        jobs = [(ctx, v, [c]) for v in victims for c in one_fault_cells(v, reqmaps[variant][v]["_reply_tags"])]
        stages = [("1-fault", jobs)]
        if tier == "thorough" and variant == "plain":
            stages.append(("2-fault", None))        # built from the relaunches observed in stage 1
        relaunchers = []
        for stage, sjobs in stages:
            if sjobs is None:
                sjobs = []
                ctx2 = dict(ctx, linger_ms=SEQ_LINGER_MS)
                for v, c1 in relaunchers:
                    for c2 in one_fault_cells(v):          # reply tags of the relaunched cop's k-th request are not those of call k
                        sjobs.append((ctx2, v, [c1, c2]))
                seq_done = True
                rep.coverage["two_fault_first_faults"] = len(relaunchers)
            planned += len(sjobs)
            n_stage = 0
            fatal = None

            def give_up(msg):
                with open(os.path.join(ctx["work"], "ABORT"), "w") as f:
                    f.write(msg or "deadline")
                return msg

            for victim, cells, obs, herr in common.pimap(_job, sjobs, chunksize=4):
                if fatal or herr == "skipped" or rep.exhaustive is False:
                    continue                    # draining
                if herr:
                    fatal = give_up("%s: %s" % (cell_text(variant, victim, cells), herr))
                    continue
                if obs["harness_fail"]:
                    fatal = give_up("%s: fake_cop reports %r" % (cell_text(variant, victim, cells), obs["harness_fail"]))
                    continue
                executed += 1
                n_stage += 1
                want = [(str(i + 1), c[0], str(c[1]), c[2], c[3]) for i, c in enumerate(cells)]
                inj = [tuple(x) for x in obs["injected"]]
                if inj != want[:len(inj)]:
                    fatal = give_up("%s: injected %r, scripted %r" % (cell_text(variant, victim, cells), inj, want))
                    continue
                reached = len(inj) == len(cells)
                if reached:
                    injected_n += 1
                else:
                    not_reached += 1
                    if stage == "1-fault":
                        # nothing precedes a single fault: the step must be reached, or the relay is broken
                        fatal = give_up("%s: scripted step never reached; log %r" % (cell_text(variant, victim, cells), obs["log"][-6:]))
                        continue
                ok, cls, detail = judge(VICTIMS[victim], cells, obs, bases[variant][victim], reqmaps[variant][victim])
                outcomes[cls] = outcomes.get(cls, 0) + 1
                if stage == "1-fault" and ok and obs["launches"] >= 2 and obs["rc"] == VICTIMS[victim][1] and victim in SEQ_VICTIMS:
                    relaunchers.append((victim, cells[0]))
                if reached or stage == "1-fault":
                    rep.sample({"cell": cell_text(variant, victim, cells), "outcome": cls, "exit": obs["rc"],
                                "co-process launches": obs["launches"]}, cap=6 if ok else 12)
                if not ok and reached:
                    groups.setdefault((cls, cells[-1][2], len(cells)), []).append((variant, victim, cells, obs, detail))
                if rep.out_of_time():
                    give_up(None)
            if fatal:
                raise common.HarnessError(fatal)
            per_variant["%s %s" % (variant, stage)] = n_stage
            if rep.out_of_time():
                break
        if rep.out_of_time():
            break

    # ---- violations: one artefact per (outcome class, fault), confirmed by two solitary replays
    for (cls, fault, nf), members in sorted(groups.items()):
        variant, victim, cells, obs, detail = members[0]
        kf = known_match(findings, cells, cls)
        if kf:
            for _m in members:
                rep.known_finding(kf["id"], kf["what"])
            continue
        ctx = ctxs[variant]
        r1 = run_case(ctx, victim, cells, timeout=HANG_TIMEOUT)
        r2 = run_case(ctx, victim, cells, timeout=HANG_TIMEOUT)
        if not (signature(r1) == signature(r2) == signature(obs)):
            raise common.HarnessError("%s is not reproducible: %r / %r / %r" % (
                cell_text(variant, victim, cells), signature(obs)[:1] + signature(obs)[2:], signature(r1)[:1] + signature(r1)[2:],
                signature(r2)[:1] + signature(r2)[2:]))
        where = sorted(set("%s:%s k=%d%s" % (m[0], m[2][-1][0], m[2][-1][1], (" after=" + m[2][-1][3]) if m[2][-1][3] != "-" else "") for m in members))
        summary = ("fault=%s%s -> %s in %d cell(s) (%s); e.g. %s: exit=%s, %s\nall cells:\n%s" % (
            fault, " (second fault of a sequence)" if nf > 1 else "", cls, len(members),
            ", ".join(where[:6]) + (" ..." if len(where) > 6 else ""),
            cell_text(variant, victim, cells), obs["rc"], detail,
            "\n".join(cell_text(m[0], m[1], m[2]) for m in members)))
        files = {"cell.json": json.dumps({"variant": variant, "victim": victim, "cells": cells, "class": cls,
                                          "linger_ms": linger_ms}, indent=1) + "\n",
                 "victim.nano": VICTIMS[victim][0] or victim_d(),
                 "stdout.observed": obs["stdout"], "stdout.fault_free": bases[variant][victim][1],
                 "stderr.observed": obs["stderr"], "fake_cop.log": "\n".join(obs["log"]) + "\n"}
        rep.violation("c16:%s:%s:%d" % (cls, fault, nf), files, summary, "cd /verif && ./check C16 --replay $(dirname $0)")

    rep.coverage.update({
        "evaluations": executed, "distinct_nontrivial": injected_n,
        "rule": "one evaluation = one run of the real nano_vm --isolate-ffi on a victim program against the scripted co-process; "
                "a cell is (build variant, victim, protocol step, request number k<=%d, fault, behaviour after the fault) or a sequence of two "
                "such (second one in the relaunched co-process); non-trivial = fake_cop logged that every scripted fault was actually injected "
                "(1-fault cells must all be reached; an unreached second fault is counted under not_reached)" % K,
        "planned": planned, "not_reached": not_reached, "outcome_classes": outcomes, "per_stage": per_variant,
        "steps": ["pre_ready", "post_ready", "init_unread"] + K_STEPS, "process_faults": PROC_FAULTS,
        "message_faults": [m[0] for m in MSG_FAULTS], "violating_cells": sum(len(v) for v in groups.values()),
        "exhaustive": planned == executed and (tier == "quick" or seq_done),
    })
    rep.assumptions += [
        "K=%d extern calls per victim; 4 victims (straight-line with string/int payloads both ways; loop; heap-valued results; module larger than the pipe)" % K,
        "every fault is ordered against the VM: at post_ready/post_reply it is completed before the VM can read the preceding message, at req_hdr the request payload is completely in the pipe, and a dying co-process closes its stdin before its stdout (the kernel itself gives no order; the other order is the close_stdout fault), so each cell has one outcome",
        "excluded as outside the property: a peer that never answers while the VM legitimately waits (no timeout exists), a peer that ignores SIGTERM, well-formed replies with a wrong value, duplicated well-formed replies",
        "'linger' (wedged, SIGTERM-able peer) is only combined with messages no VM can accept",
        "orphan = descendant of nano_vm still alive (not a zombie) %.0f s after nano_vm exited, found by the sub-reaping runner through /proc" % REMAIN_S,
        "quick: sanitizer build on victims A and D, close_stdin/close_both keep running 300 ms; thorough: sanitizer build on all victims, 1000 ms, and on victim %s "
        "every 2-fault sequence (first fault = each 1-fault cell after which the VM relaunched a co-process and finished, second fault = the whole 1-fault product in the relaunched one, %d ms)" % ("/".join(SEQ_VICTIMS), SEQ_LINGER_MS),
    ]
    if not rep.out_of_time():
        if executed != planned:
            raise common.HarnessError("executed %d of %d planned cells" % (executed, planned))
        if len(outcomes) < 2:
            raise common.HarnessError("vacuous: every cell had the outcome %r" % (outcomes,))
        if injected_n < 1000:
            raise common.HarnessError("vacuous: only %d faults injected" % injected_n)
    return rep.finish()


def replay(path):
    with open(os.path.join(path, "cell.json")) as f:
        cell = json.load(f)
    cells = [tuple(c) for c in cell["cells"]]
    victim = cell["victim"]
    plain = setup("plain", cell.get("linger_ms", 1000), [victim])
    ctx = plain if cell["variant"] == "plain" else setup(cell["variant"], cell.get("linger_ms", 1000), [victim], nvm_from=plain)
    base, reqmap = controls(ctx, [victim])
    obs = run_case(ctx, victim, cells, timeout=HANG_TIMEOUT)
    ok, cls, detail = judge(VICTIMS[victim], cells, obs, base[victim], reqmap[victim])
    print("%s\n  injected=%r launches=%d exit=%s stdout=%r stderr=%r" % (
        cell_text(cell["variant"], victim, cells), obs["injected"], obs["launches"], obs["rc"], obs["stdout"][:200], obs["stderr"][:300]))
    print("  outcome: %s %s" % (cls, detail))
    if len(obs["injected"]) != len(cells):
        print("  (scripted fault not reached any more)")
        return 0
    if not ok:
        print("VIOLATION property=C16 replay=%s" % path)
        return 1
    print("contained")
    return 0
